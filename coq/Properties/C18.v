(** C18 — Pod-grouper is a deterministic, idempotent function of the workload.
    Statements only; proofs are in Proofs/Grouper.v, the model in Model/Grouper.v.

    [cfg] is the grouper configuration together with the cluster-wide inputs it
    reads (existing priority classes, the defaults config map, kinds the
    grouper may not GET), [cl] the owner objects, [a]/[b] the pod-group
    annotation a pod already carries. [grouping cfg cl p a = GOk pl g os used]
    says: plugin [pl] derives the group from object [g] (after skip-top-owner
    unwrapping) and [used] tells whether the pod itself served as an owner
    object on the way.

    The model carries one switch per repair made to the code, the un-suffixed
    definitions ([full_md], [reconcile], [run], [settles], [coherent]) being the
    code as it is:
    - [sg], [eq]: the handler before ([ignore_sg_v0], [pg_equal_v0]) and since
      ([ignore_sg_v1], [pg_equal_v1]) 9775a95;
    - [pf]: assignPodToGroupAndSubGroup before ([patch_fix_v0]) and since
      ([patch_fix_v1]) 3f1c7d2;
    - [af]: CalcPodGroupAnnotations before ([annot_fix_v0]) and since
      ([annot_fix_v1]) 8227120.
    Statements (2), (4) and (4a) hold for EVERY version [sg] of ignoreFields, EVERY
    equality test [eq] and both [pf]. [pg_equal_swapped] (podGroupsEqual with the map
    arguments exchanged) is not a version of the code; it only appears in
    C18_swapped_comparison_writes_forever / C18_owner_key_removed; [reconcile_early_return] (Reconcile returning
    before ApplyToCluster for a pod that is already assigned, the seeded change C18-3) is not a version of the
    code either; it only appears in C18_early_return_depends_on_history / C18_early_return_refuted; [memo_rc]
    (getOwnerInstance remembering the kinds whose GET was once answered 403, the seeded change C18-4) is not a
    version of the code either; it only appears in the three theorems named C18_forbidden_memo. The theorems
    named [_before_repair] keep the history of the three findings machine-checked. Section (6) at the end is
    about API faults on the owner GETs (namespaced RBAC that changes over time, transient 403 / 404 / 5xx). *)
From Coq Require Import List String ZArith.
From KaiV Require Import Model.Grouper Model.GrouperSpec Proofs.Grouper Model.GrouperFaults Proofs.GrouperFaults
     Model.GrouperOrder Proofs.GrouperOrder.
Import ListNotations.

(** (1) Pods with the same top owner and the same template-derived fields (queue, project,
    node-pool, priority-class, preemptibility and user labels, user annotation,
    spec.priorityClassName — name, uid and every other label may differ) get the very same
    metadata — name pg-<owner>-<uid>, min-available 1, queue, priority class, preemptibility,
    (no) sub-groups, labels, annotations, topology — whenever the default grouper derives the
    group from an owner object. *)
Theorem C18_siblings_same_group :
  forall cfg cl p q a b g os,
    same_template cfg p q ->
    grouping cfg cl p a = GOk PDefault g os false ->
    full_md cfg cl q b = full_md cfg cl p a
    /\ exists m, full_md cfg cl p a = Some m
                 /\ m_name m = pg_name (o_name g) (o_uid g) /\ m_min m = 1%Z /\ m_subgroups m = [].
Proof. exact siblings_same_group. Qed.
Print Assumptions C18_siblings_same_group.

(** (1') The per-pod kinds (Deployment, batch Job): one group per pod, named after the pod; every
    other field is the same for all siblings. *)
Theorem C18_per_pod_kinds :
  forall cfg cl p q a b pl g os,
    same_template cfg p q -> pl = PDeployment \/ pl = PJob ->
    grouping cfg cl p a = GOk pl g os false ->
    exists m m', full_md cfg cl p a = Some m /\ full_md cfg cl q b = Some m'
                 /\ m_name m = pg_name (p_name p) (match pl with PDeployment => p_uid p | _ => o_uid g end)
                 /\ m_name m' = pg_name (p_name q) (match pl with PDeployment => p_uid q | _ => o_uid g end)
                 /\ same_but_identity m m'.
Proof. exact per_pod_kinds. Qed.
Print Assumptions C18_per_pod_kinds.

(** (2) Order independence, general form: for a coherent set of pods (distinct names; equal group
    names mean equal metadata), two arbitrary lists of reconcile events that mention the same
    pods — in any order, any number of times each — lead from any start state to the same
    PodGroups and the same pod annotations. Since 8227120 coherence no longer asks that each pod
    settles: every pod does, (3a). *)
Theorem C18_order_independent :
  forall pf sg eq cfg cl ps es1 es2 s,
    coherent cfg cl ps ->
    incl es1 ps -> incl es2 ps -> incl es1 es2 -> incl es2 es1 ->
    st_equiv (run_with annot_fix pf sg eq cfg cl (map EvReconcile es1) s)
             (run_with annot_fix pf sg eq cfg cl (map EvReconcile es2) s).
Proof. exact order_independent_coherent. Qed.
Print Assumptions C18_order_independent.

(** (2') ... instantiated: the siblings of an owner handled by the default grouper are coherent
    (in every version of the code). *)
Theorem C18_order_independent_siblings :
  forall af pf sg eq cfg cl ps p0 a0 g os es1 es2 s,
    NoDup (map p_name ps) ->
    (forall p, In p ps -> same_template cfg p0 p) ->
    grouping cfg cl p0 a0 = GOk PDefault g os false ->
    incl es1 ps -> incl es2 ps -> incl es1 es2 -> incl es2 es1 ->
    st_equiv (run_with af pf sg eq cfg cl (map EvReconcile es1) s) (run_with af pf sg eq cfg cl (map EvReconcile es2) s).
Proof. exact order_independent_siblings. Qed.
Print Assumptions C18_order_independent_siblings.

(** (2'') Without any coherence: reconciling one pod twice leaves exactly the PodGroups and pod
    annotations the first reconcile produced, for every pod, cluster, configuration and state. *)
Theorem C18_reconcile_twice_same_state :
  forall pf sg eq cfg cl p s,
    st_equiv (run_with annot_fix pf sg eq cfg cl (map EvReconcile [p]) s)
             (run_with annot_fix pf sg eq cfg cl (map EvReconcile [p; p]) s).
Proof. exact reconcile_twice_same_state. Qed.
Print Assumptions C18_reconcile_twice_same_state.

(** Before 8227120 this was false (with the handler before and since 9775a95): a pod owned directly
    by a skip-top-owner kind (argo Workflow) is its own grouping object, and its second reconcile copied
    the pod-group annotation written by the first one into the PodGroup. *)
Theorem C18_reconcile_twice_before_repair :
  ~ order_independent_unrestricted annot_fix_v0 patch_fix ignore_sg_v0 pg_equal_v0
  /\ ~ order_independent_unrestricted annot_fix_v0 patch_fix ignore_sg_v1 pg_equal_v1.
Proof. exact order_independent_unrestricted_before_repair. Qed.
Print Assumptions C18_reconcile_twice_before_repair.

(** The general form of (2) for every version of the code, where each pod of the set must be known
    to settle. *)
Theorem C18_order_independent_any_version :
  forall af pf sg eq cfg cl ps es1 es2 s,
    coherent_with af cfg cl ps ->
    incl es1 ps -> incl es2 ps -> incl es1 es2 -> incl es2 es1 ->
    st_equiv (run_with af pf sg eq cfg cl (map EvReconcile es1) s) (run_with af pf sg eq cfg cl (map EvReconcile es2) s).
Proof. exact order_independent_coherent_with. Qed.
Print Assumptions C18_order_independent_any_version.

(** (3a) Every pod settles: the metadata computed for a pod that already carries the pod-group
    annotation of its group is the metadata that produced that annotation, or the pod is skipped from
    then on (owner-less pods). No hypothesis on the owner chain: pods grouped by an owner object, pods
    that are their own grouping object (direct owner of a skip-top-owner kind, direct owner the grouper
    may not GET), pods carrying a pod-group annotation of their own, ownership chains that fail. *)
Theorem C18_all_pods_settle : forall cfg cl p, settles cfg cl p.
Proof. exact all_settle. Qed.
Print Assumptions C18_all_pods_settle.

(** (3) Idempotence of the code as it is: a second reconcile of ANY pod, in ANY state (in particular any
    reachable one), for any cluster and configuration, issues no mutating call. *)
Definition C18_idempotent_statement : Prop := idempotent_statement annot_fix patch_fix ignore_sg pg_equal.

Theorem C18_idempotent :
  forall cfg cl p s, snd (reconcile cfg cl p (fst (reconcile cfg cl p s))) = 0%Z.
Proof. exact idempotent_v1. Qed.
Print Assumptions C18_idempotent.

(** (3') ... with other reconciles in between: in a coherent set, once a pod was reconciled every later
    reconcile of it is silent, whatever reconciles of pods of the set happened before and since. The start
    state is arbitrary, so [s] may be the result of any earlier events, foreign updates included: "no
    foreign update since the pod's last reconcile" is all that is asked. *)
Theorem C18_idempotent_interleaved :
  forall cfg cl ps es p s,
    coherent cfg cl ps -> incl es ps -> In p es ->
    snd (reconcile cfg cl p (run cfg cl (map EvReconcile es) s)) = 0%Z.
Proof. exact idempotent_interleaved. Qed.
Print Assumptions C18_idempotent_interleaved.

(** (3a') Idempotence in the presence of keys of other actors on the stored PodGroup. (3) has no hypothesis on
    the state, so it covers a PodGroup that another actor has labelled or annotated: explicitly, after ANY
    foreign update [f] of ANY PodGroup, a reconcile that follows a reconcile of the same pod writes nothing. *)
Theorem C18_idempotent_after_foreign_update :
  forall cfg cl p s n f,
    snd (reconcile cfg cl p (fst (reconcile cfg cl p (fst (step cfg cl (EvForeign n f) s))))) = 0%Z.
Proof. intros cfg cl p s n f. apply C18_idempotent. Qed.
Print Assumptions C18_idempotent_after_foreign_update.

(** (3b') A foreign update that touches only label / annotation keys the pod's metadata does not carry
    ([foreign_to]: no queue / mark / backoff / node-pool / queue-label part; no touched label key is the queue
    or node-pool key or a key of the computed labels; no touched annotation key is a computed one) does not
    change what the next reconcile of the pod writes: podGroupsEqual asks whether every key the grouper
    computes is on the stored PodGroup ([mapsEqualBySourceKeys(new, old)]), not the converse. *)
Theorem C18_foreign_keys_do_not_wake :
  forall cfg cl p s n f,
    (forall m, full_md cfg cl p (get_asg (p_name p) s) = Some m -> foreign_to cfg m f) ->
    snd (reconcile cfg cl p (fst (step cfg cl (EvForeign n f) s))) = snd (reconcile cfg cl p s).
Proof. exact (foreign_keys_do_not_wake annot_fix patch_fix). Qed.
Print Assumptions C18_foreign_keys_do_not_wake.

(** (3c') ... hence, in a coherent set, once a pod was reconciled every later reconcile of it is silent, whatever
    reconciles of pods of the set and whatever such foreign updates ([quiet_event]) happened since - the
    first reconcile after the scheduler stamped the PodGroup included. This is what the monitor demands of the
    real reconciler. *)
Theorem C18_idempotent_with_foreign_keys :
  forall cfg cl ps evs p s,
    coherent cfg cl ps -> In p ps -> Forall (quiet_event cfg cl ps p) evs ->
    snd (reconcile cfg cl p (run cfg cl evs (fst (reconcile cfg cl p s)))) = 0%Z.
Proof. exact idempotent_with_foreign_keys. Qed.
Print Assumptions C18_idempotent_with_foreign_keys.

(** What the direction of the comparison is for. [pg_equal_swapped] is NOT the code: it is podGroupsEqual with
    the map arguments the other way round, [mapsEqualBySourceKeys(old, new)]. With the scheduler's two timestamp
    annotations and an admin label on the stored PodGroup ([ex_annotated]): the code as it is stays silent; the
    swapped comparison makes every reconcile of every member pod issue an Update that leaves the store as it
    is, for ever; without a foreign key it is silent too (so creating workloads and re-reconciling untouched
    PodGroups does not tell the two apart). *)
Theorem C18_swapped_comparison_writes_forever :
  snd (reconcile ex_cfg [ex_sts] (ex_pod "0") ex_annotated) = 0%Z
  /\ snd (reconcile ex_cfg [ex_sts] (ex_pod "1") (fst (reconcile ex_cfg [ex_sts] (ex_pod "1") ex_annotated))) = 0%Z
  /\ (forall n, let s := Nat.iter n (fun s => fst (rec_swapped ex_cfg [ex_sts] (ex_pod "0") s)) ex_annotated in
                snd (rec_swapped ex_cfg [ex_sts] (ex_pod "0") s) = 1%Z /\ st_pgs s = st_pgs ex_annotated)
  /\ snd (rec_swapped ex_cfg [ex_sts] (ex_pod "1") (fst (rec_swapped ex_cfg [ex_sts] (ex_pod "1") ex_annotated))) = 1%Z
  /\ snd (rec_swapped ex_cfg [ex_sts] (ex_pod "0") (after 1 ex_cfg [ex_sts] (ex_pod "0"))) = 0%Z.
Proof. exact swapped_comparison_writes_forever. Qed.
Print Assumptions C18_swapped_comparison_writes_forever.

(** A key that was on the owner when the PodGroup was created (label app, annotation note) and is removed from
    the owner afterwards stays on the stored PodGroup; the grouper no longer computes it: the code as it is
    writes nothing and keeps it, the swapped comparison writes on every reconcile. *)
Theorem C18_owner_key_removed :
  let s := after 1 ex_cfg [ex_sts_labelled] (ex_pod "0") in
  (exists g, get_pg ex_pg_name s = Some g /\ mget "app" (pg_labels g) = Some "web"%string /\ mget "note" (pg_annots g) = Some "x"%string)
  /\ snd (reconcile ex_cfg [ex_sts] (ex_pod "0") s) = 0%Z
  /\ (exists g, get_pg ex_pg_name (fst (reconcile ex_cfg [ex_sts] (ex_pod "0") s)) = Some g
                /\ mget "app" (pg_labels g) = Some "web"%string /\ mget "note" (pg_annots g) = Some "x"%string)
  /\ snd (rec_swapped ex_cfg [ex_sts] (ex_pod "0") s) = 1%Z
  /\ snd (rec_swapped ex_cfg [ex_sts] (ex_pod "0") (fst (rec_swapped ex_cfg [ex_sts] (ex_pod "0") s))) = 1%Z.
Proof. exact owner_key_removed. Qed.
Print Assumptions C18_owner_key_removed.

(** History 1 (9775a95). The handler before it REFUTED even the weak form of (3) — pods that settle
    and carry no stale sub-group label — in every combination of the later repairs:
    createPodGroupForMetadata builds SubGroups: []SubGroup{} and ignoreFields an empty non-nil label
    map, the API returns nil for both, podGroupsEqual said "different", and every reconcile issued an
    Update (witness: a StatefulSet pod, empty store). *)
Theorem C18_idempotent_v0_refuted : forall af pf, ~ idempotent_partial_statement af pf ignore_sg_v0 pg_equal_v0.
Proof. exact idempotent_v0_refuted. Qed.
Print Assumptions C18_idempotent_v0_refuted.

(** Neither half of that repair suffices alone (owner without labels): sub-group step without the
    map comparison, and the map comparison without the sub-group step, both still write. *)
Theorem C18_half_repairs_insufficient :
  snd (reconcile_with annot_fix patch_fix true pg_equal_v0 ex_cfg [ex_bare_sts] (ex_pod "0")
         (rec_step annot_fix patch_fix true pg_equal_v0 ex_cfg [ex_bare_sts] (ex_pod "0") empty_state)) = 1%Z
  /\ snd (reconcile_with annot_fix patch_fix false pg_equal_v1 ex_cfg [ex_bare_sts] (ex_pod "0")
            (rec_step annot_fix patch_fix false pg_equal_v1 ex_cfg [ex_bare_sts] (ex_pod "0") empty_state)) = 1%Z.
Proof. exact ex_half_repairs_insufficient. Qed.
Print Assumptions C18_half_repairs_insufficient.

(** What held between 9775a95 and the two later repairs, in every combination of them: (3) for pods that
    settle and carry no stale sub-group label; pods grouped by an owner object and owner-less pods settle. *)
Theorem C18_idempotent_partial_any_version :
  forall af pf cfg cl p s,
    settles_with af cfg cl p -> no_stale_subgroup p ->
    snd (reconcile_with af pf ignore_sg pg_equal cfg cl p (rec_step af pf ignore_sg pg_equal cfg cl p s)) = 0%Z.
Proof. exact idempotent_partial. Qed.
Print Assumptions C18_idempotent_partial_any_version.

Theorem C18_settles_any_version :
  forall af cfg cl p,
    (p_owners p = [] \/ exists a pl g os, grouping cfg cl p a = GOk pl g os false) -> settles_with af cfg cl p.
Proof. exact settles_cases. Qed.
Print Assumptions C18_settles_any_version.

(** History 2 (8227120, finding C18-annotation-feedback). With the old CalcPodGroupAnnotations and
    everything else as it is: the Workflow-owned pod [ex_step] does not settle, its second reconcile issues
    an Update that puts pod-group-name into its PodGroup (its third is silent); the same for a pod whose
    direct owner the grouper may not GET; hence (3) was false. *)
Theorem C18_annotation_feedback_before_repair :
  ~ settles_with annot_fix_v0 ex_cfg [ex_wf] ex_step
  /\ snd (reconcile_with annot_fix_v0 patch_fix true pg_equal_v1 ex_cfg [ex_wf] ex_step
            (rec_step annot_fix_v0 patch_fix true pg_equal_v1 ex_cfg [ex_wf] ex_step empty_state)) = 1%Z
  /\ snd (reconcile_with annot_fix_v0 patch_fix true pg_equal_v1 ex_cfg [ex_wf] ex_step
            (rec_step annot_fix_v0 patch_fix true pg_equal_v1 ex_cfg [ex_wf] ex_step
               (rec_step annot_fix_v0 patch_fix true pg_equal_v1 ex_cfg [ex_wf] ex_step empty_state))) = 0%Z
  /\ pg_self_annot "pg-step-0-u-s0"
       (rec_step annot_fix_v0 patch_fix true pg_equal_v1 ex_cfg [ex_wf] ex_step
          (rec_step annot_fix_v0 patch_fix true pg_equal_v1 ex_cfg [ex_wf] ex_step empty_state))
     = Some (Some "pg-step-0-u-s0"%string)
  /\ snd (reconcile_with annot_fix_v0 patch_fix true pg_equal_v1 ex_cfg_forbidden [ex_sts] (ex_pod "0")
            (rec_step annot_fix_v0 patch_fix true pg_equal_v1 ex_cfg_forbidden [ex_sts] (ex_pod "0") empty_state)) = 1%Z
  /\ ~ idempotent_statement annot_fix_v0 patch_fix ignore_sg pg_equal.
Proof. exact annotation_feedback_before_repair. Qed.
Print Assumptions C18_annotation_feedback_before_repair.

(** ... and the same two witnesses on the code as it is: the first reconcile creates the PodGroup and
    patches the pod (2 calls), every later reconcile is silent, the PodGroup never holds pod-group-name. *)
Theorem C18_annotation_feedback_now_quiet :
  snd (reconcile ex_cfg [ex_wf] ex_step empty_state) = 2%Z
  /\ (forall n, snd (reconcile ex_cfg [ex_wf] ex_step (after (S n) ex_cfg [ex_wf] ex_step)) = 0%Z)
  /\ pg_self_annot "pg-step-0-u-s0" (after 2 ex_cfg [ex_wf] ex_step) = Some None
  /\ snd (reconcile ex_cfg_forbidden [ex_sts] (ex_pod "0") empty_state) = 2%Z
  /\ (forall n, snd (reconcile ex_cfg_forbidden [ex_sts] (ex_pod "0") (after (S n) ex_cfg_forbidden [ex_sts] (ex_pod "0"))) = 0%Z)
  /\ pg_self_annot "pg-web-0-u-p0" (after 2 ex_cfg_forbidden [ex_sts] (ex_pod "0")) = Some None.
Proof. exact annotation_feedback_now_quiet. Qed.
Print Assumptions C18_annotation_feedback_now_quiet.

(** History 3 (3f1c7d2, finding C18-stale-subgroup-repatch). With the old patch condition and everything
    else as it is: the StatefulSet pod [ex_stale], which settles but carries the label
    kai.scheduler/subgroup-name=gone, is patched on its second and on its third reconcile; hence (3) was false. *)
Theorem C18_stale_subgroup_before_repair :
  settles ex_cfg [ex_sts] ex_stale /\ ~ no_stale_subgroup ex_stale
  /\ snd (reconcile_with annot_fix patch_fix_v0 true pg_equal_v1 ex_cfg [ex_sts] ex_stale
            (rec_step annot_fix patch_fix_v0 true pg_equal_v1 ex_cfg [ex_sts] ex_stale empty_state)) = 1%Z
  /\ snd (reconcile_with annot_fix patch_fix_v0 true pg_equal_v1 ex_cfg [ex_sts] ex_stale
            (rec_step annot_fix patch_fix_v0 true pg_equal_v1 ex_cfg [ex_sts] ex_stale
               (rec_step annot_fix patch_fix_v0 true pg_equal_v1 ex_cfg [ex_sts] ex_stale empty_state))) = 1%Z
  /\ ~ idempotent_statement annot_fix patch_fix_v0 ignore_sg pg_equal.
Proof. exact stale_subgroup_before_repair. Qed.
Print Assumptions C18_stale_subgroup_before_repair.

(** ... and on the code as it is: 2 calls on the first reconcile, none on any later one; the label stays. *)
Theorem C18_stale_subgroup_now_quiet :
  ~ no_stale_subgroup ex_stale
  /\ snd (reconcile ex_cfg [ex_sts] ex_stale empty_state) = 2%Z
  /\ (forall n, snd (reconcile ex_cfg [ex_sts] ex_stale (after (S n) ex_cfg [ex_sts] ex_stale)) = 0%Z)
  /\ lookup subgroup_label_key (p_labels ex_stale) = Some "gone"%string.
Proof. exact stale_subgroup_now_quiet. Qed.
Print Assumptions C18_stale_subgroup_now_quiet.

(** (4) Fields owned by other actors: for any sequence of reconciles (of any pods) and foreign
    updates, the queue, mark-unschedulable, scheduling-backoff and node-pool label of an existing
    PodGroup are exactly what the foreign updates alone make of them. A foreign update may also set,
    change and delete any other label and annotation of the stored PodGroup ([f_labels], [f_annots]). *)
Theorem C18_foreign_fields_kept :
  forall af pf sg eq cfg cl evs s n g,
    c_queue_key cfg <> c_nodepool_key cfg ->
    get_pg n s = Some g ->
    exists g', get_pg n (run_with af pf sg eq cfg cl evs s) = Some g'
               /\ foreign_view cfg g' = foreign_only cfg n evs (foreign_view cfg g).
Proof. exact foreign_fields_kept. Qed.
Print Assumptions C18_foreign_fields_kept.

(** (4a) ... and so are the labels and annotations of other actors: a label key [k] (other than the queue
    and node-pool keys) / an annotation key [k] that no reconcile of the sequence computes for PodGroup [n]
    ([not_computed]: the metadata of every reconciled pod that targets [n] has no such key) holds, after any
    sequence of reconciles and foreign updates, the value the foreign updates alone give it
    ([foreign_only_key]) - the scheduler's kai.scheduler/last-start-timestamp and
    kai.scheduler/stale-podgroup-timestamp annotations, an administrator's label, a key that was removed from
    the owner after the PodGroup was created (the start state [s] is arbitrary). For every version of
    ignoreFields and every equality test: the merge in updatePodGroup is what keeps them. *)
Theorem C18_foreign_labels_kept :
  forall af pf sg eq cfg cl evs s n g k,
    k <> c_queue_key cfg -> k <> c_nodepool_key cfg ->
    not_computed af cfg cl n evs m_labels k ->
    get_pg n s = Some g ->
    exists g', get_pg n (run_with af pf sg eq cfg cl evs s) = Some g'
               /\ mget k (pg_labels g') = foreign_only_key f_labels n k evs (mget k (pg_labels g)).
Proof. exact foreign_labels_kept. Qed.
Print Assumptions C18_foreign_labels_kept.

Theorem C18_foreign_annotations_kept :
  forall af pf sg eq cfg cl evs s n g k,
    not_computed af cfg cl n evs m_annots k ->
    get_pg n s = Some g ->
    exists g', get_pg n (run_with af pf sg eq cfg cl evs s) = Some g'
               /\ mget k (pg_annots g') = foreign_only_key f_annots n k evs (mget k (pg_annots g)).
Proof. exact foreign_annots_kept. Qed.
Print Assumptions C18_foreign_annotations_kept.

(** (4') A queue label that is present survives a reconcile; PodGroups of other names are not touched. *)
Theorem C18_queue_label_kept :
  forall af pf sg eq cfg cl p s n g v,
    get_pg n s = Some g -> mget (c_queue_key cfg) (pg_labels g) = Some v ->
    exists g', get_pg n (rec_step af pf sg eq cfg cl p s) = Some g' /\ mget (c_queue_key cfg) (pg_labels g') = Some v.
Proof. exact queue_label_kept. Qed.
Print Assumptions C18_queue_label_kept.

Theorem C18_other_groups_untouched :
  forall af pf sg eq cfg cl p s n,
    (forall m, full_md_with af cfg cl p (get_asg (p_name p) s) = Some m -> m_name m <> n) ->
    get_pg n (rec_step af pf sg eq cfg cl p s) = get_pg n s.
Proof. exact other_groups_untouched. Qed.
Print Assumptions C18_other_groups_untouched.

(** Non-vacuity: two StatefulSet pods meet the hypotheses of (1), (2), (3') and (4), in every version;
    reconciled in the order 1, 0 they end in one PodGroup pg-web-u-sts with the owner's queue. *)
Theorem C18_nonvacuous :
  same_template ex_cfg (ex_pod "0") (ex_pod "1")
  /\ NoDup (map p_name [ex_pod "0"; ex_pod "1"])
  /\ coherent ex_cfg [ex_sts] [ex_pod "0"; ex_pod "1"]
  /\ (forall af, coherent_with af ex_cfg [ex_sts] [ex_pod "0"; ex_pod "1"])
  /\ no_stale_subgroup (ex_pod "0")
  /\ c_queue_key ex_cfg <> c_nodepool_key ex_cfg
  /\ let s := run ex_cfg [ex_sts] [EvReconcile (ex_pod "1"); EvReconcile (ex_pod "0")] empty_state in
     get_asg "web-0" s = Some "pg-web-u-sts"%string /\ get_asg "web-1" s = Some "pg-web-u-sts"%string
     /\ exists g, get_pg "pg-web-u-sts" s = Some g /\ sp_queue g = "team-a"%string /\ sp_min g = 1%Z
                  /\ List.length (st_pgs s) = 1%nat.
Proof. exact ex_nonvacuous. Qed.
Print Assumptions C18_nonvacuous.

(** Non-vacuity of (3b'), (3c') and (4a): the two StatefulSet pods, the PodGroup stamped by the scheduler
    (last-start and stale timestamps, an admin label), a sibling reconciled in between, the stale mark removed
    again: every event is a [quiet_event], the keys are [not_computed]; the next reconcile of pod 0 writes
    nothing and the PodGroup holds exactly what the scheduler's updates alone give. *)
Theorem C18_foreign_keys_nonvacuous :
  Forall (quiet_event ex_cfg [ex_sts] [ex_pod "0"; ex_pod "1"] (ex_pod "0")) ex_quiet_events
  /\ not_computed annot_fix ex_cfg [ex_sts] ex_pg_name ex_quiet_events m_annots last_start_key
  /\ not_computed annot_fix ex_cfg [ex_sts] ex_pg_name ex_quiet_events m_labels "team-owner"
  /\ "team-owner"%string <> c_queue_key ex_cfg /\ "team-owner"%string <> c_nodepool_key ex_cfg
  /\ let s := run ex_cfg [ex_sts] ex_quiet_events (after 1 ex_cfg [ex_sts] (ex_pod "0")) in
     snd (reconcile ex_cfg [ex_sts] (ex_pod "0") s) = 0%Z
     /\ exists g, get_pg ex_pg_name s = Some g
                  /\ mget last_start_key (pg_annots g) = Some "2025-06-01T11:00:00Z"%string
                  /\ mget stale_key (pg_annots g) = None
                  /\ mget "team-owner" (pg_labels g) = Some "ml-infra"%string
                  /\ foreign_only_key f_annots ex_pg_name last_start_key ex_quiet_events None = Some "2025-06-01T11:00:00Z"%string.
Proof. exact ex_foreign_keys_nonvacuous. Qed.
Print Assumptions C18_foreign_keys_nonvacuous.

(** (5) History independence. The PodGroup is a function of the workload, not of what happened before: take ANY
    history [hs] from any owner objects [cl0] and any state [s0] - reconciles and foreign updates ([HEv]), edits
    of the owner objects ([HOwners cl']: any new set of owner objects - changed, added, removed labels and
    annotations, priority class, preemptibility, queue and project labels, topology annotations, other owner
    references), PodGroups overwritten with arbitrary content, grouper-owned fields included ([HTamper]), PodGroups
    deleted ([HDelete]) -, then reconcile the pods [ps] (pods that have an owner reference; any order, any
    repetitions) under the final owner objects. Then every PodGroup that the same reconciles build from the
    empty store exists, and agrees with it on the grouper-owned part ([owned_agree]: minMember, priority class,
    preemptibility, sub-groups, topology constraint, owner references - everything but the fields of
    [foreign_view] -; every label the fresh PodGroup carries other than the queue and node-pool labels; every
    annotation it carries), and every pod assigned in the fresh run is assigned to the same PodGroup. Labels
    and annotations are merged, never removed (C18_owner_key_removed), hence the direction. *)
Theorem C18_history_independent :
  forall cfg cl0 s0 hs ps,
    (forall p, In p ps -> p_owners p <> []) ->
    let cl_final := fst (hrun cfg hs (cl0, s0)) in
    let s_hist := snd (hrun cfg hs (cl0, s0)) in
    let hist := run cfg cl_final (map EvReconcile ps) s_hist in
    let fresh := run cfg cl_final (map EvReconcile ps) empty_state in
    (forall n gf, get_pg n fresh = Some gf -> exists gh, get_pg n hist = Some gh /\ owned_agree cfg gf gh)
    /\ (forall k x, get_asg k fresh = Some x -> get_asg k hist = Some x).
Proof. exact history_independent_run. Qed.
Print Assumptions C18_history_independent.

(** (5') ... which is: from ANY state whatsoever (the state stands for every history) *)
Theorem C18_history_independent_any_state :
  forall cfg cl ps s,
    (forall p, In p ps -> p_owners p <> []) ->
    agrees_with_fresh cfg (run cfg cl (map EvReconcile ps) empty_state) (run cfg cl (map EvReconcile ps) s).
Proof. exact history_independent_any_state. Qed.
Print Assumptions C18_history_independent_any_state.

(** the same as a statement about a reconciler [rc], for the refutations below *)
Theorem C18_history_independent_statement_holds : history_independent_statement reconcile.
Proof. exact history_independent. Qed.
Print Assumptions C18_history_independent_statement_holds.

(** the comparison the monitor evaluates on the real stores ([owned_agreeb], Model/Grouper.v) is [owned_agree] *)
Theorem C18_owned_agreeb_spec :
  forall cfg fresh hist, owned_agreeb cfg fresh hist = true <-> owned_agree cfg fresh hist.
Proof. exact owned_agreeb_spec. Qed.
Print Assumptions C18_owned_agreeb_spec.

(** (5'') in particular: after the reconciles the PodGroup of every reconciled pod exists - a deleted one is back *)
Theorem C18_podgroup_restored :
  forall cfg cl ps s p a m,
    In p ps -> p_owners p <> [] -> full_md cfg cl p a = Some m ->
    get_pg (m_name m) (run cfg cl (map EvReconcile ps) s) <> None.
Proof. exact podgroup_restored. Qed.
Print Assumptions C18_podgroup_restored.

(** What the call of ApplyToCluster for an already assigned pod is for. [reconcile_early_return] is NOT the code:
    it returns before ApplyToCluster when the pod carries the expected pod-group annotation (seeded change
    C18-3). StatefulSet web, pods web-0 and web-1 reconciled once; then (a) the owner gets a priority class, a
    preemptibility, a label and a topology constraint, (b) minMember / priorityClassName / owner references /
    a computed annotation of the PodGroup are overwritten, (c) the PodGroup is deleted; then every pod is
    reconciled twice. The code as it is ends with the PodGroup of the fresh run in all three; the early return
    keeps priority class train / minMember 7, priority class build, no owner reference / no PodGroup at all
    while both pods stay assigned to it. *)
Theorem C18_early_return_depends_on_history :
  ex_pg_fields (ex_fresh_end reconcile ex_hist_edit) = Some (1%Z, "inference", "non-preemptible", "topo-1", [ex_sts_ref])%string
  /\ ex_pg_fields (ex_hist_end reconcile ex_hist_edit) = Some (1%Z, "inference", "non-preemptible", "topo-1", [ex_sts_ref])%string
  /\ ex_agrees reconcile ex_hist_edit = true
  /\ ex_pg_fields (ex_fresh_end reconcile_early_return ex_hist_edit) = Some (1%Z, "inference", "non-preemptible", "topo-1", [ex_sts_ref])%string
  /\ ex_pg_fields (ex_hist_end reconcile_early_return ex_hist_edit) = Some (1%Z, "train", "", "", [ex_sts_ref])%string
  /\ ex_agrees reconcile_early_return ex_hist_edit = false
  /\ ex_pg_fields (ex_hist_end reconcile ex_hist_tamper) = Some (1%Z, "train", "", "", [ex_sts_ref])%string
  /\ ex_agrees reconcile ex_hist_tamper = true
  /\ ex_pg_fields (ex_hist_end reconcile_early_return ex_hist_tamper) = Some (7%Z, "build", "", "", [])%string
  /\ ex_agrees reconcile_early_return ex_hist_tamper = false
  /\ ex_agrees reconcile ex_hist_delete = true
  /\ get_pg ex_pg_name (ex_hist_end reconcile_early_return ex_hist_delete) = None
  /\ get_asg "web-0" (ex_hist_end reconcile_early_return ex_hist_delete) = Some ex_pg_name
  /\ get_pg ex_pg_name (ex_fresh_end reconcile_early_return ex_hist_delete) <> None.
Proof. exact early_return_depends_on_history. Qed.
Print Assumptions C18_early_return_depends_on_history.

Theorem C18_early_return_refuted : ~ history_independent_statement reconcile_early_return.
Proof. exact early_return_refuted. Qed.
Print Assumptions C18_early_return_refuted.

(** The hypothesis of (5) - the pods have an owner reference - is needed by the code as it is. The statement
    without it: *)
Definition C18_history_independent_unrestricted : Prop := history_independent_unrestricted reconcile.

(** ... is REFUTED: a pod without owner reference is skipped as soon as it carries a pod-group annotation
    (isOrphanPodWithPodGroup), the annotation the grouper wrote itself included. Pod solo, no owner, empty store:
    its first reconcile creates pg-solo-u-solo and assigns the pod; the PodGroup is deleted; no later reconcile
    brings it back, the pod stays assigned to a PodGroup that does not exist. (5) is the partial statement. *)
Theorem C18_history_independent_unrestricted_refuted : ~ C18_history_independent_unrestricted.
Proof. exact history_independent_unrestricted_refuted. Qed.
Print Assumptions C18_history_independent_unrestricted_refuted.

Theorem C18_ownerless_pod_frozen :
  let cs := hrun ex_cfg ex_bare_hist ([], empty_state) in
  let hist := run ex_cfg [] (map EvReconcile [ex_bare; ex_bare]) (snd cs) in
  let fresh := run ex_cfg [] (map EvReconcile [ex_bare; ex_bare]) empty_state in
  get_pg ex_bare_pg (snd (hrun ex_cfg [HEv (EvReconcile ex_bare)] ([], empty_state))) <> None
  /\ get_pg ex_bare_pg fresh <> None
  /\ get_pg ex_bare_pg hist = None
  /\ get_asg "solo" hist = Some ex_bare_pg.
Proof. exact ownerless_pod_frozen. Qed.
Print Assumptions C18_ownerless_pod_frozen.

(** (6) API FAULTS ON THE OWNER GETs (Model/GrouperFaults.v). Owner objects, pods and PodGroups live in
    namespaces; the uncached GET of an owner of kind [k] for a pod of namespace [n] is answered 403 when the rule
    [rb] holds [(n, k)] (namespaced RBAC; [FGrant] / [FRevoke] / [FRbac] change the rule over time), when [k] is
    in [c_forbidden cfg] (refused everywhere), or when [k] is in the transient faults [tr_forbidden] of that
    one reconcile; it is answered NotFound / 5xx when [k] is in [tr_failing] of that reconcile. On 403 the code
    falls back to the last readable owner or to the pod itself (handleGetOwnerError), on any other error the
    reconcile fails without a write. [frec rc]: one reconcile by a reconciler [rc] that may keep an instance
    state [I] between reconciles; the code as it is keeps none ([code_rc], [I = unit]).

    HISTORY INDEPENDENCE WITH FAULTS: any history [hs] from any start [fs0] - reconciles under whatever
    transient faults, grants, revokes, replaced rules, and (lifted to a namespace) foreign updates, edited owner
    objects, overwritten and deleted PodGroups -, followed by reconciles [ps] of pods with an owner reference (any
    namespaces, any order, any repetitions, each under its own transient faults) under the final owner objects
    and the final rule: in every namespace, every PodGroup that the same reconciles build on a pod-grouper that
    JUST STARTED, from empty stores, exists and agrees with it on the grouper-owned part, and every pod assigned
    there is assigned to the same PodGroup. *)
Theorem C18_history_independent_with_faults :
  forall cfg (fs0 : fstate unit) (hs : list fevent) (ps : list (string * pod * transient)),
    (forall x, In x ps -> p_owners (snd (fst x)) <> []) ->
    let fs := frun code_rc cfg hs fs0 in
    let hist := frecs code_rc cfg (fs_objs fs) (fs_rbac fs) ps (fs_ws fs, fs_inst fs) in
    let fresh := frecs code_rc cfg (fs_objs fs) (fs_rbac fs) ps ([], tt) in
    forall n,
      (forall g gf, get_pg g (get_ns n (fst fresh)) = Some gf ->
                    exists gh, get_pg g (get_ns n (fst hist)) = Some gh /\ owned_agree cfg gf gh)
      /\ (forall k x, get_asg k (get_ns n (fst fresh)) = Some x -> get_asg k (get_ns n (fst hist)) = Some x).
Proof. exact fault_history_independent. Qed.
Print Assumptions C18_history_independent_with_faults.

(** the same as a statement about a reconciler with instance state, for the refutation below *)
Theorem C18_history_independent_with_faults_statement_holds : fault_history_independent_statement tt code_rc.
Proof. exact fault_history_independent. Qed.
Print Assumptions C18_history_independent_with_faults_statement_holds.

(** (6') ONE RECONCILE IS A FUNCTION OF THE POD, THE OBJECTS OF ITS NAMESPACE AND THE ANSWERS OF THE MOMENT.
    [fmd cfg objs rb n p tr None] - the metadata computed from the owner chain of [p] under the rule [rb] and the
    transient faults [tr] - takes no store: whatever the stores [ws] hold (whatever was reconciled before, in
    whatever order, under whatever answers), the reconcile leaves every other namespace alone and either fails
    without a write ([None]: an owner GET answered NotFound / 5xx, a stale uid, two owners) or assigns the pod to
    PodGroup [m_name m], which then exists, agrees with [create_pg m] on the grouper-owned part, and IS
    [create_pg m] after the API round trip when the reconcile created it. *)
Theorem C18_assignment_function_of_answers :
  forall cfg objs rb n p tr ws,
    p_owners p <> [] ->
    let r := freconcile cfg objs rb n p tr ws in
    (forall n', n' <> n -> get_ns n' (fst r) = get_ns n' ws)
    /\ match fmd cfg objs rb n p tr None with
       | None => get_ns n (fst r) = get_ns n ws /\ snd r = 0%Z
       | Some m => get_asg (p_name p) (get_ns n (fst r)) = Some (m_name m)
                   /\ (exists g, get_pg (m_name m) (get_ns n (fst r)) = Some g
                                 /\ owned_agree cfg (norm (create_pg m)) g)
                   /\ (get_pg (m_name m) (get_ns n ws) = None ->
                       get_pg (m_name m) (get_ns n (fst r)) = Some (norm (create_pg m)))
       end.
Proof. exact assignment_function_of_answers. Qed.
Print Assumptions C18_assignment_function_of_answers.

(** ... in particular after ANY history of reconciles, grants, revokes and the other events: the PodGroup a pod
    is assigned to by its next reconcile is the one computed from the FINAL answers alone *)
Theorem C18_assignment_after_any_history :
  forall cfg (fs0 : fstate unit) hs n p tr m,
    p_owners p <> [] ->
    let fs := frun code_rc cfg hs fs0 in
    fmd cfg (fs_objs fs) (fs_rbac fs) n p tr None = Some m ->
    let ws' := fst (freconcile cfg (fs_objs fs) (fs_rbac fs) n p tr (fs_ws fs)) in
    get_asg (p_name p) (get_ns n ws') = Some (m_name m)
    /\ exists g, get_pg (m_name m) (get_ns n ws') = Some g /\ owned_agree cfg (norm (create_pg m)) g.
Proof. exact assignment_after_any_history. Qed.
Print Assumptions C18_assignment_after_any_history.

(** (6'') SIBLINGS UNDER EQUAL ANSWERS SHARE THE GROUP: two pods of one namespace with the same owner
    reference and template-derived fields, each reconciled at its own moment - other rule, other transient
    faults, other stores - but answered alike ([same_answers]: the same kinds refused, the same kinds failing,
    read as sets), are assigned to the same PodGroup pg-<owner>-<uid> whenever the default grouper derives the
    group from an owner object. *)
Theorem C18_siblings_under_equal_answers :
  forall cfg objs n rb tr rb' tr' p q a g os ws ws',
    same_answers cfg n rb tr rb' tr' ->
    same_template cfg p q ->
    grouping (eff_cfg cfg rb n tr) (visible (tr_failing tr) (cluster_of objs n)) p a = GOk PDefault g os false ->
    exists m, m_name m = pg_name (o_name g) (o_uid g)
              /\ get_asg (p_name p) (get_ns n (fst (freconcile cfg objs rb n p tr ws))) = Some (m_name m)
              /\ get_asg (p_name q) (get_ns n (fst (freconcile cfg objs rb' n q tr' ws'))) = Some (m_name m).
Proof. exact siblings_under_equal_answers. Qed.
Print Assumptions C18_siblings_under_equal_answers.

(** What asking the API server again is for. [memo_rc] is NOT the code: getOwnerInstance remembering every KIND
    whose GET was once answered 403 and answering Forbidden by itself from then on (seeded change C18-4) - the
    instance state is the list of remembered kinds. World of seeded/C18-4/README.md: Foo team-b/train owns the
    pods train-0 and train-1, Foo team-a/other owns other-0, Foos may be read in team-b but not in team-a.
    Outcome = (PodGroup of train-0, PodGroup of train-1, number of PodGroups in team-b). The code as it is gives
    (pg-train-uid-train, pg-train-uid-train, 1) for the five reconcile orders of the README; the memo gives it
    only when other-0 is absent or last, splits the siblings in [train-0; other-0; train-1], gives every pod
    its own group in [other-0; train-0; train-1], and moves both pods out of their group when unchanged pods are
    reconciled again. A single transient 403 has the same effect for ever. *)
Theorem C18_forbidden_memo_depends_on_history :
  ex_outcome tt code_rc [rec_t0; rec_t1] = (ex_shared, ex_shared, 1%nat)
  /\ ex_outcome tt code_rc [rec_t0; rec_t1; rec_o0] = (ex_shared, ex_shared, 1%nat)
  /\ ex_outcome tt code_rc [rec_t0; rec_o0; rec_t1] = (ex_shared, ex_shared, 1%nat)
  /\ ex_outcome tt code_rc [rec_o0; rec_t0; rec_t1] = (ex_shared, ex_shared, 1%nat)
  /\ ex_outcome tt code_rc [rec_t0; rec_t1; rec_o0; rec_t0; rec_t1] = (ex_shared, ex_shared, 1%nat)
  /\ ex_outcome [] memo_rc [rec_t0; rec_t1] = (ex_shared, ex_shared, 1%nat)
  /\ ex_outcome [] memo_rc [rec_t0; rec_t1; rec_o0] = (ex_shared, ex_shared, 1%nat)
  /\ ex_outcome [] memo_rc [rec_t0; rec_o0; rec_t1] = (ex_shared, Some "pg-train-1-uid-train-1", 2%nat)%string
  /\ ex_outcome [] memo_rc [rec_o0; rec_t0; rec_t1] = (Some "pg-train-0-uid-train-0", Some "pg-train-1-uid-train-1", 2%nat)%string
  /\ ex_outcome [] memo_rc [rec_t0; rec_t1; rec_o0; rec_t0; rec_t1]
     = (Some "pg-train-0-uid-train-0", Some "pg-train-1-uid-train-1", 3%nat)%string
  /\ ex_outcome [] memo_rc [FRec "team-b" ex_train0 {| tr_forbidden := ["Foo"%string]; tr_failing := [] |}; FGrant "team-a" "Foo";
                            rec_t1; rec_t0]
     = (Some "pg-train-0-uid-train-0", Some "pg-train-1-uid-train-1", 2%nat)%string
  /\ ex_outcome tt code_rc [FRec "team-b" ex_train0 {| tr_forbidden := ["Foo"%string]; tr_failing := [] |}; FGrant "team-a" "Foo";
                            rec_t1; rec_t0]
     = (ex_shared, ex_shared, 2%nat).
Proof. exact forbidden_memo_depends_on_history. Qed.
Print Assumptions C18_forbidden_memo_depends_on_history.

(** ... so the memo REFUTES history independence with faults (after other-0 was reconciled, train-1 is not where
    a pod-grouper that just started puts it) *)
Theorem C18_forbidden_memo_refuted : ~ fault_history_independent_statement [] memo_rc.
Proof. exact forbidden_memo_refuted. Qed.
Print Assumptions C18_forbidden_memo_refuted.

(** ... and the sibling clause: same namespace, same owner, same answers - two PodGroups; one with the code *)
Theorem C18_forbidden_memo_splits_siblings :
  same_answers ex_fcfg "team-b" ex_rule no_fault ex_rule no_fault
  /\ same_template ex_fcfg ex_train0 ex_train1
  /\ (let s := get_ns "team-b" (fs_ws (frun memo_rc ex_fcfg [rec_t0; rec_o0; rec_t1] (ex_start []))) in
      get_asg "train-0" s <> get_asg "train-1" s)
  /\ (let s := get_ns "team-b" (fs_ws (frun code_rc ex_fcfg [rec_t0; rec_o0; rec_t1] (ex_start tt))) in
      get_asg "train-0" s = get_asg "train-1" s).
Proof. exact forbidden_memo_splits_siblings. Qed.
Print Assumptions C18_forbidden_memo_splits_siblings.

(** (7) ONE WORKLOAD WHOSE PODS CARRY DIFFERENT QUEUE / PROJECT LABELS (Model/GrouperOrder.v, Proofs/GrouperOrder.v;
    the scenario of seeded/C18-5). (2) asks for a coherent pod set - equal group names mean equal metadata -, which
    the roles of a PyTorchJob with their own labels are not. Spec.Queue is written when the PodGroup is created
    and kept by ignoreFields ever after, so the queue of a PodGroup is the queue computed by the reconcile that
    created it; CalcPodGroupQueue asks the TOP OWNER's label first, which every pod of the workload shares.

    [reconcile_qr qr] is [reconcile] with the queue rule [qr] in the place of CalcPodGroupQueue, and with
    [calc_queue] it is [reconcile] itself. *)
Theorem C18_queue_rule_is_the_code :
  forall cfg cl p s, reconcile_qr calc_queue cfg cl p s = reconcile cfg cl p s.
Proof. exact queue_rule_is_the_code. Qed.
Print Assumptions C18_queue_rule_is_the_code.

(** For ALL configurations, owner objects and workloads whose top owner [top] carries the queue label [q], and ALL
    reconcile orders [order1], [order2] of pods of that workload (any pods whose group is derived from [top], with
    whatever other labels - own queue and project labels included -, any repetitions), each from the empty
    store: every PodGroup has queue [q], so a PodGroup that both orders build has the same queue. *)
Theorem C18_owner_queue_decides : owner_queue_statement calc_queue.
Proof. exact owner_queue_decides. Qed.
Print Assumptions C18_owner_queue_decides.

(** ... the same about [run], the model the differential check replays against the real reconciler *)
Theorem C18_owner_queue_order_independent :
  forall cfg cl top q order1 order2 n g1 g2,
    lookup (c_queue_key cfg) (o_labels top) = Some q ->
    (forall p, In p order1 \/ In p order2 -> grouped_under cfg cl top p) ->
    get_pg n (run cfg cl (map EvReconcile order1) empty_state) = Some g1 ->
    get_pg n (run cfg cl (map EvReconcile order2) empty_state) = Some g2 ->
    sp_queue g1 = q /\ sp_queue g2 = q.
Proof. exact owner_queue_order_independent. Qed.
Print Assumptions C18_owner_queue_order_independent.

(** [calc_queue_pod_first] - the pod's own queue / project label beats the top owner's, seeded/C18-5 - is NOT the
    code. The README world (workload train, queue team-a; master without queue label, two workers team-b; every
    pod reconciled twice) in its six orders: the code gives team-a in all of them; the pod's label first gives
    team-a in the two orders that start with the master and team-b in the four that start with a worker. *)
Theorem C18_pod_label_first_depends_on_order :
  map (rd_queue calc_queue rd_top) rd_orders = map (fun _ => Some "team-a"%string) rd_orders
  /\ map (rd_queue calc_queue_pod_first rd_top) rd_orders
     = [Some "team-a"; Some "team-a"; Some "team-b"; Some "team-b"; Some "team-b"; Some "team-b"]%string.
Proof. exact pod_label_first_depends_on_order. Qed.
Print Assumptions C18_pod_label_first_depends_on_order.

Theorem C18_pod_label_first_refuted : ~ owner_queue_statement calc_queue_pod_first.
Proof. exact pod_label_first_refuted. Qed.
Print Assumptions C18_pod_label_first_refuted.

(** PARTIAL: the hypothesis "the top owner carries the label" is needed by the code as it is. Owner without queue
    label, master team-a, workers team-b: the pod reconciled first decides (candidate finding
    C18-sibling-labels-first-pod-wins; the monitor's order clause reports exactly this pattern as flag 2). *)
Theorem C18_first_pod_decides_without_owner_label :
  rd_queue calc_queue rd_top_silent [rd_master_a; rd_worker0; rd_worker1] = Some "team-a"%string
  /\ rd_queue calc_queue rd_top_silent [rd_worker0; rd_master_a; rd_worker1] = Some "team-b"%string
  /\ rd_queue calc_queue rd_top_silent [rd_worker1; rd_worker0; rd_master_a] = Some "team-b"%string.
Proof. exact first_pod_decides_without_owner_label. Qed.
Print Assumptions C18_first_pod_decides_without_owner_label.
