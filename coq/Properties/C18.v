(** C18 — Pod-grouper is a deterministic, idempotent function of the workload.
    Statements only; proofs are in Proofs/Grouper.v, the model in Model/Grouper.v.

    [cfg] is the grouper configuration together with the cluster-wide inputs it
    reads (existing priority classes, the defaults config map, kinds the
    grouper may not GET), [cl] the owner objects, [a]/[b] the pod-group
    annotation a pod already carries. [grouping cfg cl p a = GOk pl g os used]
    says: plugin [pl] derives the group from object [g] (after skip-top-owner
    unwrapping) and [used] tells whether the pod itself served as an owner
    object on the way. The handler is modelled in two versions — before
    ([ignore_sg_v0], [pg_equal_v0]) and since ([ignore_sg_v1], [pg_equal_v1]) the
    repair 9775a95; [reconcile], [run] are the current one. Statements (2) and (4)
    hold for EVERY version [sg] of ignoreFields and EVERY equality test [eq]. *)
From Coq Require Import List String ZArith.
From KaiV Require Import Model.Grouper Model.GrouperSpec Proofs.Grouper.
Import ListNotations.

(** (1) Pods with the same top owner and the same template-derived fields (queue, project,
    node-pool, priority-class, preemptibility and user labels, user annotation,
    spec.priorityClassName — name, uid and every other label may differ) get the very same
    metadata — name pg-<owner>-<uid>, min-available 1, queue, priority class, preemptibility,
    (no) sub-groups, labels, annotations, topology — whenever the default grouper derives the
    group from an owner object. *)
Theorem C18_siblings_same_group :
  forall cfg cl p q a b g os,
    same_template cfg p q ->
    grouping cfg cl p a = GOk PDefault g os false ->
    full_md cfg cl q b = full_md cfg cl p a
    /\ exists m, full_md cfg cl p a = Some m
                 /\ m_name m = pg_name (o_name g) (o_uid g) /\ m_min m = 1%Z /\ m_subgroups m = [].
Proof. exact siblings_same_group. Qed.
Print Assumptions C18_siblings_same_group.

(** (1') The per-pod kinds (Deployment, batch Job): one group per pod, named after the pod; every
    other field is the same for all siblings. *)
Theorem C18_per_pod_kinds :
  forall cfg cl p q a b pl g os,
    same_template cfg p q -> pl = PDeployment \/ pl = PJob ->
    grouping cfg cl p a = GOk pl g os false ->
    exists m m', full_md cfg cl p a = Some m /\ full_md cfg cl q b = Some m'
                 /\ m_name m = pg_name (p_name p) (match pl with PDeployment => p_uid p | _ => o_uid g end)
                 /\ m_name m' = pg_name (p_name q) (match pl with PDeployment => p_uid q | _ => o_uid g end)
                 /\ same_but_identity m m'.
Proof. exact per_pod_kinds. Qed.
Print Assumptions C18_per_pod_kinds.

(** (2) Order independence, general form: for a coherent set of pods (distinct names; a pod's
    metadata is unchanged by its own assignment or the pod is skipped afterwards; equal group
    names mean equal metadata), two arbitrary lists of reconcile events that mention the same
    pods — in any order, any number of times each — lead from any start state to the same
    PodGroups and the same pod annotations. *)
Theorem C18_order_independent :
  forall sg eq cfg cl ps es1 es2 s,
    coherent cfg cl ps ->
    incl es1 ps -> incl es2 ps -> incl es1 es2 -> incl es2 es1 ->
    st_equiv (run_with sg eq cfg cl (map EvReconcile es1) s) (run_with sg eq cfg cl (map EvReconcile es2) s).
Proof. exact order_independent_coherent. Qed.
Print Assumptions C18_order_independent.

(** (2') ... instantiated: the siblings of an owner handled by the default grouper are coherent. *)
Theorem C18_order_independent_siblings :
  forall sg eq cfg cl ps p0 a0 g os es1 es2 s,
    NoDup (map p_name ps) ->
    (forall p, In p ps -> same_template cfg p0 p) ->
    grouping cfg cl p0 a0 = GOk PDefault g os false ->
    incl es1 ps -> incl es2 ps -> incl es1 es2 -> incl es2 es1 ->
    st_equiv (run_with sg eq cfg cl (map EvReconcile es1) s) (run_with sg eq cfg cl (map EvReconcile es2) s).
Proof. exact order_independent_siblings. Qed.
Print Assumptions C18_order_independent_siblings.

(** Without coherence the statement is false, before and after the repair: a pod owned directly by
    a skip-top-owner kind (argo Workflow) is its own grouping object, and its second reconcile
    copies the pod-group annotation written by the first one into the PodGroup. *)
Theorem C18_order_independent_unrestricted_refuted :
  ~ order_independent_unrestricted ignore_sg_v0 pg_equal_v0
  /\ ~ order_independent_unrestricted ignore_sg_v1 pg_equal_v1.
Proof. exact order_independent_unrestricted_refuted. Qed.
Print Assumptions C18_order_independent_unrestricted_refuted.

(** (3) Idempotence of the code as it is (since 9775a95): for every pod that settles and carries
    no stale sub-group label, a second reconcile without external change performs zero
    mutating calls, from any start state. *)
Definition C18_idempotent_statement : Prop := idempotent_statement ignore_sg pg_equal.

Theorem C18_idempotent : C18_idempotent_statement.
Proof. exact idempotent_v1. Qed.
Print Assumptions C18_idempotent.

(** The handler before 9775a95 REFUTED this: createPodGroupForMetadata builds SubGroups:
    []SubGroup{} and ignoreFields an empty non-nil label map, the API returns nil for both,
    podGroupsEqual said "different", and every reconcile issued an Update (witness: a StatefulSet
    pod, empty store). Kept as documentation of the finding and as the model of the regression. *)
Theorem C18_idempotent_v0_refuted : ~ idempotent_statement ignore_sg_v0 pg_equal_v0.
Proof. exact idempotent_v0_refuted. Qed.
Print Assumptions C18_idempotent_v0_refuted.

(** Neither half of the repair suffices alone (owner without labels): sub-group step without the
    map comparison, and the map comparison without the sub-group step, both still write. *)
Theorem C18_half_repairs_insufficient :
  snd (reconcile_with true pg_equal_v0 ex_cfg [ex_bare_sts] (ex_pod "0")
         (rec_step true pg_equal_v0 ex_cfg [ex_bare_sts] (ex_pod "0") empty_state)) = 1%Z
  /\ snd (reconcile_with false pg_equal_v1 ex_cfg [ex_bare_sts] (ex_pod "0")
            (rec_step false pg_equal_v1 ex_cfg [ex_bare_sts] (ex_pod "0") empty_state)) = 1%Z.
Proof. exact ex_half_repairs_insufficient. Qed.
Print Assumptions C18_half_repairs_insufficient.

(** Pods grouped by an owner object settle; so do pods without owner. *)
Theorem C18_settles :
  forall cfg cl p,
    (p_owners p = [] \/ exists a pl g os, grouping cfg cl p a = GOk pl g os false) -> settles cfg cl p.
Proof. exact settles_cases. Qed.
Print Assumptions C18_settles.

(** Neither hypothesis of (3) can be dropped (two remaining findings on the current code): the
    Workflow-owned pod does not settle and writes on its second reconcile (not on its third); a
    pod with a stale sub-group label settles but is patched on every reconcile. *)
Theorem C18_idempotent_unsettled_refuted :
  ~ settles ex_cfg [ex_wf] ex_step
  /\ snd (reconcile ex_cfg [ex_wf] ex_step (fst (reconcile ex_cfg [ex_wf] ex_step empty_state))) = 1%Z.
Proof. split; [exact ex_step_not_settled|exact (proj1 ex_step_second_reconcile_writes)]. Qed.
Print Assumptions C18_idempotent_unsettled_refuted.

Theorem C18_idempotent_stale_subgroup_refuted :
  settles ex_cfg [ex_sts] ex_stale /\ ~ no_stale_subgroup ex_stale
  /\ snd (reconcile_with true pg_equal_v1 ex_cfg [ex_sts] ex_stale
            (rec_step true pg_equal_v1 ex_cfg [ex_sts] ex_stale
               (rec_step true pg_equal_v1 ex_cfg [ex_sts] ex_stale empty_state))) = 1%Z.
Proof. exact ex_stale_repatched. Qed.
Print Assumptions C18_idempotent_stale_subgroup_refuted.

(** (4) Fields owned by other actors: for any sequence of reconciles (of any pods) and foreign
    updates, the queue, mark-unschedulable, scheduling-backoff and node-pool label of an existing
    PodGroup are exactly what the foreign updates alone make of them. *)
Theorem C18_foreign_fields_kept :
  forall sg eq cfg cl evs s n g,
    c_queue_key cfg <> c_nodepool_key cfg ->
    get_pg n s = Some g ->
    exists g', get_pg n (run_with sg eq cfg cl evs s) = Some g'
               /\ foreign_view cfg g' = foreign_only n evs (foreign_view cfg g).
Proof. exact foreign_fields_kept. Qed.
Print Assumptions C18_foreign_fields_kept.

(** (4') A queue label that is present survives a reconcile; PodGroups of other names are not touched. *)
Theorem C18_queue_label_kept :
  forall sg eq cfg cl p s n g v,
    get_pg n s = Some g -> mget (c_queue_key cfg) (pg_labels g) = Some v ->
    exists g', get_pg n (rec_step sg eq cfg cl p s) = Some g' /\ mget (c_queue_key cfg) (pg_labels g') = Some v.
Proof. exact queue_label_kept. Qed.
Print Assumptions C18_queue_label_kept.

Theorem C18_other_groups_untouched :
  forall sg eq cfg cl p s n,
    (forall m, full_md cfg cl p (get_asg (p_name p) s) = Some m -> m_name m <> n) ->
    get_pg n (rec_step sg eq cfg cl p s) = get_pg n s.
Proof. exact other_groups_untouched. Qed.
Print Assumptions C18_other_groups_untouched.

(** Non-vacuity: two StatefulSet pods meet the hypotheses of (1), (2), (3) and (4); reconciled in
    the order 1, 0 they end in one PodGroup pg-web-u-sts with the owner's queue. *)
Theorem C18_nonvacuous :
  same_template ex_cfg (ex_pod "0") (ex_pod "1")
  /\ NoDup (map p_name [ex_pod "0"; ex_pod "1"])
  /\ coherent ex_cfg [ex_sts] [ex_pod "0"; ex_pod "1"]
  /\ no_stale_subgroup (ex_pod "0")
  /\ c_queue_key ex_cfg <> c_nodepool_key ex_cfg
  /\ let s := run ex_cfg [ex_sts] [EvReconcile (ex_pod "1"); EvReconcile (ex_pod "0")] empty_state in
     get_asg "web-0" s = Some "pg-web-u-sts"%string /\ get_asg "web-1" s = Some "pg-web-u-sts"%string
     /\ exists g, get_pg "pg-web-u-sts" s = Some g /\ sp_queue g = "team-a"%string /\ sp_min g = 1%Z
                  /\ List.length (st_pgs s) = 1%nat.
Proof. exact ex_nonvacuous. Qed.
Print Assumptions C18_nonvacuous.
