(** C20 — Status controllers and operator converge to the true aggregate.
    Statements only; proofs are in Proofs/StatusAgg.v, Proofs/StatusAggWorld.v
    and Proofs/Operator.v.
    Models: Model/StatusAgg.v (pod-group and queue controllers),
    Model/Operator.v (operator Deploy); declarative side: Model/StatusAggSpec.v.

    The preemptibility rule of getStatusWithMetadata is isolated in
    [anp_rule] (Model/StatusAgg.v).  Since /repo commit 5182ff3 the code clears
    AllocatedNonPreemptible of a preemptible group and the switch stands at
    [anp_rule_fixed]: clause 1 is proved in full for the current model
    ([C20_podgroup_sums]).  The rule of the code before that commit,
    [anp_rule_v0], is kept as a documented fact: it REFUTES clause 1
    ([C20_podgroup_sums_v0_refuted], [C20_podgroup_flip_witness]) and satisfies
    it exactly when a preemptible group's previous value was already empty
    ([C20_podgroup_sums_v0_exact]).  Should the code go back to the old rule,
    the correspondence check (Run/C20.v) reports the model mismatch and the
    monitor reports the stale status on the flip histories.

    The queue controller writes through an unconditional status patch, i.e. a
    difference in ANY of allocated / allocatedNonPreemptible / requested /
    childQueues reaches the store; the compared fields are explicit in
    [qfields] (switch [q_detector] = [cmp_all]).  For histories of both
    controllers on one store ([world], [w_run]) a write-free full pass implies
    the truth recomputed from pods and current preemptibility in all four
    fields ([C20_queue_fixpoint_is_truth]); every field is needed
    ([C20_queue_detector_needs_every_field]) and the named variant that
    ignores allocatedNonPreemptible is refuted by a flip history
    ([C20_queue_detector_without_anp_refuted], [C20_queue_flip_history_witness]).
    Proofs of this part: Proofs/StatusAggWorld.v. *)
From Coq Require Import List ZArith PArith Bool.
From KaiV Require Import Model.StatusAgg Model.StatusAggSpec Model.Operator
  Proofs.StatusAgg Proofs.StatusAggWorld Proofs.Operator.
Import ListNotations.

(** * Clause 1: pod-group status = sums over pods by phase and CURRENT preemptibility *)

(** the full statement for the model as it stands *)
Definition C20_podgroup_sums_statement : Prop :=
  forall classes pods g st,
    pg_reconcile classes pods g = Some st ->
    st = true_pg_status (current_preemptible classes g) pods.

(** from ANY previous status, for all pod sets, priority classes and specs: a
    reconcile that succeeds stores exactly the true sums *)
Theorem C20_podgroup_sums : C20_podgroup_sums_statement.
Proof. exact (podgroup_sums_if_fixed eq_refl). Qed.
Print Assumptions C20_podgroup_sums.

(** the flip history (non-preemptible, reconciled, spec flipped to preemptible) on the
    current model: the reconcile succeeds, finds a non-empty stale value, writes, and
    stores the true status; flipping back restores the non-preemptible sums *)
Theorem C20_podgroup_flip_repaired :
  anp_rule = anp_rule_fixed
  /\ s_anp (g_status ex_pg2) = [1000; 0; 2000]%Z
  /\ current_preemptible ex_classes ex_pg2 = true
  /\ pg_reconcile ex_classes [ex_pod] ex_pg2 = Some (true_pg_status true [ex_pod])
  /\ s_anp (true_pg_status true [ex_pod]) = []
  /\ pg_writes ex_classes [ex_pod] ex_pg2 = true
  /\ pg_reconcile ex_classes [ex_pod]
       {| g_spec := SpecNonPreemptible; g_prio_class := g_prio_class ex_pg2;
          g_status := true_pg_status true [ex_pod] |}
     = Some (true_pg_status false [ex_pod]).
Proof. exact flip_repaired. Qed.
Print Assumptions C20_podgroup_flip_repaired.

(** ** The rule before /repo 5182ff3 ([anp_rule_v0]), kept as a documented fact *)

(** a reconcile that succeeds and stores a status different from the true sums *)
Theorem C20_podgroup_sums_v0_refuted :
  exists (classes : list prioclass) (pods : list pod) (g : podgroup) (st : rstatus),
    pg_reconcile_with anp_rule_v0 classes pods g = Some st
    /\ st <> true_pg_status (current_preemptible classes g) pods.
Proof. exact podgroup_sums_refuted_v0. Qed.
Print Assumptions C20_podgroup_sums_v0_refuted.

(** the witness as a history: reconciled while non-preemptible (correct), spec flipped to
    preemptible, reconciled again: AllocatedNonPreemptible keeps the old value *)
Theorem C20_podgroup_flip_witness :
  g_status ex_pg1 = true_pg_status false [ex_pod]
  /\ current_preemptible ex_classes ex_pg2 = true
  /\ pg_reconcile_with anp_rule_v0 ex_classes [ex_pod] ex_pg2
     = Some {| s_alloc := [1000; 0; 2000]; s_anp := [1000; 0; 2000]; s_req := [1000; 0; 2000] |}
  /\ true_pg_status true [ex_pod]
     = {| s_alloc := [1000; 0; 2000]; s_anp := []; s_req := [1000; 0; 2000] |}.
Proof. exact flip_witness. Qed.
Print Assumptions C20_podgroup_flip_witness.

(** for the old rule the statement holds EXACTLY when a preemptible group's
    previous AllocatedNonPreemptible was already empty *)
Theorem C20_podgroup_sums_v0_exact :
  forall classes pods g st,
    pg_reconcile_with anp_rule_v0 classes pods g = Some st ->
    (st = true_pg_status (current_preemptible classes g) pods
     <-> (current_preemptible classes g = true -> s_anp (g_status g) = [])).
Proof. exact podgroup_sums_v0_iff. Qed.
Print Assumptions C20_podgroup_sums_v0_exact.

(** * Clause 2: queues converge to Σ pod groups + Σ children at every level *)

(** any sequence of queue reconciles in which every queue is reconciled at
    some point after its children settled (recursively; other events are
    arbitrary) ends in a state where every queue equals Σ own pod groups +
    Σ current child statuses, equals the sum over ALL pod groups of its
    subtree, and no further reconcile, in any order, changes anything *)
Theorem C20_queue_sums_fixpoint :
  forall (c : cluster) (evs : list positive),
    wf_forest (c_queues c) = true ->
    (forall q, In q (c_queues c) -> settles (c_queues c) evs (q_name q)) ->
    let c' := q_run evs c in
    (forall q, In q (c_queues c') -> locally_consistent c' q /\ q_status q = true_agg c (q_name q))
    /\ (forall n, q_reconcile n c' = c')
    /\ (forall n, q_writes n c' = false)
    /\ (forall more, q_run more c' = c').
Proof. exact queue_sums_fixpoint. Qed.
Print Assumptions C20_queue_sums_fixpoint.

(** as many full passes as the forest has levels suffice, whatever the order inside each pass *)
Theorem C20_queue_passes_le_height :
  forall (c : cluster) (passes : list (list positive)),
    wf_forest (c_queues c) = true ->
    Forall (full_pass (c_queues c)) passes ->
    (height (c_queues c) <= length passes)%nat ->
    let c' := q_run (concat passes) c in
    (forall q, In q (c_queues c') -> locally_consistent c' q /\ q_status q = true_agg c (q_name q))
    /\ (forall n, q_reconcile n c' = c')
    /\ (forall n, q_writes n c' = false)
    /\ (forall more, q_run more c' = c').
Proof. exact queue_passes_bound. Qed.
Print Assumptions C20_queue_passes_le_height.

(** the fixpoint is unique: "nothing changes any more" implies the true aggregates *)
Theorem C20_queue_fixpoint_unique :
  forall c : cluster,
    wf_forest (c_queues c) = true ->
    (forall n, q_writes n c = false) ->
    forall q, In q (c_queues c) -> q_status q = true_agg c (q_name q).
Proof. exact queue_fixpoint_unique. Qed.
Print Assumptions C20_queue_fixpoint_unique.

(** ** When the queue controller writes: every field counts

    QueueReconciler.Reconcile sends the merge patch of the recomputed status
    unconditionally, so a difference in ANY of the four fields (allocated,
    allocatedNonPreemptible, requested, childQueues) reaches the store.  The
    fields a change detection in front of the patch compares are explicit in
    [qfields]; [q_detector] is what the current tree does. *)

(** the explicit detector of the current tree compares all four fields and is
    the unconditional patch *)
Theorem C20_queue_detector_is_unconditional_patch :
  q_detector = {| cmp_alloc := true; cmp_anp := true; cmp_req := true; cmp_children := true |}
  /\ (forall n c, q_reconcile_with q_detector n c = q_reconcile n c)
  /\ (forall n c, q_writes_with q_detector n c = q_writes n c).
Proof. exact detector_is_unconditional_patch. Qed.
Print Assumptions C20_queue_detector_is_unconditional_patch.

(** queue controller alone, pod-group statuses as stored: when a pass that
    reconciles every queue (any order, repeats allowed) writes nothing, every
    queue's stored status equals the sum over all pod groups of its subtree in
    all three resource lists, and its childQueues list its children *)
Theorem C20_queue_pass_quiet_is_truth :
  forall (c : cluster) (pass : list positive),
    wf_forest (c_queues c) = true ->
    full_pass (c_queues c) pass ->
    q_pass_writes q_detector pass c = false ->
    forall q, In q (c_queues c) ->
      s_alloc (q_status q) = s_alloc (true_agg c (q_name q))
      /\ s_anp (q_status q) = s_anp (true_agg c (q_name q))
      /\ s_req (q_status q) = s_req (true_agg c (q_name q))
      /\ q_children q = child_names (q_name q) (c_queues c).
Proof.
  intros c pass Hwf Hfull Hq q Hin.
  destruct (queue_pass_quiet_is_truth c pass Hwf Hfull Hq q Hin) as [Hst Hch].
  rewrite Hst. repeat split. exact Hch.
Qed.
Print Assumptions C20_queue_pass_quiet_is_truth.

(** both controllers on one store: for every initial store (any stored
    statuses), every forest and every history of changes (preemptibility flips
    by spec or by priority class, pods, spec.queue, re-parenting, queues created
    and deleted) and reconciles in any order: when a full reconcile pass (every
    pod group and every queue at least once) writes nothing and fails nowhere,
    every queue's FOUR aggregates equal the truth recomputed from the pods by
    phase and the CURRENT preemptibility of every pod group of its subtree *)
Theorem C20_queue_fixpoint_is_truth :
  forall (w0 : world) (h pass : list wevent),
    let w := w_run h w0 in
    wf_forest (w_queues w) = true ->
    w_full_pass w pass ->
    w_pass_quiet pass w = true ->
    forall q, In q (w_queues w) ->
      s_alloc (q_status q) = s_alloc (w_truth w (q_name q))
      /\ s_anp (q_status q) = s_anp (w_truth w (q_name q))
      /\ s_req (q_status q) = s_req (w_truth w (q_name q))
      /\ q_children q = child_names (q_name q) (w_queues w).
Proof. exact world_fixpoint_is_truth. Qed.
Print Assumptions C20_queue_fixpoint_is_truth.

(** the form the monitor uses: as long as some queue reports a stale field,
    every full reconcile pass contains a reconcile that writes (or fails) *)
Theorem C20_queue_stale_forces_write :
  forall (w0 : world) (h pass : list wevent),
    let w := w_run h w0 in
    wf_forest (w_queues w) = true ->
    w_full_pass w pass ->
    (exists q, In q (w_queues w) /\ ~ queue_reports_truth w q) ->
    w_pass_quiet pass w = false.
Proof. exact world_stale_forces_write. Qed.
Print Assumptions C20_queue_stale_forces_write.

(** EVERY field is needed: a change detection in front of the patch makes
    "write-free full pass implies truth" hold for all forests iff it compares
    allocated, allocatedNonPreemptible, requested and childQueues *)
Theorem C20_queue_detector_needs_every_field :
  forall fs : qfields,
    (forall (c : cluster) (pass : list positive),
       wf_forest (c_queues c) = true -> full_pass (c_queues c) pass ->
       q_pass_writes fs pass c = false ->
       forall q, In q (c_queues c) ->
         q_status q = true_agg c (q_name q) /\ q_children q = child_names (q_name q) (c_queues c))
    <-> fs = cmp_all.
Proof. exact detector_needs_every_field. Qed.
Print Assumptions C20_queue_detector_needs_every_field.

(** the detector that ignores AllocatedNonPreemptible ([cmp_without_anp]:
    compares childQueues, allocated, requested) has a history after which a full
    pass is write-free while a queue reports a stale AllocatedNonPreemptible *)
Theorem C20_queue_detector_without_anp_refuted :
  exists (w0 : world) (h pass : list wevent),
    let w := w_run_with anp_rule cmp_without_anp h w0 in
    wf_forest (w_queues w) = true /\ w_full_pass w pass
    /\ w_pass_quiet_with anp_rule cmp_without_anp pass w = true
    /\ exists q, In q (w_queues w) /\ s_anp (q_status q) <> s_anp (w_truth w (q_name q)).
Proof. exact detector_without_anp_refuted. Qed.
Print Assumptions C20_queue_detector_without_anp_refuted.

(** the witness as a history (vm_compute): team under dept, a non-preemptible
    group with one Running pod, reconciled; spec.preemptibility flipped to
    preemptible with no other change; pod group, queue and ancestor reconciled
    bottom-up, top-down and again.  Ignoring AllocatedNonPreemptible: the pod
    group is corrected, both queues keep [1000; 0; 2000] although the truth is
    empty, and a further full pass writes nothing.  Under the current model the
    same history ends in the truth and the further pass is quiet as well (the
    hypotheses of C20_queue_fixpoint_is_truth are met) *)
Theorem C20_queue_flip_history_witness :
  let w := w_run_with anp_rule cmp_without_anp ex_flip_history ex_world0 in
  wf_forest (w_queues w) = true
  /\ w_full_pass w ex_world_pass
  /\ w_pass_quiet_with anp_rule cmp_without_anp ex_world_pass w = true
  /\ map (fun g => s_anp (g_status (wg_pg g))) (w_groups w) = [[]]
  /\ map (fun q => s_anp (q_status q)) (w_queues w) = [[1000; 0; 2000]; [1000; 0; 2000]]%Z
  /\ map (fun q => s_anp (w_truth w (q_name q))) (w_queues w) = [[]; []]
  /\ (let w' := w_run ex_flip_history ex_world0 in
      map (fun q => s_anp (q_status q)) (w_queues w') = [[]; []]
      /\ map (fun q => s_anp (w_truth w' (q_name q))) (w_queues w') = [[]; []]
      /\ w_pass_quiet ex_world_pass w' = true).
Proof. exact detector_without_anp_stale. Qed.
Print Assumptions C20_queue_flip_history_witness.

(** * Clause 3: a second reconcile writes nothing *)

Theorem C20_idempotent_podgroup :
  forall classes pods g,
    pg_step classes pods (pg_step classes pods g) = pg_step classes pods g
    /\ pg_writes classes pods (pg_step classes pods g) = false.
Proof. exact pg_second_reconcile_current. Qed.
Print Assumptions C20_idempotent_podgroup.

Theorem C20_idempotent_queue :
  forall (c : cluster) (n : positive),
    wf_forest (c_queues c) = true ->
    q_reconcile n (q_reconcile n c) = q_reconcile n c /\ q_writes n (q_reconcile n c) = false.
Proof. exact queue_reconcile_idempotent. Qed.
Print Assumptions C20_idempotent_queue.

(** acyclicity is needed: a queue naming itself as parent is rewritten by every reconcile *)
Theorem C20_idempotent_queue_needs_acyclic :
  wf_forest (c_queues ex_cyclic) = false
  /\ q_writes 1 (q_reconcile 1 ex_cyclic) = true
  /\ q_writes 1 (q_reconcile 1 (q_reconcile 1 ex_cyclic)) = true.
Proof. exact cyclic_not_idempotent. Qed.
Print Assumptions C20_idempotent_queue_needs_acyclic.

(** * Clause 4: the operator's Deploy *)

(** for ANY desired state (also one rendered from the store): Deploy issues no
    call iff every desired object is collected and equal to its rendering, and
    every collected object is desired or unmanaged *)
Theorem C20_operator_quiet_iff :
  forall (obj : Type) (obj_eqb : obj -> obj -> bool) (own norm : obj -> obj)
         (inherit : obj -> obj -> obj) (collected : positive -> obj -> bool)
         (unmanaged : positive -> bool) (d : list (positive * obj)) (s : store obj),
    fst (deploy_with obj obj_eqb own norm inherit collected unmanaged d s) = []
    <-> in_sync obj obj_eqb inherit collected unmanaged d s.
Proof. exact quiet_iff. Qed.
Print Assumptions C20_operator_quiet_iff.

(** one deterministic renderer per key that may read the object stored under
    its key (as common.ObjectForKAIConfig does), keys unique and managed,
    DeepEqual is equality, what Deploy writes is collected again: the second
    Deploy issues no call iff, for every key, the rendered object was already
    in place, or re-rendering on top of the read-back of what the first Deploy
    wrote reproduces that read-back.  The right-hand side is a fact about each
    operand's renderer and the API's round trip; it is validated by running
    the real Deploy repeatedly (Run/C20.v), not proved. *)
Theorem C20_operator_fixpoint :
  forall (obj : Type) (obj_eqb : obj -> obj -> bool) (own norm : obj -> obj)
         (inherit : obj -> obj -> obj) (collected : positive -> obj -> bool)
         (unmanaged : positive -> bool),
    (forall a b, obj_eqb a b = true <-> a = b) ->
    forall (rs : list (positive * renderer obj)) (s0 : store obj),
    NoDup (map fst rs) -> NoDup (map fst s0) ->
    (forall k r, In (k, r) rs -> unmanaged k = false) ->
    (forall k x, collected k (norm (own x)) = true) ->
    fst (deploy_rendered obj obj_eqb own norm inherit collected unmanaged rs
           (snd (deploy_rendered obj obj_eqb own norm inherit collected unmanaged rs s0))) = []
    <-> (forall k r, In (k, r) rs ->
           let x := render_at obj inherit collected k r (lookup obj k s0) in
           cur_lookup obj collected k s0 = Some x
           \/ render_at obj inherit collected k r (Some (norm (own x))) = norm (own x)).
Proof. exact operator_fixpoint. Qed.
Print Assumptions C20_operator_fixpoint.

(** the result of one Deploy is determined by the configuration: every rendered
    key is present afterwards and nothing else that the operator owns survives *)
Theorem C20_operator_converges :
  forall (obj : Type) (obj_eqb : obj -> obj -> bool) (own norm : obj -> obj)
         (inherit : obj -> obj -> obj) (collected : positive -> obj -> bool)
         (unmanaged : positive -> bool)
         (rs : list (positive * renderer obj)) (s0 : store obj),
    NoDup (map fst rs) -> NoDup (map fst s0) ->
    (forall k r, In (k, r) rs -> unmanaged k = false) ->
    let s1 := snd (deploy_rendered obj obj_eqb own norm inherit collected unmanaged rs s0) in
    (forall k r, In (k, r) rs -> exists c, lookup obj k s1 = Some c)
    /\ (forall k c, In (k, c) s1 -> collected k c = true -> In k (map fst rs) \/ unmanaged k = true).
Proof. exact deploy_converges. Qed.
Print Assumptions C20_operator_converges.

(** renderers that do not read the store, no field inheritance: the condition is
    norm (own desired) = desired for every desired object not already in place *)
Theorem C20_operator_fixpoint_pure :
  forall (obj : Type) (obj_eqb : obj -> obj -> bool) (own norm : obj -> obj)
         (collected : positive -> obj -> bool) (unmanaged : positive -> bool),
    (forall a b, obj_eqb a b = true <-> a = b) ->
    forall (d : list (positive * obj)) (s0 : store obj),
    NoDup (map fst d) -> NoDup (map fst s0) ->
    (forall k x, In (k, x) d -> unmanaged k = false) ->
    (forall k x, collected k (norm (own x)) = true) ->
    fst (deploy_rendered obj obj_eqb own norm (fun _ o => o) collected unmanaged (const_renderers d)
           (snd (deploy_rendered obj obj_eqb own norm (fun _ o => o) collected unmanaged (const_renderers d) s0))) = []
    <-> (forall k x, In (k, x) d -> cur_lookup obj collected k s0 = Some x \/ norm (own x) = x).
Proof. exact operator_fixpoint_pure. Qed.
Print Assumptions C20_operator_fixpoint_pure.

(** * Non-vacuity *)

(** a three-level forest is well formed, three parent-first passes (the worst
    order) are full passes and reach the true aggregates, two are not enough;
    the operator theorem's hypotheses are met by a concrete instance in which
    one rendering is a normal form (silent) and one is not (an Update on every Deploy) *)
Theorem C20_nonvacuous :
  (wf_forest (c_queues ex_cluster) = true
   /\ height (c_queues ex_cluster) = 3%nat
   /\ map (fun q => s_alloc (q_status q)) (c_queues (q_run (ex_pass ++ ex_pass ++ ex_pass) ex_cluster))
      = [[3750]; [3500]; [250]; [3000]; [500]]%Z
   /\ map (fun q => s_alloc (true_agg ex_cluster (q_name q))) (c_queues ex_cluster)
      = [[3750]; [3500]; [250]; [3000]; [500]]%Z
   /\ map (fun q => s_alloc (q_status q)) (c_queues (q_run (ex_pass ++ ex_pass) ex_cluster))
      = [[250]; [3500]; [250]; [3000]; [500]]%Z)
  /\ full_pass (c_queues ex_cluster) ex_pass
  /\ (fst (ex_deploy ex_good (snd (ex_deploy ex_good []))) = []
      /\ fst (ex_deploy ex_bad (snd (ex_deploy ex_bad []))) = [CUpdate 1%positive]).
Proof. exact (conj ex_cluster_facts (conj ex_full_pass (conj (proj1 ex_operator_runs) (proj1 (proj2 ex_operator_runs))))). Qed.
Print Assumptions C20_nonvacuous.
