(** C17 -- GPU reservation pods track shared-GPU usage exactly.
    Statements only; proofs are in Proofs/GroupMutex.v and Proofs/Reservation.v.

    A history is any list of steps: binds (with any selected groups and any
    pre-bind verdict), kubelet phase changes, pod deletions, BindRequest
    deletions, SyncForNode, binder restarts -- each with ANY fault oracle (API
    calls that fail, a crash before any API call), any device-plugin answers
    and any Go map iteration orders.  [tamper_free h]: no step of h deletes a
    reservation pod behind the binder's back ([EvResGone]).  [quiet_step e ord dp]
    is a step without faults (its map orders and device-plugin answers are
    still arbitrary). *)
From Coq Require Import List PArith.
From KaiV Require Model.GroupMutex Proofs.GroupMutex.
From KaiV Require Import Model.Reservation Proofs.Reservation.
Import ListNotations.

(** (1) The per-group lock.  For any number of threads running any sequences of
    critical sections, under every schedule of their atomic steps (two per
    acquire, two per release, in the Go code's order): never two threads inside
    the section of the same group, never an unlock of an unlocked mutex, and
    when every thread is done both maps and the set of locked mutexes are empty. *)
Theorem group_mutex_exclusion :
  forall (progs : list (list Model.GroupMutex.group)) (sched : list nat),
    let c := Model.GroupMutex.run sched (Model.GroupMutex.init progs) in
    (forall x i j ti tj, i <> j ->
        nth_error (Model.GroupMutex.c_thr c) i = Some ti -> nth_error (Model.GroupMutex.c_thr c) j = Some tj ->
        Model.GroupMutex.in_cs x ti -> Model.GroupMutex.in_cs x tj -> False)
    /\ Model.GroupMutex.gm_panic (Model.GroupMutex.c_gm c) = false
    /\ ((forall t, In t (Model.GroupMutex.c_thr c) -> Model.GroupMutex.done t) ->
        Model.GroupMutex.gm_map (Model.GroupMutex.c_gm c) = []
        /\ Model.GroupMutex.gm_refs (Model.GroupMutex.c_gm c) = []
        /\ Model.GroupMutex.gm_locked (Model.GroupMutex.c_gm c) = []).
Proof. exact Proofs.GroupMutex.group_mutex_exclusion_proof. Qed.
Print Assumptions group_mutex_exclusion.

(** (2a) At most one reservation pod per group -- after EVERY history, outside
    deletions included. *)
Theorem C17_at_most_one_reservation :
  forall (cs : list (pid * mfkind)) (h : list step),
    at_most_one (ps_store (exec h (init_state cs))).
Proof. exact at_most_one_reachable. Qed.
Print Assumptions C17_at_most_one_reservation.

(** (2b) Every live bound consumer of g was handed the index annotated on g's
    reservation pod -- in every state reached by a tamper-free history, crashes
    and failed calls included. *)
Theorem C17_index_matches :
  forall (cs : list (pid * mfkind)) (h : list step),
    tamper_free h -> index_matches (ps_store (exec h (init_state cs))).
Proof. exact index_matches_reachable. Qed.
Print Assumptions C17_index_matches.

(** (2c) ... and at every moment a live pod's groups are reserved (one direction
    of the "iff" is an invariant; the other needs the syncs). *)
Theorem C17_live_pods_are_reserved :
  forall (cs : list (pid * mfkind)) (h : list step),
    tamper_free h ->
    forall g, live_carrier (ps_store (exec h (init_state cs))) g -> has_res (ps_store (exec h (init_state cs))) g.
Proof. exact live_consumers_reserved. Qed.
Print Assumptions C17_live_pods_are_reserved.

(** (3) After ANY tamper-free history, the start-up Sync (if it is not itself hit
    by a fault) goes through and leaves: a reservation pod for g iff a live pod
    carries g, for every g; no running pod attached to an unreserved group. *)
Theorem C17_iff_after_sync :
  forall (cs : list (pid * mfkind)) (h : list step) ord dp,
    tamper_free h ->
    exists w', exec_world (quiet_step EvRestart ord dp) (exec h (init_state cs)) = (Ok tt, w')
               /\ (forall g, exact_for (w_store w') g)
               /\ no_running_orphan (w_store w') /\ at_most_one (w_store w').
Proof. exact startup_sync_exact. Qed.
Print Assumptions C17_iff_after_sync.

(** (3') The next bind on node n starts with SyncForNode n: afterwards every
    reservation pod that sits on n has a live consumer. *)
Theorem C17_clean_after_next_bind_on_node :
  forall (cs : list (pid * mfkind)) (h : list step) nd ord dp,
    tamper_free h ->
    exists w', exec_world (quiet_step (EvNodeSync nd) ord dp) (exec h (init_state cs)) = (Ok tt, w')
               /\ node_clean nd (w_store w').
Proof. exact node_sync_clean. Qed.
Print Assumptions C17_clean_after_next_bind_on_node.

(** (3'') The handlers alone: when a consumer completes, the pod controller's
    update handler makes every group the pod carries exact -- single- and
    multi-fraction labels alike ... *)
Theorem C17_iff_after_completion :
  forall (cs : list (pid * mfkind)) (h : list step) c ph p ord dp,
    tamper_free h ->
    find_consumer c (ps_store (exec h (init_state cs))) = Some p ->
    phase_rank (p_phase p) < phase_rank ph -> completed ph = true ->
    exists w', exec_world (quiet_step (EvPhase c ph) ord dp) (exec h (init_state cs)) = (Ok tt, w')
               /\ forall g, carries p g -> exact_for (w_store w') g.
Proof. exact completion_handler_exact. Qed.
Print Assumptions C17_iff_after_completion.

(** ... and when it is deleted, the delete handler plus the handler of the
    BindRequest the garbage collector removes do the same for the pod's groups
    and the request's groups. *)
Theorem C17_iff_after_deletion :
  forall (cs : list (pid * mfkind)) (h : list step) c p ord dp,
    tamper_free h ->
    find_consumer c (ps_store (exec h (init_state cs))) = Some p ->
    exists w', exec_world (quiet_step (EvDelete c) ord dp) (exec h (init_state cs)) = (Ok tt, w')
               /\ forall g, (carries p g \/ exists gs, br_get c (ps_brs (exec h (init_state cs))) = Some gs /\ In g gs) ->
                            exact_for (w_store w') g.
Proof. exact deletion_handler_exact. Qed.
Print Assumptions C17_iff_after_deletion.

(** (4) Histories in which reservation pods are deleted from outside.  The full
    statement -- after the start-up Sync no running pod is attached to an
    unreserved group -- is FALSE for the code as it is: Sync and SyncForNode list
    only pods with the plain label, so the group of a multi-fraction consumer
    whose reservation pod vanished is never visited (known finding
    C17-multifraction-orphan). *)
Definition C17_no_running_orphan_any_history : Prop :=
  forall (cs : list (pid * mfkind)) (h : list step) ord dp w',
    exec_world (quiet_step EvRestart ord dp) (exec h (init_state cs)) = (Ok tt, w') ->
    no_running_orphan (w_store w').

Theorem C17_no_running_orphan_refuted : ~ C17_no_running_orphan_any_history.
Proof.
  intros H. destruct f3_orphan_survives as [w' [He Hn]]. exact (Hn (H _ _ _ _ _ He)).
Qed.
Print Assumptions C17_no_running_orphan_refuted.

(** It holds under the weakest hypothesis the code supports: every running pod
    attached to an unreserved group carries the plain label (true in particular
    when no multi-fraction consumer holds a group whose reservation pod was
    deleted from outside).  Any history, any faults before the sync. *)
Theorem C17_no_running_orphan_partial :
  forall (cs : list (pid * mfkind)) (h : list step) ord dp w',
    orphans_visible (ps_store (exec h (init_state cs))) ->
    exec_world (quiet_step EvRestart ord dp) (exec h (init_state cs)) = (Ok tt, w') ->
    no_running_orphan (w_store w') /\ at_most_one (w_store w').
Proof. exact no_orphan_after_startup_sync. Qed.
Print Assumptions C17_no_running_orphan_partial.

(** The witness does not meet that hypothesis, and the same history with a
    single-fraction consumer ends with the running pod deleted. *)
Theorem C17_orphan_witness_is_multi_fraction :
  ~ orphans_visible (ps_store (exec f3_history (init_state f3_pods)))
  /\ w_store (snd (exec_world (quiet_step EvRestart [] []) (exec f3s_history (init_state f3s_pods)))) = [].
Proof. exact (conj f3_not_visible f3s_single_fraction_deleted). Qed.
Print Assumptions C17_orphan_witness_is_multi_fraction.

(** Why (3) asks for a tamper-free history: by design the sync deletes only
    RUNNING pods without reservation, so a bound pod that is still Pending keeps
    its label when its reservation pod is deleted from outside. *)
Definition C17_iff_after_sync_any_history : Prop :=
  forall (cs : list (pid * mfkind)) (h : list step) ord dp w',
    exec_world (quiet_step EvRestart ord dp) (exec h (init_state cs)) = (Ok tt, w') ->
    forall g, exact_for (w_store w') g.
Theorem C17_iff_after_sync_any_history_refuted : ~ C17_iff_after_sync_any_history.
Proof.
  intros H. destruct tampered_pending_keeps_label as [w' [He Hn]]. exact (Hn (H _ _ _ _ _ He _)).
Qed.
Print Assumptions C17_iff_after_sync_any_history_refuted.

(** Non-vacuity: a tamper-free history with a crash between creating a
    reservation pod and labelling the consumer, a failed label patch, and a
    single- and a multi-fraction consumer sharing a group reaches a state with
    two reservation pods and a live bound consumer that holds an index
    (the hypotheses of (2b) are met); the lock model has a schedule on which two
    threads wait while a third is inside. *)
Theorem C17_nonvacuous :
  tamper_free nv_history
  /\ (let s := ps_store (exec nv_history (init_state nv_pods)) in
      length (filter p_res s) = 2
      /\ (exists p i, In p s /\ p_res p = false /\ live p /\ p_node p <> None /\ carries p 2%positive
                      /\ In (2%positive, i) (p_given p))
      /\ length (res_of 1%positive s) = 1 /\ length (res_of 2%positive s) = 1
      /\ ps_next (exec nv_history (init_state nv_pods)) = 5%positive)
  /\ Proofs.GroupMutex.count_in_cs 1%positive
       (Model.GroupMutex.run Proofs.GroupMutex.ex_sched1 (Model.GroupMutex.init Proofs.GroupMutex.ex_progs)) = 1.
Proof.
  split; [exact nv_tamper_free|]. split; [exact nv_reaches|]. exact (proj1 Proofs.GroupMutex.ex_contention).
Qed.
Print Assumptions C17_nonvacuous.
