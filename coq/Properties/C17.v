(** C17 -- GPU reservation pods track shared-GPU usage exactly.
    Statements only; proofs are in Proofs/GroupMutex.v and Proofs/Reservation.v.

    A history is any list of steps: binds (with any selected groups and any
    pre-bind verdict), kubelet phase changes, pod deletions, BindRequest
    deletions, SyncForNode, binder restarts -- each with ANY fault oracle (API
    calls that fail, a crash before any API call), any device-plugin answers
    and any Go map iteration orders.  [tamper_free h]: no step of h deletes a
    reservation pod behind the binder's back ([EvResGone]).  [quiet_step e ord dp]
    is a step without faults (its map orders and device-plugin answers are
    still arbitrary). *)
From Coq Require Import List PArith Permutation.
From KaiV Require Model.GroupMutex Proofs.GroupMutex Model.Sections Proofs.Sections Proofs.SectionsGlobal Proofs.ReservationCommute Run.C17.
From KaiV Require Import Model.Reservation Proofs.Reservation.
Import ListNotations.

(** (1) The per-group lock.  For any number of threads running any sequences of
    critical sections, under every schedule of their atomic steps (two per
    acquire, two per release, in the Go code's order): never two threads inside
    the section of the same group, never an unlock of an unlocked mutex, and
    when every thread is done both maps and the set of locked mutexes are empty. *)
Theorem group_mutex_exclusion :
  forall (progs : list (list Model.GroupMutex.group)) (sched : list nat),
    let c := Model.GroupMutex.run sched (Model.GroupMutex.init progs) in
    (forall x i j ti tj, i <> j ->
        nth_error (Model.GroupMutex.c_thr c) i = Some ti -> nth_error (Model.GroupMutex.c_thr c) j = Some tj ->
        Model.GroupMutex.in_cs x ti -> Model.GroupMutex.in_cs x tj -> False)
    /\ Model.GroupMutex.gm_panic (Model.GroupMutex.c_gm c) = false
    /\ ((forall t, In t (Model.GroupMutex.c_thr c) -> Model.GroupMutex.done t) ->
        Model.GroupMutex.gm_map (Model.GroupMutex.c_gm c) = []
        /\ Model.GroupMutex.gm_refs (Model.GroupMutex.c_gm c) = []
        /\ Model.GroupMutex.gm_locked (Model.GroupMutex.c_gm c) = []).
Proof. exact Proofs.GroupMutex.group_mutex_exclusion_proof. Qed.
Print Assumptions group_mutex_exclusion.

(** (1') What the lock buys: ATOMICITY of the sections.  Model/Reservation.v runs
    every critical section of a group as one atomic piece, and the race check
    (Run/C17.v, [race_agrees]) compares a real interleaving of two operations
    with the two sequential orders.  Both are justified by this statement about
    Model/Sections.v -- the lock protocol of (1), unchanged, with a BODY between
    acquire and release that is executed one atomic action (one API call) per
    scheduler tick; a body is any resumable program (local state lives in its
    continuations); [run_prog] is the body run without interruption; the shared
    state has one component per group and a section works on its group's.
    For any number of threads, any sections, any bodies and EVERY schedule of
    lock steps and body actions:
      - never two threads inside the section of one group;
      - at every moment component x is explained by the sections that took x's
        lock so far, in that order, each run uninterrupted: it IS that state if
        nobody is inside, and finishing the current body leads to it otherwise;
        no section is lost or run twice;
      - when every thread is done, every component is the result of SOME
        sequential order of all the sections on its group.
    Sections of different groups are independent here by construction (disjoint
    components); [C17_interleavings_serialise] below replaces that by commuting
    actions on one shared state. *)
Theorem C17_interleavings_serialise_components :
  forall (T : Type) (sh0 : Model.GroupMutex.group -> T)
         (progs : list (list (Model.GroupMutex.group * Model.Sections.prog T))) (sched : list nat),
    let c := Model.Sections.srun sched (Model.Sections.sinit progs sh0) in
    (forall x i j ti tj, i <> j ->
        nth_error (Model.Sections.sc_thr c) i = Some ti -> nth_error (Model.Sections.sc_thr c) j = Some tj ->
        Model.GroupMutex.in_cs x (Model.Sections.st_thr ti) -> Model.GroupMutex.in_cs x (Model.Sections.st_thr tj) -> False)
    /\ (forall x, exists order,
           Permutation (order ++ Proofs.Sections.pending x (Model.Sections.sc_thr c)) (Model.Sections.bodies_on x progs)
           /\ ((forall t, In t (Model.Sections.sc_thr c) -> ~ Model.GroupMutex.in_cs x (Model.Sections.st_thr t)) ->
               Model.Sections.sc_sh c x = Model.Sections.serial order (sh0 x))
           /\ (forall i t, nth_error (Model.Sections.sc_thr c) i = Some t ->
                           Model.GroupMutex.in_cs x (Model.Sections.st_thr t) ->
                           Model.Sections.run_prog (Model.Sections.st_cur t) (Model.Sections.sc_sh c x)
                           = Model.Sections.serial order (sh0 x)))
    /\ ((forall t, In t (Model.Sections.sc_thr c) -> Model.Sections.sdone t) ->
        forall x, exists order, Permutation order (Model.Sections.bodies_on x progs)
                                /\ Model.Sections.sc_sh c x = Model.Sections.serial order (sh0 x)).
Proof. exact (fun T => @Proofs.Sections.sections_serialise_proof T). Qed.
Print Assumptions C17_interleavings_serialise_components.

(** The same over ONE shared state -- the real store is not a family of
    per-group components: consumer pods are shared.  Bodies are plain lists of
    actions, [gstep] lets an action of a section touch the whole state, and
    instead of disjointness the hypothesis is that actions of sections on
    DIFFERENT groups commute.  Any number of threads, any sections, every
    schedule: when every thread is done the state is the result of SOME
    sequential order of all the sections, each run whole and uninterrupted.
    (Proof: the threads inside, taken in the order in which they entered, can
    finish their bodies one after the other; an action is moved to the front
    past the remaining actions of earlier entrants, which by mutual exclusion
    belong to other groups.)  Not covered: bodies with local state over one
    shared state (that is [C17_interleavings_serialise_components], over
    components). *)
Theorem C17_interleavings_serialise :
  forall (T : Type) (progs : list (list (Model.GroupMutex.group * Model.Sections.body T))) (s0 : T),
    (forall x bx y by_,
        In (x, bx) (concat progs) -> In (y, by_) (concat progs) -> x <> y ->
        forall f g, In f bx -> In g by_ -> forall s, f (g s) = g (f s)) ->
    forall sched : list nat,
      let c := Model.Sections.grun sched (Model.Sections.ginit progs s0) in
      (forall t, In t (Model.Sections.gc_thr c) -> Model.Sections.ldone t) ->
      exists order,
        Permutation order (map snd (concat progs))
        /\ Model.Sections.gc_st c = Model.Sections.serial_bodies order s0.
Proof. exact (fun T => @Proofs.SectionsGlobal.global_serialise_proof T). Qed.
Print Assumptions C17_interleavings_serialise.

(** The race oracle.  Two operations on the SAME group -- the operations of
    Run/C17.v: ReserveGpuDevice, SyncForGpuGroup or any event, with any oracles --
    and whatever atomic actions (API calls, with any local state in between) the
    code performs for them inside the lock: if, uninterrupted, they do what the
    model's atomic [exec_rop] does, every interleaving the lock allows ends in
    the state the model reaches by a, then b, or by b, then a.  This is what
    [race_agrees] of Run/C17.v compares the real final store with ([seq2]).
    On DIFFERENT groups (and disjoint components) each component is what its own
    operation makes of it. *)
Theorem C17_race_linearizable :
  forall (x : Model.GroupMutex.group) (a b : Run.C17.rstep) (pA pB : Model.Sections.prog pstate)
         (s0 : Model.GroupMutex.group -> pstate) (sched : list nat),
    (forall s, Model.Sections.run_prog pA s = persist (snd (Run.C17.exec_rop a s))) ->
    (forall s, Model.Sections.run_prog pB s = persist (snd (Run.C17.exec_rop b s))) ->
    let c := Model.Sections.srun sched (Model.Sections.sinit [[(x, pA)]; [(x, pB)]] s0) in
    (forall t, In t (Model.Sections.sc_thr c) -> Model.Sections.sdone t) ->
    Model.Sections.sc_sh c x = persist (snd (Run.C17.exec_rop b (persist (snd (Run.C17.exec_rop a (s0 x))))))
    \/ Model.Sections.sc_sh c x = persist (snd (Run.C17.exec_rop a (persist (snd (Run.C17.exec_rop b (s0 x)))))).
Proof.
  exact (fun x a b => Proofs.Sections.two_functions_linearizable x
                        (fun s => persist (snd (Run.C17.exec_rop a s)))
                        (fun s => persist (snd (Run.C17.exec_rop b s)))).
Qed.
Print Assumptions C17_race_linearizable.

Theorem C17_race_different_groups_independent :
  forall (T : Type) (x y : Model.GroupMutex.group) (pA pB : Model.Sections.prog T)
         (sh0 : Model.GroupMutex.group -> T) (sched : list nat),
    x <> y ->
    let c := Model.Sections.srun sched (Model.Sections.sinit [[(x, pA)]; [(y, pB)]] sh0) in
    (forall t, In t (Model.Sections.sc_thr c) -> Model.Sections.sdone t) ->
    Model.Sections.sc_sh c x = Model.Sections.run_prog pA (sh0 x)
    /\ Model.Sections.sc_sh c y = Model.Sections.run_prog pB (sh0 y).
Proof. exact (fun T => @Proofs.Sections.two_sections_independent T). Qed.
Print Assumptions C17_race_different_groups_independent.

(** The hypothesis of [C17_interleavings_serialise] is a hypothesis: on the store
    of Model/Reservation.v two syncs of different groups do NOT commute in every
    state -- a sync of g1 that deletes a
    running pod without reservation takes away the last live consumer of g2
    (the witness state has a running pod attached to an unreserved group, which
    no tamper-free history reaches, (2c)).  So the race check never assumes an
    order for operations on different groups: either order is accepted. *)
Definition C17_syncs_of_different_groups_commute : Prop :=
  forall s : list pod, Proofs.ReservationCommute.syncs_commute_on s.
Theorem C17_syncs_of_different_groups_commute_refuted : ~ C17_syncs_of_different_groups_commute.
Proof. exact Proofs.ReservationCommute.syncs_commute_refuted. Qed.
Print Assumptions C17_syncs_of_different_groups_commute_refuted.

(** (2a) At most one reservation pod per group -- after EVERY history, outside
    deletions included. *)
Theorem C17_at_most_one_reservation :
  forall (cs : list (pid * mfkind)) (h : list step),
    at_most_one (ps_store (exec h (init_state cs))).
Proof. exact at_most_one_reachable. Qed.
Print Assumptions C17_at_most_one_reservation.

(** (2b) Every live bound consumer of g was handed the index annotated on g's
    reservation pod -- in every state reached by a tamper-free history, crashes
    and failed calls included. *)
Theorem C17_index_matches :
  forall (cs : list (pid * mfkind)) (h : list step),
    tamper_free h -> index_matches (ps_store (exec h (init_state cs))).
Proof. exact index_matches_reachable. Qed.
Print Assumptions C17_index_matches.

(** (2c) ... and at every moment a live pod's groups are reserved (one direction
    of the "iff" is an invariant; the other needs the syncs). *)
Theorem C17_live_pods_are_reserved :
  forall (cs : list (pid * mfkind)) (h : list step),
    tamper_free h ->
    forall g, live_carrier (ps_store (exec h (init_state cs))) g -> has_res (ps_store (exec h (init_state cs))) g.
Proof. exact live_consumers_reserved. Qed.
Print Assumptions C17_live_pods_are_reserved.

(** (3) After ANY tamper-free history, the start-up Sync (if it is not itself hit
    by a fault) goes through and leaves: a reservation pod for g iff a live pod
    carries g, for every g; no running pod attached to an unreserved group. *)
Theorem C17_iff_after_sync :
  forall (cs : list (pid * mfkind)) (h : list step) ord dp,
    tamper_free h ->
    exists w', exec_world (quiet_step EvRestart ord dp) (exec h (init_state cs)) = (Ok tt, w')
               /\ (forall g, exact_for (w_store w') g)
               /\ no_running_orphan (w_store w') /\ at_most_one (w_store w').
Proof. exact startup_sync_exact. Qed.
Print Assumptions C17_iff_after_sync.

(** (3') The next bind on node n starts with SyncForNode n: afterwards every
    reservation pod that sits on n has a live consumer. *)
Theorem C17_clean_after_next_bind_on_node :
  forall (cs : list (pid * mfkind)) (h : list step) nd ord dp,
    tamper_free h ->
    exists w', exec_world (quiet_step (EvNodeSync nd) ord dp) (exec h (init_state cs)) = (Ok tt, w')
               /\ node_clean nd (w_store w').
Proof. exact node_sync_clean. Qed.
Print Assumptions C17_clean_after_next_bind_on_node.

(** (3'') The handlers alone: when a consumer completes, the pod controller's
    update handler makes every group the pod carries exact -- single- and
    multi-fraction labels alike ... *)
Theorem C17_iff_after_completion :
  forall (cs : list (pid * mfkind)) (h : list step) c ph p ord dp,
    tamper_free h ->
    find_consumer c (ps_store (exec h (init_state cs))) = Some p ->
    phase_rank (p_phase p) < phase_rank ph -> completed ph = true ->
    exists w', exec_world (quiet_step (EvPhase c ph) ord dp) (exec h (init_state cs)) = (Ok tt, w')
               /\ forall g, carries p g -> exact_for (w_store w') g.
Proof. exact completion_handler_exact. Qed.
Print Assumptions C17_iff_after_completion.

(** ... and when it is deleted, the delete handler plus the handler of the
    BindRequest the garbage collector removes do the same for the pod's groups
    and the request's groups. *)
Theorem C17_iff_after_deletion :
  forall (cs : list (pid * mfkind)) (h : list step) c p ord dp,
    tamper_free h ->
    find_consumer c (ps_store (exec h (init_state cs))) = Some p ->
    exists w', exec_world (quiet_step (EvDelete c) ord dp) (exec h (init_state cs)) = (Ok tt, w')
               /\ forall g, (carries p g \/ exists gs, br_get c (ps_brs (exec h (init_state cs))) = Some gs /\ In g gs) ->
                            exact_for (w_store w') g.
Proof. exact deletion_handler_exact. Qed.
Print Assumptions C17_iff_after_deletion.

(** (4) Histories in which reservation pods are deleted from outside.  The full
    statement -- after the start-up Sync no running pod is attached to an
    unreserved group -- is FALSE for the code as it is: Sync and SyncForNode list
    only pods with the plain label, so the group of a multi-fraction consumer
    whose reservation pod vanished is never visited (known finding
    C17-multifraction-orphan). *)
Definition C17_no_running_orphan_any_history : Prop :=
  forall (cs : list (pid * mfkind)) (h : list step) ord dp w',
    exec_world (quiet_step EvRestart ord dp) (exec h (init_state cs)) = (Ok tt, w') ->
    no_running_orphan (w_store w').

Theorem C17_no_running_orphan_refuted : ~ C17_no_running_orphan_any_history.
Proof.
  intros H. destruct f3_orphan_survives as [w' [He Hn]]. exact (Hn (H _ _ _ _ _ He)).
Qed.
Print Assumptions C17_no_running_orphan_refuted.

(** It holds under the weakest hypothesis the code supports: every running pod
    attached to an unreserved group carries the plain label (true in particular
    when no multi-fraction consumer holds a group whose reservation pod was
    deleted from outside).  Any history, any faults before the sync. *)
Theorem C17_no_running_orphan_partial :
  forall (cs : list (pid * mfkind)) (h : list step) ord dp w',
    orphans_visible (ps_store (exec h (init_state cs))) ->
    exec_world (quiet_step EvRestart ord dp) (exec h (init_state cs)) = (Ok tt, w') ->
    no_running_orphan (w_store w') /\ at_most_one (w_store w').
Proof. exact no_orphan_after_startup_sync. Qed.
Print Assumptions C17_no_running_orphan_partial.

(** The witness does not meet that hypothesis, and the same history with a
    single-fraction consumer ends with the running pod deleted. *)
Theorem C17_orphan_witness_is_multi_fraction :
  ~ orphans_visible (ps_store (exec f3_history (init_state f3_pods)))
  /\ w_store (snd (exec_world (quiet_step EvRestart [] []) (exec f3s_history (init_state f3s_pods)))) = [].
Proof. exact (conj f3_not_visible f3s_single_fraction_deleted). Qed.
Print Assumptions C17_orphan_witness_is_multi_fraction.

(** Why (3) asks for a tamper-free history: by design the sync deletes only
    RUNNING pods without reservation, so a bound pod that is still Pending keeps
    its label when its reservation pod is deleted from outside. *)
Definition C17_iff_after_sync_any_history : Prop :=
  forall (cs : list (pid * mfkind)) (h : list step) ord dp w',
    exec_world (quiet_step EvRestart ord dp) (exec h (init_state cs)) = (Ok tt, w') ->
    forall g, exact_for (w_store w') g.
Theorem C17_iff_after_sync_any_history_refuted : ~ C17_iff_after_sync_any_history.
Proof.
  intros H. destruct tampered_pending_keeps_label as [w' [He Hn]]. exact (Hn (H _ _ _ _ _ He _)).
Qed.
Print Assumptions C17_iff_after_sync_any_history_refuted.

(** Non-vacuity: a tamper-free history with a crash between creating a
    reservation pod and labelling the consumer, a failed label patch, and a
    single- and a multi-fraction consumer sharing a group reaches a state with
    two reservation pods and a live bound consumer that holds an index
    (the hypotheses of (2b) are met); the lock model has a schedule on which two
    threads wait while a third is inside; the machine with bodies has a schedule
    on which a thread is refused the lock while the other one is half-way
    through a two-action body, and the final state is that of A;B and not that
    of B;A; every operation of the model has a body that meets the hypothesis of
    [C17_race_linearizable]; the one-shared-state machine has commuting sections
    of two groups that are inside at the same time and interleave action by
    action. *)
Theorem C17_nonvacuous :
  tamper_free nv_history
  /\ (let s := ps_store (exec nv_history (init_state nv_pods)) in
      length (filter p_res s) = 2
      /\ (exists p i, In p s /\ p_res p = false /\ live p /\ p_node p <> None /\ carries p 2%positive
                      /\ In (2%positive, i) (p_given p))
      /\ length (res_of 1%positive s) = 1 /\ length (res_of 2%positive s) = 1
      /\ ps_next (exec nv_history (init_state nv_pods)) = 5%positive)
  /\ Proofs.GroupMutex.count_in_cs 1%positive
       (Model.GroupMutex.run Proofs.GroupMutex.ex_sched1 (Model.GroupMutex.init Proofs.GroupMutex.ex_progs)) = 1
  /\ (map (fun t => Model.GroupMutex.in_cs_b 1%positive (Model.Sections.st_thr t))
          (Model.Sections.sc_thr (Model.Sections.srun Proofs.Sections.ex_sched_mid Proofs.Sections.ex_two)) = [true; false]
      /\ Model.Sections.sc_sh (Model.Sections.srun Proofs.Sections.ex_sched_mid Proofs.Sections.ex_two) 1%positive = 1
      /\ forallb Proofs.Sections.sdone_b
                 (Model.Sections.sc_thr (Model.Sections.srun Proofs.Sections.ex_sched_all Proofs.Sections.ex_two)) = true
      /\ Model.Sections.sc_sh (Model.Sections.srun Proofs.Sections.ex_sched_all Proofs.Sections.ex_two) 1%positive = 12
      /\ Model.Sections.run_prog Proofs.Sections.ex_pA (Model.Sections.run_prog Proofs.Sections.ex_pB 0) = 22)
  /\ (forall (a : Run.C17.rstep) s,
        Model.Sections.run_prog (Proofs.Sections.atomic_body (fun s => persist (snd (Run.C17.exec_rop a s)))) s
        = persist (snd (Run.C17.exec_rop a s)))
  /\ ((forall x bx y by_, In (x, bx) (concat Proofs.SectionsGlobal.gx_progs) ->
                          In (y, by_) (concat Proofs.SectionsGlobal.gx_progs) -> x <> y ->
                          forall f g, In f bx -> In g by_ -> forall s, f (g s) = g (f s))
      /\ Model.Sections.gc_hold (Model.Sections.grun [0; 0; 1; 1; 0; 1]
                                   (Model.Sections.ginit Proofs.SectionsGlobal.gx_progs (0, 0))) = [0; 1]
      /\ Model.Sections.gc_st (Model.Sections.grun Proofs.SectionsGlobal.gx_sched
                                 (Model.Sections.ginit Proofs.SectionsGlobal.gx_progs (0, 0))) = (2, 15)).
Proof.
  split; [exact nv_tamper_free|]. split; [exact nv_reaches|]. split; [exact (proj1 Proofs.GroupMutex.ex_contention)|].
  split; [destruct Proofs.Sections.ex_two_blocked as [H1 [_ [H3 [H4 [H5 [_ H7]]]]]]; repeat split; assumption|].
  split; [intros a s; reflexivity|].
  destruct Proofs.SectionsGlobal.gx_interleaved as [_ [G2 [_ G4]]].
  split; [exact Proofs.SectionsGlobal.gx_commute|]. split; assumption.
Qed.
Print Assumptions C17_nonvacuous.
