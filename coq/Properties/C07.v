(** C07 — Reclaim protects deserved quota and moves resources toward fair share.
    Statements only; proofs are in Proofs/Reclaim.v.  The model (Model/Reclaim.v) follows
    reclaimable.go / strategies.go; the vocabulary of the statements (exceeds, within_all,
    protected, rem_before, touched, spec_involved, sat_violation, Acyclic) is in
    Model/ReclaimSpec.v and does not follow the code's control flow.
    [victims] is the reclaimee map in the order Go happens to iterate it; every theorem
    quantifies over all such orders.  [reclaimable ... = Ok true] already implies that no
    parent walk ran out of fuel; C07_fuel_suffices says that this never happens on an
    acyclic forest.
    Theorems 6-9 are about whole sessions (Model/ReclaimSession.v): several reclaims are
    committed one after the other, and every verdict has to be computed on the state the
    earlier commits of the same session produced. *)
From Coq Require Import List ZArith QArith Bool Permutation.
From KaiV Require Import Model.Reclaim Model.ReclaimSpec Model.ReclaimSession Proofs.Reclaim Proofs.ReclaimSession.
Import ListNotations.
Open Scope Q_scope.

(** On an acyclic queue forest the model's fuel |qs|+1 is enough for every parent walk and
    more fuel never changes the result. *)
Theorem C07_fuel_suffices :
  forall qs, Acyclic qs ->
  forall id, exists l, chain_of qs id = Some l /\
                       forall f, (S (length qs) <= f)%nat -> chain f qs id = Some l.
Proof. exact fuel_suffices. Qed.
Print Assumptions C07_fuel_suffices.

(** The decidable well-formedness check is exactly acyclicity. *)
Theorem C07_acyclic_decidable :
  forall qs, acyclicb qs = true <-> Acyclic qs.
Proof. intros qs. split; [apply acyclicb_acyclic|apply acyclic_acyclicb]. Qed.
Print Assumptions C07_acyclic_decidable.

(** 1. Every victim of an accepted scenario was taken from a queue which, at the level where
    it diverges from the reclaimer's queue and just before that victim was subtracted, was
    not protected: it held more than its deserved quota in some resource or more than its
    allocatable (fair) share in some resource.  Hypothesis: what the queue held at that
    moment is a real quantity (no component is exactly the sentinel -1). *)
Theorem C07_protected_queue_untouched :
  forall m qs rc victims,
    reclaimable m qs rc victims = Ok true ->
    forall pre k v post, flatten victims = pre ++ (k, v) :: post ->
    exists rq eq, leveled qs (rc_queue rc) k = Ok (Some (rq, eq)) /\
      (no_sentinel (rem_before qs pre eq) -> ~ protected eq (rem_before qs pre eq)).
Proof. exact protected_queue_untouched. Qed.
Print Assumptions C07_protected_queue_untouched.

(** Without that hypothesis the statement is false for the code as it is: a victim larger
    than what its queue holds can leave exactly -1, which LessEqual reads as "unlimited". *)
Definition C07_protected_queue_untouched_unconditional : Prop := protected_untouched_unconditional.
Theorem C07_protected_queue_untouched_unconditional_refuted :
  exists m qs rc victims pre k v post,
    reclaimable m qs rc victims = Ok true /\ flatten victims = pre ++ (k, v) :: post /\
    forall rq eq, leveled qs (rc_queue rc) k = Ok (Some (rq, eq)) ->
                  protected eq (rem_before qs pre eq).
Proof. exact protected_untouched_unconditional_refuted. Qed.
Print Assumptions C07_protected_queue_untouched_unconditional_refuted.

(** 2. The gate of the reclaim action: the reclaimer's queue stays within its fair share with
    the requested resources added, and a non-preemptible reclaimer keeps the queue's
    non-preemptible allocation within deserved quota. *)
Theorem C07_reclaimer_within_fair_share :
  forall qs rc,
    can_reclaim qs rc = Ok true ->
    exists q, lookup qs (rc_queue rc) = Some q /\
      within_all (vadd (alloc_vec q) (quantify (rc_res rc))) (fair_vec q) /\
      (rc_preemptible rc = false ->
       within_all (vadd (allocnp_vec q) (quantify (rc_res rc))) (deserved_vec q)).
Proof. exact reclaimer_within_fair_share. Qed.
Print Assumptions C07_reclaimer_within_fair_share.

(** 3. A non-preemptible reclaimer keeps the non-preemptible allocation within deserved quota
    in its queue and in every ancestor. *)
Theorem C07_nonpreemptible_reclaimer_within_quota :
  forall m qs rc victims,
    reclaimable m qs rc victims = Ok true -> rc_preemptible rc = false ->
    exists ch, chain_of qs (rc_queue rc) = Some ch /\
      forall a, In a ch ->
        within_all (vadd (allocnp_vec a) (quantify (rc_res rc))) (deserved_vec a).
Proof. exact nonpreemptible_reclaimer_within_quota. Qed.
Print Assumptions C07_nonpreemptible_reclaimer_within_quota.

(** 4. Saturation order.  For every ancestor-or-self [a] of the reclaimer's queue, every queue
    [s] with the same parent from below which something was taken, and every resource
    involved in what was taken there or in the request: [a], holding what is left plus the
    request, is not both above its fair share and (times m) at least as saturated as [s]
    with what [s] is left holding.  Hypothesis: no reclaimee queue is an ancestor of another
    (victims live in leaf queues). *)
Theorem C07_saturation_order :
  forall m qs rc victims,
    reclaimable m qs rc victims = Ok true -> 0 < m ->
    antichain_keys qs (map fst victims) = true ->
    exists ch, chain_of qs (rc_queue rc) = Some ch /\
    forall a, In a ch ->
    forall s, lookup qs (q_id s) = Some s ->
      touched qs victims (q_id s) = true -> same_parent s a = true -> q_id s <> q_id a ->
    forall r, spec_involved qs victims (q_id s) r = true \/ imem (involved_one (rc_res rc)) r = true ->
      ~ sat_violation m
          (vget (vadd (rem_before qs (flatten victims) a) (quantify (rc_res rc))) r)
          (vget (fair_vec a) r)
          (vget (rem_before qs (flatten victims) s) r)
          (vget (fair_vec s) r).
Proof. exact saturation_order. Qed.
Print Assumptions C07_saturation_order.

(** 5. Order of examination.  The verdict is NOT independent of the order in which the
    reclaimee map is iterated (nor of the order of one queue's victims): the per-victim
    test reads a running remainder. *)
Definition C07_order_independent : Prop := order_independent.
Theorem C07_order_independent_refuted :
  exists m qs rc v1 v2,
    acyclicb qs = true /\ antichain_keys qs (map fst v1) = true /\ Permutation v1 v2 /\
    reclaimable m qs rc v1 = Ok false /\ reclaimable m qs rc v2 = Ok true.
Proof. exact order_independent_refuted. Qed.
Print Assumptions C07_order_independent_refuted.

Definition C07_victim_order_independent : Prop := victim_order_independent.
Theorem C07_victim_order_independent_refuted :
  exists m qs rc k vs1 vs2,
    acyclicb qs = true /\ Permutation vs1 vs2 /\
    reclaimable m qs rc [(k, vs1)] = Ok false /\ reclaimable m qs rc [(k, vs2)] = Ok true.
Proof. exact victim_order_independent_refuted. Qed.
Print Assumptions C07_victim_order_independent_refuted.

(** What does not depend on the order: what each queue is left holding by an accepted set of
    victims (so theorems 3 and 4, which read only final holdings, describe every order). *)
Theorem C07_order_independent_partial :
  forall qs v1 v2 q, Permutation v1 v2 ->
    forall r, vget (rem_before qs (flatten v1) q) r == vget (rem_before qs (flatten v2) q) r.
Proof. exact final_holdings_order_independent. Qed.
Print Assumptions C07_order_independent_partial.

(** Non-vacuity: an accepted two-queue scenario on an acyclic forest with leaf reclaimee
    queues, a touched sibling, and real (non-sentinel) holdings at every step. *)
Theorem C07_nonvacuous :
  Acyclic w_qs /\ antichain_keys w_qs (map fst ex_victims) = true /\
  can_reclaim w_qs w_rc = Ok true /\ reclaimable 1 w_qs w_rc ex_victims = Ok true /\
  touched w_qs ex_victims 2%positive = true /\
  (forall pre q, lookup w_qs (q_id q) = Some q ->
     no_sentinel (rem_before w_qs (firstn pre (flatten ex_victims)) q)).
Proof. exact ex_accepted. Qed.
Print Assumptions C07_nonvacuous.

(** * Whole sessions: a list of reclaim commits, each judged on the state its predecessors left

    [accepted_on_current m qs0 cs]: for every commit of [cs], in order, the gate
    (CanReclaimResources) and the validator (Reclaimable) say yes ON THE CURRENT STATE, i.e. on
    [qs0] updated by all earlier commits (victims' resources leave their queue and every
    ancestor, the reclaimer's resources enter its queue and every ancestor).
    [holding qs0 done id h0] is the declarative counterpart: what queue [id], holding [h0] at the
    start of the session, holds after the commits [done], told from the history alone;
    [take qs0 pre id h] then removes the victims [pre] of the commit under way. *)

(** 6. The state on which the k-th verdict is computed is the cumulative truth: after any prefix
    [cs] of the session every queue has the same identifier, parent, deserved quota, fair share
    and allocatable share as at the start, and its allocation (non-preemptible allocation) is the
    initial one adjusted by every earlier victim at or below it and every earlier reclaimer at or
    below it. *)
Theorem C07_session_state_is_cumulative :
  forall cs qs0 id q0, lookup qs0 id = Some q0 ->
  exists q, lookup (run qs0 cs) id = Some q /\
    q_id q = q_id q0 /\ q_parent q = q_parent q0 /\
    deserved_vec q = deserved_vec q0 /\ fair_vec q = fair_vec q0 /\
    allocatable_vec q = allocatable_vec q0 /\
    alloc_vec q = holding qs0 cs id (alloc_vec q0) /\
    allocnp_vec q = holding_np qs0 cs id (allocnp_vec q0).
Proof. exact session_state_is_cumulative. Qed.
Print Assumptions C07_session_state_is_cumulative.

(** 7. Clause 1 after every prefix of a session.  If every verdict is computed on the current
    state, then for every commit [c] of the session (after any commits [done]) and every victim
    of [c]: the victim's queue at the level where it diverges from the reclaimer's queue, holding
    what it TRULY holds at that moment (initial allocation, adjusted by all commits [done] and by
    the victims [pre] of [c] examined before), was not protected: it held more than its deserved
    quota in some resource or more than its allocatable (fair) share in some resource.  Same
    hypothesis as theorem 1 (the holding is a real quantity). *)
Theorem C07_session_protected_queue_untouched :
  forall m done qs0 c rest,
    accepted_on_current m qs0 (done ++ c :: rest) ->
    forall pre k v post, flatten (c_victims c) = pre ++ (k, v) :: post ->
    exists rq eq, leveled qs0 (rc_queue (c_rc c)) k = Ok (Some (rq, eq)) /\
      (no_sentinel (take qs0 pre (q_id eq) (holding qs0 done (q_id eq) (alloc_vec eq))) ->
       ~ protected eq (take qs0 pre (q_id eq) (holding qs0 done (q_id eq) (alloc_vec eq)))).
Proof. exact session_protected_queue_untouched. Qed.
Print Assumptions C07_session_protected_queue_untouched.

(** 8. Clauses 2 and 3 (the gate) after every prefix of a session: with what its queue truly
    holds after the commits [done], every reclaimer stays within the queue's fair share, and a
    non-preemptible reclaimer keeps the true non-preemptible allocation within deserved quota. *)
Theorem C07_session_reclaimer_within_fair_share :
  forall m done qs0 c rest,
    accepted_on_current m qs0 (done ++ c :: rest) ->
    exists q, lookup qs0 (rc_queue (c_rc c)) = Some q /\
      within_all (vadd (holding qs0 done (q_id q) (alloc_vec q)) (quantify (rc_res (c_rc c)))) (fair_vec q) /\
      (rc_preemptible (c_rc c) = false ->
       within_all (vadd (holding_np qs0 done (q_id q) (allocnp_vec q)) (quantify (rc_res (c_rc c))))
                  (deserved_vec q)).
Proof. exact session_reclaimer_within_fair_share. Qed.
Print Assumptions C07_session_reclaimer_within_fair_share.

(** Non-vacuity for 6-8: queue a (deserved 4, fair share 3, holding 1 GPU), queue b (deserved 1,
    fair share 1, holding 3), queue c; two commits in a row, each moving one GPU from b to a
    reclaimer of a, are accepted on the current state; a third one is not; all holdings are real
    quantities. *)
Theorem C07_session_nonvacuous :
  accepted_on_current 1 (d_qs 3) [d_c; d_c] /\ Acyclic (d_qs 3) /\
  ~ accepted_on_current 1 (d_qs 3) [d_c; d_c; d_c] /\
  (forall id q, lookup (d_qs 3) id = Some q ->
     no_sentinel (holding (d_qs 3) [d_c] id (alloc_vec q)) /\
     no_sentinel (holding (d_qs 3) [d_c; d_c] id (alloc_vec q))).
Proof. exact session_nonvacuous. Qed.
Print Assumptions C07_session_nonvacuous.

(** 9. "On the CURRENT state" cannot be weakened.  Theorem 7 read with a validator input that is
    not refreshed per job ([accepted_on_stale]: the gate reads the live queue map, the validator
    the clone made for the first job of the session) is false: with b holding 2 GPUs the first
    commit brings b down to its deserved quota; judged on the initial clone the second commit is
    accepted too, although the validator refuses it on the current state, and it takes a GPU
    from a queue that is within its deserved quota and its fair share in every resource. *)
Definition C07_session_stale_validator_input : Prop := session_stale_statement.
Theorem C07_session_stale_validator_input_refuted :
  exists m qs0 done c rest pre k v post,
    accepted_on_stale m qs0 qs0 (done ++ c :: rest) /\
    flatten (c_victims c) = pre ++ (k, v) :: post /\
    reclaimable m (run qs0 done) (c_rc c) (c_victims c) = Ok false /\
    forall rq eq, leveled qs0 (rc_queue (c_rc c)) k = Ok (Some (rq, eq)) ->
      no_sentinel (take qs0 pre (q_id eq) (holding qs0 done (q_id eq) (alloc_vec eq))) /\
      protected eq (take qs0 pre (q_id eq) (holding qs0 done (q_id eq) (alloc_vec eq))).
Proof. exact session_stale_refuted. Qed.
Print Assumptions C07_session_stale_validator_input_refuted.

Theorem C07_session_stale_validator_input_false : ~ C07_session_stale_validator_input.
Proof. exact session_stale_statement_false. Qed.
Print Assumptions C07_session_stale_validator_input_false.
