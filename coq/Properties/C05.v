(** C05 — Progress: runnable work is placed; eligible victims are displaced.
    Statements only; proofs are in Proofs/Progress.v.

    Oracles (every statement holds for all of them): upstream predicates
    [pred], node-level and job-level queue capacity gates [tgate] / [gate],
    node order [nord], GPU group choice [gsel], ShouldPipelineJob
    [shouldpipe], the pop order of the jobs [order]; for the victim solver:
    victim filters, scenario filters, scenario validators, the order of the
    simulation, CanReclaimResources and the non-preemptible-over-quota gate. *)
From Coq Require Import List ZArith PArith Bool.
From KaiV Require Import Model.Res Model.Status Model.AMap Model.Node Model.Progress Model.Signatures.
From KaiV Require Import Proofs.Progress.
From KaiV Require Model.Reclaim Model.ReclaimSpec.
From KaiV Require Import Model.ProgressTree Proofs.ProgressTree Proofs.ProgressTreeAction.
From KaiV Require Import Model.ProgressFaults Proofs.ProgressFaults.
From KaiV Require Import Model.ReclaimFaults Proofs.ReclaimFaults.
Import ListNotations.
Open Scope Z_scope.

(** Work conservation, homogeneous allocation units.  After the allocate
    action, whatever the node order, the pop order and the plugin answers: a
    job whose allocation unit (pods with one common request and one common
    predicate row, none of them a shared-GPU pod) was refused cannot be bound
    as a whole on the idle, non-nominated capacity that is left while the
    job-level capacity gate would let it through.
    Hypotheses: the gates are headroom checks (what they refuse they keep
    refusing while more work is charged; a unit the job-level gate admits is
    admitted pod by pod by the node-level gate), the node order lists every
    node, the nodes hold well-formed non-shared pods with non-negative
    requests, pod ids of the unit are fresh. *)
Theorem C05_work_conservation_partial :
  forall pred tgate gate nord gsel shouldpipe st0 order,
    gate_antitone gate -> gate_implies_tgate tgate gate -> covers nord (map fst (ls_nodes st0)) -> wf_state st0 ->
    let st := allocate_action pred tgate gate nord gsel shouldpipe st0 order in
    forall j c rest, In j (ls_jobs st) -> js_failed j = true -> js_todo j = c :: rest ->
      homogeneous pred c -> NoDup (map t_id c) ->
      (forall t, In t c -> forall nid n, alookup nid (ls_nodes st) = Some n -> amem (t_id t) (n_pods n) = false) ->
      ~ (gate (ls_hist st) (js_id j) c = true /\ fits_all pred (ls_nodes st) c).
Proof. exact work_conservation_partial_proof. Qed.
Print Assumptions C05_work_conservation_partial.

(** When the pop order empties the queue (as the loop of the action does),
    every job that still has pods to allocate is one that was refused. *)
Theorem C05_remaining_jobs_were_refused :
  forall pred tgate gate nord gsel shouldpipe st0 order,
    let st := allocate_action pred tgate gate nord gsel shouldpipe st0 order in
    exhausted st = true ->
    forall j c rest, In j (ls_jobs st) -> js_todo j = c :: rest -> js_failed j = true.
Proof. intros. eapply exhausted_failed; eassumption. Qed.
Print Assumptions C05_remaining_jobs_were_refused.

(** The same statement for arbitrary (heterogeneous) allocation units, "fits"
    = some assignment of the pods to nodes exists. *)
Definition C05_work_conservation_full : Prop := work_conservation_statement (fun _ _ => True).

(** It does not hold: nodes with 4 and 2 CPUs, a gang of a 2-CPU and a 4-CPU
    pod, node order n1, n2: the 2-CPU pod takes n1 and the 4-CPU pod fits
    nowhere, although 2 -> n2, 4 -> n1 is a placement. *)
Theorem C05_work_conservation_full_refuted : ~ C05_work_conservation_full.
Proof. exact work_conservation_full_refuted_proof. Qed.
Print Assumptions C05_work_conservation_full_refuted.

(** Non-vacuity of the homogeneous statement: a concrete cluster, pop order
    and unit meet every hypothesis, the unit is refused and the queue is empty
    at the end. *)
Theorem C05_work_conservation_nonvacuous :
  gate_antitone x_gate /\ gate_implies_tgate x_tgate x_gate /\ covers x_nord (map fst (ls_nodes y_st0))
  /\ wf_state y_st0
  /\ In (mkJS 1 [y_unit] true) (ls_jobs y_final) /\ homogeneous x_pred y_unit /\ NoDup (map t_id y_unit)
  /\ exhausted y_final = true
  /\ x_gate (ls_hist y_final) 1%positive y_unit = true.
Proof. exact y_nonvacuous. Qed.
Print Assumptions C05_work_conservation_nonvacuous.

(** Reclaim progress in the interchangeable class (identical nodes, one pod
    size, single-pod jobs).  In the state in which the pending job [p] is
    popped: if [p] passes the CanReclaimResources gate (its queue stays within
    its fair share; non-preemptible: within the deserved quota), is not
    skipped by the signature shortcut, and some prefix [pre ++ [v]] of the
    victims queue (preemptible running jobs of other queues that pass the
    min-runtime filter) is a good scenario — not pruned by the scenario
    filters (no topology / node-affinity constraint), accepted by the
    validator (victims' queues above fair share or, for a reclaimer within
    its deserved quota, above deserved quota; saturation order; a
    non-preemptible reclaimer within the deserved quota at every level), the
    preemptor simulated before the evicted victims, nominations on the
    victim's node covered by releasing capacity — then the action commits a
    statement for [p] with at least one eviction and the nomination of [p]. *)
Theorem C05_reclaim_progress :
  forall vfilter sfilter valid ahead use_sigs pending can_reclaim st0 before p after pre v post,
    let s := fold_left (reclaim_step vfilter sfilter valid ahead use_sigs pending can_reclaim) before (st0, []) in
    can_reclaim (fst s) p = true -> skipped use_sigs pending (snd s) p = false ->
    reclaim_victims vfilter (fst s) p = pre ++ v :: post ->
    scenario_good sfilter valid ahead (fst s) p (pre ++ [v]) v ->
    exists cm, In cm (vs_log (fst (reclaim_action vfilter sfilter valid ahead use_sigs pending can_reclaim st0
                                                  (before ++ p :: after))))
               /\ cm_job cm = pj_id p /\ cm_evicted cm <> [].
Proof. exact reclaim_action_progress. Qed.
Print Assumptions C05_reclaim_progress.

(** Preempt progress: the same with the non-preemptible-over-quota gate and the
    victims queue of preempt (preemptible running jobs of the same queue with
    strictly lower priority that pass the min-runtime filter). *)
Theorem C05_preempt_progress :
  forall vfilter sfilter valid ahead use_sigs pending np_gate st0 before p after pre v post,
    let s := fold_left (preempt_step vfilter sfilter valid ahead use_sigs pending np_gate) before (st0, []) in
    np_gate (fst s) p = true -> skipped use_sigs pending (snd s) p = false ->
    preempt_victims vfilter (fst s) p = pre ++ v :: post ->
    scenario_good sfilter valid ahead (fst s) p (pre ++ [v]) v ->
    exists cm, In cm (vs_log (fst (preempt_action vfilter sfilter valid ahead use_sigs pending np_gate st0
                                                  (before ++ p :: after))))
               /\ cm_job cm = pj_id p /\ cm_evicted cm <> [].
Proof. exact preempt_action_progress. Qed.
Print Assumptions C05_preempt_progress.

(** every eligible victim is in the victims queue: a preemptible running job of
    another queue (reclaim) / of the same queue with strictly lower priority
    (preempt) that passes the min-runtime filter *)
Theorem C05_eligible_victims_are_listed :
  forall vfilter st p v,
    In v (vs_running st) -> rj_preempt v = true -> vfilter p v = true ->
    (rj_queue v <> pj_queue p -> exists pre post, reclaim_victims vfilter st p = pre ++ v :: post)
    /\ (rj_queue v = pj_queue p -> rj_prio v < pj_prio p ->
        exists pre post, preempt_victims vfilter st p = pre ++ v :: post).
Proof.
  intros vfilter st p v I P F. split.
  - intros Q. apply reclaim_victim_listed; assumption.
  - intros Q L. apply preempt_victim_listed; assumption.
Qed.
Print Assumptions C05_eligible_victims_are_listed.

(** Non-vacuity of the progress theorems: concrete clusters on which the
    hypotheses hold and the committed statement is computed. *)
Theorem C05_progress_nonvacuous :
  (reclaim_victims w_vfilter z_st z_p = [] ++ mkRJ 10 2 50 true 1 :: [mkRJ 11 2 50 true 2]
   /\ scenario_good w_true3 w_true3 w_ahead z_st z_p ([] ++ [mkRJ 10 2 50 true 1]) (mkRJ 10 2 50 true 1)
   /\ vs_log (fst (reclaim_action w_vfilter w_true3 w_true3 w_ahead true w_pending w_true2 z_st [z_p]))
      = [mkCommit 1 [10%positive] 1])
  /\ (preempt_victims w_vfilter z_st2 z_p2 = [] ++ mkRJ 10 1 50 true 1 :: []
      /\ scenario_good w_true3 w_true3 w_ahead z_st2 z_p2 ([] ++ [mkRJ 10 1 50 true 1]) (mkRJ 10 1 50 true 1)
      /\ vs_log (fst (preempt_action w_vfilter w_true3 w_true3 w_ahead true w_pending w_np_gate z_st2 [z_p2]))
         = [mkCommit 1 [10%positive] 1]).
Proof. split; [exact z_reclaim_nonvacuous|exact z_preempt_nonvacuous]. Qed.
Print Assumptions C05_progress_nonvacuous.

(** The signature shortcut: "a job skipped by IsEasierToSchedule against a
    failed representative of its queue would itself have failed". *)
Definition C05_signature_shortcut_sound : Prop :=
  signature_shortcut_sound_preempt /\ signature_shortcut_sound_reclaim.

(** It does not hold, neither for preempt nor for reclaim: a non-preemptible
    job refused by its quota gate (preempt) / by the validator (reclaim)
    becomes the representative, and a preemptible job with the same pods, for
    which a victim and a valid scenario exist, is skipped. *)
Theorem C05_signature_shortcut_sound_refuted :
  ~ signature_shortcut_sound_preempt /\ ~ signature_shortcut_sound_reclaim.
Proof. split; [exact signature_shortcut_preempt_refuted_proof|exact signature_shortcut_reclaim_refuted_proof]. Qed.
Print Assumptions C05_signature_shortcut_sound_refuted.

(** It holds for a skipped job [p] of the preempt loop when the filters,
    validators and gates look at a pending job only through its queue, its
    priority and its preemptibility (in the class of the model every pending
    job's allocation unit is its one pending pod), every job popped before
    [p] with the queue and signature key of [p] has the priority and the
    preemptibility of [p], and no statement was committed since those jobs
    failed. *)
Theorem C05_signature_shortcut_sound_partial :
  forall vfilter sfilter valid ahead pending np_gate st0 before p,
    oracles_extensional vfilter sfilter valid ahead np_gate ->
    Forall (fun q => preempt_try vfilter sfilter valid ahead np_gate st0 q = None
                     /\ (pj_queue q = pj_queue p -> pj_sig q = pj_sig p ->
                         pj_prio q = pj_prio p /\ pj_preempt q = pj_preempt p)) before ->
    let s := preempt_action vfilter sfilter valid ahead true pending np_gate st0 before in
    skipped true pending (snd s) p = true ->
    preempt_try vfilter sfilter valid ahead np_gate (fst s) p = None.
Proof. exact signature_shortcut_sound_same_class. Qed.
Print Assumptions C05_signature_shortcut_sound_partial.

(** The failed representatives are kept PER QUEUE (reclaim.go / preempt.go:
    [smallestFailedJobsByQueue[job.Queue]]).  For all job lists, pop orders
    and oracle answers: when the preempt loop skips a popped job [p] by the
    shortcut, the representative it was compared with is a job [r] of the
    queue of [p] with the key of [p], popped earlier in this run of the
    action, that was not skipped itself and whose own attempt (quota gate +
    solver) failed in the state in which it was popped; [p] is not easier to
    schedule than [r].  A job is never skipped on account of a failed job of
    another queue. *)
Theorem C05_preempt_skip_is_on_account_of_own_queue :
  forall vfilter sfilter valid ahead use_sigs pending np_gate st0 before p,
    let step := preempt_step vfilter sfilter valid ahead use_sigs pending np_gate in
    skipped use_sigs pending (snd (fold_left step before (st0, []))) p = true ->
    exists b1 r b2, before = b1 ++ r :: b2
      /\ pj_queue r = pj_queue p /\ pj_sig r = pj_sig p
      /\ (let s1 := fold_left step b1 (st0, []) in
          skipped use_sigs pending (snd s1) r = false
          /\ preempt_try vfilter sfilter valid ahead np_gate (fst s1) r = None)
      /\ job_easier (pending p) (pending r) = false.
Proof. exact preempt_skip_own_queue. Qed.
Print Assumptions C05_preempt_skip_is_on_account_of_own_queue.

(** the same for the reclaim loop (a job refused by CanReclaimResources is
    never a representative) *)
Theorem C05_reclaim_skip_is_on_account_of_own_queue :
  forall vfilter sfilter valid ahead use_sigs pending can_reclaim st0 before p,
    let step := reclaim_step vfilter sfilter valid ahead use_sigs pending can_reclaim in
    skipped use_sigs pending (snd (fold_left step before (st0, []))) p = true ->
    exists b1 r b2, before = b1 ++ r :: b2
      /\ pj_queue r = pj_queue p /\ pj_sig r = pj_sig p
      /\ (let s1 := fold_left step b1 (st0, []) in
          can_reclaim (fst s1) r = true /\ skipped use_sigs pending (snd s1) r = false
          /\ reclaim_try vfilter sfilter valid ahead (fst s1) r = None)
      /\ job_easier (pending p) (pending r) = false.
Proof. exact reclaim_skip_own_queue. Qed.
Print Assumptions C05_reclaim_skip_is_on_account_of_own_queue.

(** Preempt / reclaim progress across queues, with NO hypothesis on the
    shortcut: when no job of the queue of [p] with the key of [p] was popped
    before [p] - whatever jobs of other queues were popped, and whether they
    failed and became representatives of their queues - [p] obtains capacity
    under the remaining hypotheses of C05_preempt_progress /
    C05_reclaim_progress, with scheduling signatures on or off. *)
Theorem C05_preempt_progress_across_queues :
  forall vfilter sfilter valid ahead use_sigs pending np_gate st0 before p after pre v post,
    Forall (fun r => pj_queue r <> pj_queue p \/ pj_sig r <> pj_sig p) before ->
    let s := fold_left (preempt_step vfilter sfilter valid ahead use_sigs pending np_gate) before (st0, []) in
    np_gate (fst s) p = true ->
    preempt_victims vfilter (fst s) p = pre ++ v :: post ->
    scenario_good sfilter valid ahead (fst s) p (pre ++ [v]) v ->
    exists cm, In cm (vs_log (fst (preempt_action vfilter sfilter valid ahead use_sigs pending np_gate st0
                                                  (before ++ p :: after))))
               /\ cm_job cm = pj_id p /\ cm_evicted cm <> [].
Proof. exact preempt_progress_across_queues. Qed.
Print Assumptions C05_preempt_progress_across_queues.

Theorem C05_reclaim_progress_across_queues :
  forall vfilter sfilter valid ahead use_sigs pending can_reclaim st0 before p after pre v post,
    Forall (fun r => pj_queue r <> pj_queue p \/ pj_sig r <> pj_sig p) before ->
    let s := fold_left (reclaim_step vfilter sfilter valid ahead use_sigs pending can_reclaim) before (st0, []) in
    can_reclaim (fst s) p = true ->
    reclaim_victims vfilter (fst s) p = pre ++ v :: post ->
    scenario_good sfilter valid ahead (fst s) p (pre ++ [v]) v ->
    exists cm, In cm (vs_log (fst (reclaim_action vfilter sfilter valid ahead use_sigs pending can_reclaim st0
                                                  (before ++ p :: after))))
               /\ cm_job cm = pj_id p /\ cm_evicted cm <> [].
Proof. exact reclaim_progress_across_queues. Qed.
Print Assumptions C05_reclaim_progress_across_queues.

(** Non-vacuity with two queues.  Two one-unit nodes; queue 1 runs a job of
    priority 75, queue 2 one of priority 50; each queue has an identical
    pending job of priority 75 (same key 7, same pod), signatures on.
    [q2_blocked] (queue 1) is popped first, has no victim, fails and becomes
    the representative of queue 1 (the map after it holds exactly that entry);
    [q2_victim] (queue 2) meets every hypothesis of
    C05_preempt_progress_across_queues and the action commits
    evict(job 11) + nomination on node 2 for it.  With ONE representative set
    for the whole action (the structure of the consolidation action:
    [preempt_step_shared]) the same input commits nothing: the statement is
    about the per-queue structure, not about any loop with a shortcut. *)
Theorem C05_per_queue_nonvacuous :
  Forall (fun r => pj_queue r <> pj_queue q2_victim \/ pj_sig r <> pj_sig q2_victim) [q2_blocked]
  /\ preempt_failed_at w_vfilter w_true3 w_true3 w_ahead true w_pending w_np_gate q2_st [] q2_blocked
  /\ (let s := fold_left (preempt_step w_vfilter w_true3 w_true3 w_ahead true w_pending w_np_gate) [q2_blocked] (q2_st, []) in
      snd s = [(1%positive, [(7%positive, (1%positive, [w_unit]))])]
      /\ w_np_gate (fst s) q2_victim = true
      /\ preempt_victims w_vfilter (fst s) q2_victim = [] ++ mkRJ 11 2 50 true 2 :: []
      /\ scenario_good w_true3 w_true3 w_ahead (fst s) q2_victim ([] ++ [mkRJ 11 2 50 true 2]) (mkRJ 11 2 50 true 2))
  /\ vs_log (fst (preempt_action w_vfilter w_true3 w_true3 w_ahead true w_pending w_np_gate q2_st [q2_blocked; q2_victim]))
     = [mkCommit 2 [11%positive] 2]
  /\ vs_log (fst (fold_left (preempt_step_shared w_vfilter w_true3 w_true3 w_ahead w_pending w_np_gate)
                            [q2_blocked; q2_victim] (q2_st, []))) = [].
Proof. exact q2_nonvacuous. Qed.
Print Assumptions C05_per_queue_nonvacuous.

(** * The reclaim clause on queue trees of any depth

    C05_reclaim_progress holds for every CanReclaimResources / validator
    oracle, hence for hierarchies of every depth.  The statements below say
    what the proportion plugin's answers (Model/Reclaim.v, C07's model of
    plugins/proportion/reclaimable, run on the numbers of the queue tree:
    Model/ProgressTree.v) are on a tree whose leaves may sit at different
    depths. *)

(** The level on which a reclaimer and a victim compete.  For every queue
    forest without a parent cycle and two queues whose root-to-leaf paths -
    of ANY lengths, equal or not - share a prefix [ca] / [cb] (the same queues)
    and then continue with two different queues [x] and [y]: getLeveledQueues
    returns exactly ([x], [y]), and it is what [level_of] (the monitor's
    divergence level) computes. *)
Theorem C05_reclaim_level_is_divergence :
  forall qs a b ca cb x ra y rb,
    ReclaimSpec.acyclicb (map to_rq qs) = true ->
    path_q qs a = ca ++ x :: ra -> path_q qs b = cb ++ y :: rb ->
    map pq_id ca = map pq_id cb -> pq_id x <> pq_id y ->
    level_of qs a b = Some (x, y) /\
    Reclaim.leveled (map to_rq qs) a b = Reclaim.Ok (Some (to_rq x, to_rq y)).
Proof. exact level_is_divergence_of_paths. Qed.
Print Assumptions C05_reclaim_level_is_divergence.

(** The reclaim clause in numbers makes the plugin say yes, whatever the depth
    of the tree and of the queues involved.  [victims]: the leaf queues of the
    evicted pods of a scenario (one entry per pod).  If the reclaimer's leaf
    queue stays within its fair share with the pod added (the gate), every
    level of its chain stays within its fair share once the victims below that
    level are taken and the pod is added (a non-preemptible reclaimer: the
    non-preemptible part within the deserved quota at every level), and for
    every victim, on the level where its path and the reclaimer's diverge, the
    reclaimer's side stays within its deserved quota and the victims' side
    holds more than its finite deserved quota even after all other victims
    were taken from it - then CanReclaimResources and Reclaimable both answer
    yes (no panic, no endless parent walk). *)
Theorem C05_reclaim_accepted_on_tree :
  forall qs leaf preemptible victims,
    ReclaimSpec.acyclicb (map to_rq qs) = true ->
    leaf_gate_good qs leaf ->
    Forall (level_good qs preemptible victims) (chain_q qs leaf) ->
    Forall (fun k => reclaimer_level_within qs leaf k = true /\
                     victim_level_above qs leaf k (Z.of_nat (List.length victims) - 1) = true) victims ->
    tree_can_reclaim qs leaf preemptible = true /\ tree_reclaimable qs leaf preemptible victims = true.
Proof.
  intros qs leaf pr victims A G C V. split.
  - exact (tree_can_reclaim_accepts qs leaf pr victims G C).
  - exact (tree_reclaimable_accepts qs leaf pr victims A C V).
Qed.
Print Assumptions C05_reclaim_accepted_on_tree.

(** Reclaim progress with the plugin's gate and validator on the queue tree
    ([books st]: the tree with the allocation of state [st]) in place of the
    oracles: in the state in which [p] is popped, the numeric clause for the
    scenario [pre ++ [v]] (its evicted victims: the potential victims on the
    node of [v]) and the remaining side conditions of C05_reclaim_progress
    give the committed statement. *)
Theorem C05_reclaim_progress_on_tree :
  forall books vfilter sfilter ahead use_sigs pending st0 before p after pre v post,
    let can := tree_gate books in
    let valid := tree_valid books in
    let s := fold_left (reclaim_step vfilter sfilter valid ahead use_sigs pending can) before (st0, []) in
    let qs := books (fst s) in
    let ev := scenario_victims (pre ++ [v]) v in
    ReclaimSpec.acyclicb (map to_rq qs) = true ->
    leaf_gate_good qs (pj_queue p) ->
    Forall (level_good qs (pj_preempt p) ev) (chain_q qs (pj_queue p)) ->
    Forall (fun k => reclaimer_level_within qs (pj_queue p) k = true /\
                     victim_level_above qs (pj_queue p) k (Z.of_nat (List.length ev) - 1) = true) ev ->
    skipped use_sigs pending (snd s) p = false ->
    reclaim_victims vfilter (fst s) p = pre ++ v :: post ->
    sfilter (fst s) p (pre ++ [v]) = true ->
    ahead (fst s) p (filter (on_node (rj_node v)) (pre ++ [v])) = O ->
    (exists n, In n (vs_nodes (fst s)) /\ sn_id n = rj_node v /\ 0 <= sn_idle n + sn_rel n) ->
    exists cm, In cm (vs_log (fst (reclaim_action vfilter sfilter valid ahead use_sigs pending can st0
                                                  (before ++ p :: after))))
               /\ cm_job cm = pj_id p /\ cm_evicted cm <> [].
Proof. exact reclaim_progress_on_tree. Qed.
Print Assumptions C05_reclaim_progress_on_tree.

(** Non-vacuity on a tree of mixed depth (numbers of a real session): org
    (top-level, unlimited) with the leaf over-quota-queue (deserved 2, four
    preemptible pods) directly below it and the pending job's leaf team1
    (deserved 2, empty) one level deeper, below dept1 (deserved 2).  The two
    paths have lengths 3 and 2 and diverge at (dept1, over-quota-queue); every
    hypothesis of C05_reclaim_progress_on_tree holds and the action commits
    evict + nomination.  Climbing both queues in lock step (right only for
    leaves of equal depth) ends at (dept1, org): nothing can be taken from the
    unlimited root. *)
Theorem C05_mixed_depth_nonvacuous :
  path_q mx_qs 1 = [mx_org; mx_dept1; mx_team1] /\ path_q mx_qs 2 = [mx_org; mx_over]
  /\ level_of mx_qs 1 2 = Some (mx_dept1, mx_over)
  /\ ReclaimSpec.acyclicb (map to_rq mx_qs) = true
  /\ leaf_gate_good mx_qs 1
  /\ Forall (level_good mx_qs true [2%positive]) (chain_q mx_qs 1)
  /\ Forall (fun k => reclaimer_level_within mx_qs 1 k = true /\ victim_level_above mx_qs 1 k 0 = true) [2%positive]
  /\ scenario_victims ([] ++ [mkRJ 10 2 50 true 1]) (mkRJ 10 2 50 true 1) = [2%positive]
  /\ vs_log (fst (reclaim_action w_vfilter w_true3 (tree_valid mx_books) w_ahead true w_pending
                                 (tree_gate mx_books) mx_st [mx_p])) = [mkCommit 1 [10%positive] 1]
  /\ lockstep 4 mx_qs mx_team1 mx_over = (mx_dept1, mx_org)
  /\ Reclaim.fits_strategy unit_res (to_rq mx_dept1) (to_rq mx_org) (Reclaim.alloc_vec (to_rq mx_org)) = false.
Proof. exact mixed_depth_nonvacuous. Qed.
Print Assumptions C05_mixed_depth_nonvacuous.

(** * Work conservation when the API server refuses bind requests

    Model/ProgressFaults.v: the allocate loop with Statement.Commit under a
    failure oracle [f] (is the k-th Cache.Bind call of the action refused?).  A
    refused Bind un-allocates THAT pod (Statement.commitAllocate ->
    cleanupFailedAllocation), the remaining operations of the statement are
    dropped, Commit returns the error, the job is not pushed back, and the
    action goes on with the next job ([carry_on = true]: allocate.go as it is). *)

(** The fault-free statement with "or one of its binds was refused" as the
    only new escape: for all oracles, gates, node orders, pop orders AND ALL
    FAILURE ORACLES, a job that is out of the loop with an allocation unit left
    either had a Bind of its own refused in this run of the action, or its unit
    cannot be bound as a whole on the idle, non-nominated capacity that is left
    while the job-level capacity gate would let it through.  (A refused Bind
    gives back exactly what the pod took, so the capacity a refused job saw can
    only have shrunk: Proofs/ProgressFaults.v, [attempt_commit_shrinks].) *)
Theorem C05_work_conservation_under_bind_faults :
  forall pred tgate gate nord gsel shouldpipe f st0 order,
    gate_antitone gate -> gate_implies_tgate tgate gate -> covers nord (map fst (ls_nodes st0)) -> wf_state st0 ->
    let fs := allocate_action_f pred tgate gate nord gsel shouldpipe true f st0 order in
    let st := fs_ls fs in
    forall j c rest, In j (ls_jobs st) -> js_failed j = true -> js_todo j = c :: rest ->
      homogeneous pred c -> NoDup (map t_id c) ->
      (forall t, In t c -> forall nid n, alookup nid (ls_nodes st) = Some n -> amem (t_id t) (n_pods n) = false) ->
      was_hit (fs_calls fs) (js_id j) = true
      \/ ~ (gate (ls_hist st) (js_id j) c = true /\ fits_all pred (ls_nodes st) c).
Proof. exact (work_conservation_faults_proof true). Qed.
Print Assumptions C05_work_conservation_under_bind_faults.

(** EVERY workload that is still pending: for a pop order that empties the
    queue of the loop (the real loop runs until JobsOrderByQueues is empty), every
    job that has an allocation unit left after the action had a Bind refused or
    does not fit / does not pass its queues' gate. *)
Theorem C05_every_pending_workload_accounted_under_bind_faults : every_pending_accounted true.
Proof. exact every_pending_accounted_proof. Qed.
Print Assumptions C05_every_pending_workload_accounted_under_bind_faults.

(** It does NOT hold for the loop that leaves Execute at the first failed commit
    ([carry_on = false]; not the code).  Witness (the world of seeded/C05-4's
    README): one node with 3 GPUs, three queues, one 1-GPU job each, pop order
    1, 2, 3, the first Bind refused: jobs 2 and 3 are never attempted, no Bind
    of theirs was refused, three GPUs are idle. *)
Theorem C05_stop_at_first_failed_commit_refuted : ~ every_pending_accounted false.
Proof. exact stop_at_first_failed_commit_refuted_proof. Qed.
Print Assumptions C05_stop_at_first_failed_commit_refuted.

(** Non-vacuity on the same world with the loop as it is: the refused pod's
    job is the only one left (it is accounted for by its refused Bind: it would
    fit), the two jobs ordered after it are bound, the queue is empty. *)
Notation C05_readme_run carry_on :=
  (allocate_action_f x_pred x_tgate x_gate g_nord x_gsel x_shouldpipe carry_on first_refused r_st0 r_order).
Theorem C05_bind_faults_nonvacuous :
  wf_state r_st0
  /\ fs_calls (C05_readme_run true) = [ABindRefused 1 1 1; ABind 2 2 1; ABind 3 3 1]
  /\ exhausted (fs_ls (C05_readme_run true)) = true
  /\ ls_jobs (fs_ls (C05_readme_run true)) = [mkJS 1 [r_unit 1] true; mkJS 2 [] false; mkJS 3 [] false]
  /\ was_hit (fs_calls (C05_readme_run true)) 1 = true
  /\ fits_seq x_pred (ls_nodes (fs_ls (C05_readme_run true))) (r_unit 1) [1%positive] = true.
Proof. split; [exact r_wf_state|exact r_carry_on]. Qed.
Print Assumptions C05_bind_faults_nonvacuous.

(** Faults only refuse, commit by commit (the pattern of C06's
    [faults_only_refuse]): the Cache calls of one Statement.Commit under any
    oracle - the refused call counted as made - are a prefix of the calls the
    same operations give without faults. *)
Theorem C05_bind_faults_only_refuse_within_a_commit :
  forall f jid ops kb kb' ns ns',
    exists rest, cr_calls (commit_f no_bind_faults jid kb' ns' ops)
                 = map as_accepted (cr_calls (commit_f f jid kb ns ops)) ++ rest.
Proof. exact commit_faults_only_refuse. Qed.
Print Assumptions C05_bind_faults_only_refuse_within_a_commit.

(** ... and the whole action is the fault-free action of
    C05_work_conservation_partial as long as no call is refused: under any
    oracle, a run in which no Bind was refused ends in the state of
    Model/Progress.v's loop; in particular under the oracle that refuses nothing. *)
Theorem C05_unhit_run_is_the_fault_free_run :
  forall pred tgate gate nord gsel shouldpipe carry_on f st0 order,
    hit_jobs (fs_calls (allocate_action_f pred tgate gate nord gsel shouldpipe carry_on f st0 order)) = [] ->
    fs_ls (allocate_action_f pred tgate gate nord gsel shouldpipe carry_on f st0 order)
    = allocate_action pred tgate gate nord gsel shouldpipe st0 order.
Proof. exact no_faults_is_fault_free. Qed.
Print Assumptions C05_unhit_run_is_the_fault_free_run.

Theorem C05_no_bind_faults_is_the_fault_free_action :
  forall pred tgate gate nord gsel shouldpipe carry_on st0 order,
    fs_ls (allocate_action_f pred tgate gate nord gsel shouldpipe carry_on no_bind_faults st0 order)
    = allocate_action pred tgate gate nord gsel shouldpipe st0 order.
Proof. exact no_bind_faults_fault_free. Qed.
Print Assumptions C05_no_bind_faults_is_the_fault_free_action.

(** Across commits the accepted binds are NOT those of the fault-free run
    restricted to the jobs that were not hit: a refused Bind gives the pod's
    capacity and quota back and a job ordered later takes them.  One node with
    1 GPU, two 1-GPU jobs: without faults job 1 is bound and job 2 refused; with
    the first Bind refused, job 2 - no Bind of which is refused - is bound. *)
Theorem C05_accepted_binds_monotone_refuted : ~ accepted_binds_monotone.
Proof. exact accepted_binds_monotone_refuted_proof. Qed.
Print Assumptions C05_accepted_binds_monotone_refuted.

(** What the theorems above call "capacity that is left" is the session's
    books.  Against the cluster as the API server knows it (operations dropped by
    a failed commit hold nothing there: [ground_truth]) the statement is FALSE:
    one node with 2 GPUs, gang a (two 1-GPU pods) ordered before gang b (two
    1-GPU pods), the Bind of a's first pod refused: a's second pod stays
    Allocated on the node in the session without any Cache call, b is refused
    for lack of one GPU, and nothing at all was bound.  Replayed on the real
    allocate action: known finding C05-failed-commit-leaves-unbound-pods-allocated. *)
Theorem C05_every_pending_accounted_at_api_server_refuted : ~ every_pending_accounted_at_api_server.
Proof. exact dropped_operations_hold_capacity_proof. Qed.
Print Assumptions C05_every_pending_accounted_at_api_server_refuted.

(** * Reclaim / preempt progress when the API server refuses evictions

    Model/ReclaimFaults.v: the reclaim and preempt loops with Statement.Commit
    under a failure oracle [f k v p] (is the k-th Cache.Evict call of the action,
    asking to evict the pod of running job [v] for preemptor [p], refused?).  A
    refused Evict un-evicts THAT pod (Statement.commitEvict -> evictOp.Reverse():
    the pod runs on, its node no longer counts its unit as releasing, it is
    charged to its queue again), Commit carries on with the remaining
    operations (further evictions, the nomination of the preemptor) and
    returns the error; the action logs it and goes on with the next job
    ([carry_on = true]: reclaim.go / preempt.go as they are). *)

(** C05_reclaim_progress with "one of its own evictions was refused" as the only
    new escape: for all oracles of the solver AND ALL EVICT-FAILURE ORACLES, a
    pending job that - in the state in which it is popped, i.e. with the victims
    the jobs served before it left - passes CanReclaimResources, is not skipped
    by the signature shortcut and has a good scenario among its victims, is
    nominated by the action (TaskPipelined), and its statement holds an accepted
    eviction unless an eviction requested FOR THIS JOB was refused.  What the API
    server refused to other jobs, earlier or later, is no escape. *)
Theorem C05_reclaim_progress_under_evict_faults : reclaim_progress_under_evict_faults true.
Proof. exact reclaim_progress_under_evict_faults_proof. Qed.
Print Assumptions C05_reclaim_progress_under_evict_faults.

(** the same for preempt *)
Theorem C05_preempt_progress_under_evict_faults :
  forall vfilter sfilter valid ahead use_sigs pending np_gate f st0 before p after pre v post,
    let s := fold_left (preempt_step_f vfilter sfilter valid ahead use_sigs pending np_gate true f) before (rf_init st0) in
    np_gate (rf_st s) p = true -> skipped use_sigs pending (rf_reps s) p = false ->
    preempt_victims vfilter (rf_st s) p = pre ++ v :: post ->
    scenario_good sfilter valid ahead (rf_st s) p (pre ++ [v]) v ->
    let fin := preempt_action_f vfilter sfilter valid ahead use_sigs pending np_gate true f st0 (before ++ p :: after) in
    exists cm, In cm (vs_log (rf_st fin)) /\ cm_job cm = pj_id p
               /\ nominated (rf_calls fin) (pj_id p) = true
               /\ (cm_evicted cm <> [] \/ evict_refused_for (rf_calls fin) (pj_id p) = true).
Proof. exact preempt_action_f_progress. Qed.
Print Assumptions C05_preempt_progress_under_evict_faults.

(** It does NOT hold for the loop that leaves Execute when a commit returned an
    error ([carry_on = false]; not the code).  Witness (the world of
    seeded/C05-5's README): two 1-GPU nodes used by preemptible pods 10 / 11 of
    queue 3 (deserved 0), queues 1 and 2 with one pending job each (1, 2), the
    first Evict refused: job 1 is nominated, job 2 is never attempted although
    pod 11 runs on and every later eviction would be accepted. *)
Theorem C05_stop_at_first_failed_reclaim_commit_refuted : ~ reclaim_progress_under_evict_faults false.
Proof. exact stop_at_first_failed_reclaim_commit_refuted_proof. Qed.
Print Assumptions C05_stop_at_first_failed_reclaim_commit_refuted.

(** Non-vacuity on the same world with the loop as it is: the refused victim
    runs on (its node keeps the nomination of job 1 and counts -1 releasing), job
    2 evicts the other pod and is nominated, none of ITS evictions was refused;
    the loop that stops issues the first two calls only. *)
Theorem C05_evict_faults_nonvacuous :
  (rf_calls (e_run true) = [EEvictRefused 10 1; EPipe 1 2; EEvict 11 2; EPipe 2 1]
   /\ vs_running (rf_st (e_run true)) = [mkRJ 10 3 50 true 2]
   /\ vs_nodes (rf_st (e_run true)) = [mkSN 1 0 0; mkSN 2 0 (-1)]
   /\ vs_log (rf_st (e_run true)) = [mkCommit 2 [11%positive] 1; mkCommit 1 [] 2]
   /\ evict_refused_for (rf_calls (e_run true)) 2 = false)
  /\ (rf_calls (e_run false) = [EEvictRefused 10 1; EPipe 1 2]
      /\ vs_running (rf_st (e_run false)) = [mkRJ 10 3 50 true 2; mkRJ 11 3 50 true 1]
      /\ nominated (rf_calls (e_run false)) 2 = false).
Proof. split; [exact e_carry_on|exact e_stop]. Qed.
Print Assumptions C05_evict_faults_nonvacuous.

(** A refused eviction is an escape only for the job it was requested for: the
    Cache calls the step of job [p] adds never count as a refusal for another
    job [q], under any oracle and either loop variant. *)
Theorem C05_refused_evictions_excuse_only_their_preemptor :
  forall vfilter sfilter valid ahead use_sigs pending can_reclaim carry_on f s p q,
    pj_id p <> q ->
    evict_refused_for (rf_calls (reclaim_step_f vfilter sfilter valid ahead use_sigs pending can_reclaim carry_on f s p)) q
    = evict_refused_for (rf_calls s) q.
Proof. exact (fun vf sf va ah us pe cr co f => reclaim_step_f_refusals_are_own vf sf va ah us pe cr f co). Qed.
Print Assumptions C05_refused_evictions_excuse_only_their_preemptor.

(** ... and the faulty loop is the loop of C05_reclaim_progress when nothing is refused. *)
Theorem C05_no_evict_faults_is_the_fault_free_reclaim :
  forall vfilter sfilter valid ahead use_sigs pending can_reclaim carry_on st0 ps,
    let fin := reclaim_action_f vfilter sfilter valid ahead use_sigs pending can_reclaim carry_on no_evict_faults st0 ps in
    (rf_st fin, rf_reps fin) = reclaim_action vfilter sfilter valid ahead use_sigs pending can_reclaim st0 ps.
Proof. exact no_evict_faults_fault_free. Qed.
Print Assumptions C05_no_evict_faults_is_the_fault_free_reclaim.
