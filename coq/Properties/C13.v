(** C13 — What-if simulations are transactional.
    Statements only; proofs are in Proofs/Session.v and Proofs/SessionLog.v, the
    model of framework.Statement in Model/Session.v.

    [step fails s c] runs one statement command ([fails]: which Cache call
    fails); [Session.run] a program.  [open_cmd]: the statement is still open (no
    Commit, no ConvertAllAllocatedToPipelined — the allocate action follows that
    one by Commit at once).  [state_at fails S prog cp] is the session as it was
    when the outstanding checkpoint [cp] was taken.

    [wf_from tok fails stk conv s prog] is the decidable well-formedness predicate
    (Model/Session.v, [wf_cmd]).  Since the repair 83a0ca3, completed by bce7109
    (Statement.Evict leaves a task that is already Releasing alone, whichever copy
    of the pod it is handed) it has NO clause on repeated
    evictions: Evict may be applied to ANY pod of the session that is Releasing -
    evicted before by this statement (any number of times), by an earlier
    statement, or terminating in the snapshot - at any point, also between a
    checkpoint and its rollback.  The clauses that remain, and why:
      Evict p       p is in the session; either p is Releasing (the command is
                    ignored: nothing else is asked, not even of the snapshot), or
                    p is active allocated, is not placed by this statement (the
                    actions evict running pods; a pod the statement itself
                    nominated or allocated is not Releasing, the repair does not
                    cover evicting it) and the snapshot is consistent where Evict
                    reads it (the node's copy of the pod equals the job's pod, the
                    job's index bucket of the pod's status is populated, the
                    node's pod map is sorted, the pod's accepted resources are
                    those of its node).  The former clause "p has no valid evict
                    entry yet" is gone: it is now a theorem
                    ([C13_no_valid_eviction_unless_releasing]).
      Allocate p n  p is Pending, sits on no node, is not placed by this
                    statement (at most one placement per pod is a property of
                    what the actions ask for, not of the code: Statement.Allocate
                    / Pipeline do not refuse a second placement), snapshot
                    consistent on n.
      Pipeline p n  p is Pending as for Allocate, or p was evicted by this
                    statement (Releasing, virtual, its earliest valid evict entry
                    describes where it sits: that is what the un-evict branch and
                    the rollback of a re-placement read), not placed yet.
      Unevict p     p was evicted by this statement (as above): Unevict of a pod
                    without valid eviction is an error in the code.
      Rollback cp   cp is an outstanding checkpoint of this statement.
      Convert j     only allocations and nominations in the statement; only
                    Commit may follow.
      Checkpoint, Discard, Commit: always.
    The snapshot-consistency parts are evaluated on every generated program by the
    correspondence check (they are facts about cycle.Build sessions, not
    restrictions on the program).

    The full statements are false of the code (and of the model, which agrees
    with the code on these programs): see the [_refuted] theorems and the
    witnesses.  What is proved instead ([_partial]): everything is restored
    except
      - the whole-GPU idle / releasing counts and the releasing marks of nodes
        (known finding C14-device-guard; the per-group maps are compared through
        [zget]: a discarded simulation leaves zero entries behind), and
      - the GPU groups recorded in the pod itself while it is a shared pod that
        holds nothing (Pending, or evicted by the simulation): the callers assign
        [GPUGroups] before Statement.Pipeline / Allocate and unpipeline /
        unallocate restore the assigned value;
    and exactly everything on nodes when no shared-GPU pod is operated on
    ([_nonshared]).  An ignored Evict has nothing to undo: Rollback and Discard
    restore the same things in programs that evict pods again.

    Commit emits at most one eviction per pod whatever is evicted how often
    ([C13_commit_at_most_once], [C13_commit_no_pod_evicted_twice]); before the
    repair the same pod evicted twice was sent to Cache.Evict twice
    ([C13_commit_double_evict_before_repair], on the model with the former Evict;
    [C13_commit_evict_twice_emits_one] is the same program on the model as it is).

    Section 4 ties Commit to a specification that does not look at the
    operation log at all (Model/SessionSpec.v): [valid_steps fails S prog] is
    computed from the commands of [prog] and, for each command, the place of
    its pod before the command (Evict adds a valid eviction unless the pod is
    already Releasing; Unevict, or Pipeline onto the pod's own node and devices,
    withdraws the pod's earliest valid eviction; Rollback goes back to the valid
    steps of the checkpoint; Discard empties).  The valid steps never hold two
    steps of one kind for one pod ([C13_valid_steps_at_most_once]); Commit emits
    exactly one call per valid step, of its kind, in order - nothing for a pod
    whose evictions were all undone ([C13_commit_log_spec]); and an Unevict that
    withdraws the only valid eviction of a pod is a rollback of that eviction
    ([C13_unevict_restores]).

    Section 5 is the metamorphic reading of "abandoned scenarios can neither
    influence later decisions nor reach the cluster": ERASURE.  [erase fails S
    prog] (Model/SessionErase.v) is [prog] without the commands its Rollbacks /
    Discards undo and without the Checkpoint / Rollback / Discard commands
    themselves (which commands a Rollback undoes is read off the run, as
    Statement.Rollback does: a checkpoint is the length of the operation log).
    For every session, every failure oracle and every well-formed open statement
    [prog] - nested checkpoints, shared-GPU pods in the rolled back parts,
    un-evictions, Discards - the session reached by [prog] and the session reached
    by [erase prog] are related by the relation of [C13_rollback_restores_partial]
    (which includes the accepted resources [p_qc] and the device memory of every
    pod that holds resources), have the SAME operation log - every recorded entry,
    in particular the clones of the allocate entries with the node, GPU groups and
    accepted resources Commit hands to Cache.Bind ([commit_payload]) - and the same
    call counter; and Commit emits the same calls after both, whatever fails
    ([C13_erasure_partial], [C13_erasure_open]).  The full statement (whole
    programs with several statements, final sessions related) is refuted
    ([C13_erasure_refuted]): once the eviction of a shared pod is committed the
    pod is no longer virtual, and the GPU groups a rolled back nomination left in
    it (the second exception above) are then outside what the relation masks;
    what is missing for programs of several statements is the same development
    over a relation that masks the GPU groups / accepted resources of Releasing
    shared pods whatever their virtual flag.  Two model variants show what the
    theorem excludes: NodeInfo.setAcceptedResources memoised (seeded change C13-2)
    hands Cache.Bind the portion of the abandoned node
    ([C13_erasure_violated_by_memoised_accepted_resource]); Commit as it was
    before 5a5de9a, un-evicting a refused eviction with what the pod object
    carried at commit time, put the pod back under the GPU groups of an abandoned
    nomination ([C13_erasure_refused_eviction_before_repair]; found by the erasure
    clause of the monitor on the real Statement, repaired).

    SOLVER LEVEL (section 7).  Statement can be correct and its user not: the by-pod solver
    (actions/common/solvers/by_pod_solver.go) tries the nodes of the latest potential victim
    job one at a time, each attempt = [checkpoint; evict the potential victims that touch the
    node; simulate; on failure roll back to the checkpoint]; a scenario without solution is
    discarded.  Model/SolverLoop.v is that loop on top of the statement machine, with the
    simulation as an oracle (session -> placing commands, success).  For ALL sessions, ALL
    attempt lists and ALL oracles (issuing well-formed commands): the erased program of what
    the loop issues is the recorded victims' evictions followed by the commands of the
    successful attempt alone - or nothing ([C13_solver_loop_erases_to_successful_attempt]);
    the session after the loop is related to the one reached by the successful attempt alone,
    with the same operation log and call counter ([C13_solver_failed_attempts_leave_no_trace]),
    Commit emits the same calls ([C13_solver_commit_emits_successful_attempt_only]); when no
    attempt succeeds the final Discard leaves a session related to the one the statement began
    in ([C13_solver_no_solution_restores]).  The loop with the checkpoint taken AFTER the
    evictions (the seeded change C13-4) is refuted on the world of its README: the eviction
    of a pod that only the abandoned attempt touched stays in the log and is committed
    ([C13_solver_checkpoint_after_evictions_refuted], [..._commits_abandoned_eviction]).
    The monitor evaluates the same statement on the RESULT of the real solver (Run/C13.v
    [solve_monitor]: Evict calls = reported victims, session after Solve = the reported
    scenario applied by hand). *)
From Coq Require Import List ZArith PArith Bool.
From KaiV Require Import Model.Res Model.Status Model.AMap Model.Node Model.NodeSpec Model.Session Model.SessionSpec
  Model.SessionErase Model.SessionClaims Model.SolverLoop Proofs.Node Proofs.Session Proofs.SessionLog Proofs.SessionErase
  Proofs.SessionClaims Proofs.SolverLoop.
Import ListNotations.

(** ** 1. Rollback to a checkpoint *)

(** the full statement: the whole projection is restored *)
Definition C13_rollback_restores : Prop :=
  forall (fails : nat -> bool) (S : sess) (prog : list cmd) (cp : nat),
    s_log S = [] -> s_stuck S = false -> forallb open_cmd prog = true ->
    wf_from any_task fails [] false S (prog ++ [Rollback cp]) = true ->
    exists x, state_at fails S prog cp = Some x
              /\ project x = project (Session.run fails S (prog ++ [Rollback cp])).

Theorem C13_rollback_restores_refuted : ~ C13_rollback_restores.
Proof. exact rollback_restores_refuted. Qed.
Print Assumptions C13_rollback_restores_refuted.

(** witness 1 (device-count guard, under the exposure condition of
    Model/NodeSpec.v): a 2-GPU pod is nominated on a node, a shared pod of the
    node is evicted and the eviction rolled back; one idle GPU is lost *)
Theorem C13_rollback_device_guard_witness :
  let prog := [Pipeline 9 1 None false; Checkpoint; Evict 3] in
  wf_from any_task nofail [] false w1_init (prog ++ [Rollback 1]) = true
  /\ forallb open_cmd prog = true
  /\ (exists x, state_at nofail w1_init prog 1 = Some x /\ gpu (n_idle (node1 x)) = 1%Z
        /\ exists t, alookup 3%positive (n_pods (node1 x)) = Some t /\ exposed (tasks_of (node1 x)) t = true)
  /\ gpu (n_idle (node1 (Session.run nofail w1_init (prog ++ [Rollback 1])))) = 0%Z.
Proof. exact rollback_device_guard_witness. Qed.
Print Assumptions C13_rollback_device_guard_witness.

(** witness 2: a nomination onto a device whose only sharer is terminating is
    withdrawn; the releasing GPU is lost *)
Theorem C13_rollback_releasing_device_witness :
  wf_from any_task nofail [] false w9_init w9_prog = true
  /\ gpu (n_rel (node1 w9_init)) = 1%Z
  /\ gpu (n_rel (node1 (Session.run nofail w9_init w9_prog))) = 0%Z.
Proof. exact rollback_releasing_device_witness. Qed.
Print Assumptions C13_rollback_releasing_device_witness.

(** witness 3: a rolled-back nomination of a Pending fractional pod leaves the
    pod's GPU groups set *)
Theorem C13_rollback_stale_groups_witness :
  wf_from any_task nofail [] false w2_init w2_prog = true
  /\ w2_prog = [Checkpoint; Pipeline 3 1 (Some [7%positive]) false; Rollback 0]
  /\ option_map p_groups (get_pod w2_init 3) = Some []
  /\ option_map p_groups (get_pod (Session.run nofail w2_init w2_prog) 3) = Some [7%positive]
  /\ option_map p_status (get_pod (Session.run nofail w2_init w2_prog) 3) = Some Pending.
Proof. exact rollback_stale_groups_witness. Qed.
Print Assumptions C13_rollback_stale_groups_witness.

(** What is restored.  [srel neq x y] is spelled out by [C13_restored_meaning]. *)
Theorem C13_rollback_restores_partial :
  forall (fails : nat -> bool) (S : sess) (prog : list cmd) (cp : nat),
    s_log S = [] -> s_stuck S = false -> forallb open_cmd prog = true ->
    wf_from any_task fails [] false S (prog ++ [Rollback cp]) = true ->
    exists x, state_at fails S prog cp = Some x
              /\ srel neq x (Session.run fails S (prog ++ [Rollback cp])).
Proof. exact rollback_restores_partial. Qed.
Print Assumptions C13_rollback_restores_partial.

(** jobs (Allocated, activeAllocatedCount, index sizes, pod-set counters) and
    queue usage (Allocated and AllocatedNotPreemptible of every queue) are equal
    in the projection; every pod has the same status, node, virtual flag, and
    the same GPU groups unless it is a shared pod holding nothing; every node
    has the same allocatable, used, pod copies (status and groups of each),
    idle / releasing except the whole-GPU column, and per-group used /
    allocated / releasing memory *)
Theorem C13_restored_meaning : forall (x y : sess),
  srel neq x y ->
  d_jobs (project x) = d_jobs (project y)
  /\ d_queues (project x) = d_queues (project y)
  /\ (forall pid,
        match get_pod x pid, get_pod y pid with
        | Some a, Some b =>
            p_status b = p_status a /\ p_node b = p_node a /\ p_virt b = p_virt a
            /\ (pmasked a = false -> p_groups b = p_groups a)
        | None, None => True
        | _, _ => False
        end)
  /\ (forall nid,
        match alookup nid (s_nodes x), alookup nid (s_nodes y) with
        | Some a, Some b =>
            n_alloc a = n_alloc b /\ n_used a = n_used b /\ n_pods a = n_pods b
            /\ eq_nogpu (n_idle a) (n_idle b) /\ eq_nogpu (n_rel a) (n_rel b)
            /\ (forall g, zget g (g_used a) = zget g (g_used b)
                          /\ zget g (g_alloc a) = zget g (g_alloc b)
                          /\ zget g (g_rel a) = zget g (g_rel b))
        | None, None => True
        | _, _ => False
        end).
Proof. exact restored_meaning. Qed.
Print Assumptions C13_restored_meaning.

(** when only pods that do not share a GPU are operated on, the nodes are
    restored exactly: every column of idle / used / releasing, the group maps
    and the releasing marks *)
Theorem C13_rollback_restores_nonshared :
  forall (fails : nat -> bool) (S : sess) (prog : list cmd) (cp : nat),
    s_log S = [] -> s_stuck S = false -> forallb open_cmd prog = true ->
    wf_from nonshared_b fails [] false S (prog ++ [Rollback cp]) = true ->
    exists x, state_at fails S prog cp = Some x
              /\ s_nodes x = s_nodes (Session.run fails S (prog ++ [Rollback cp]))
              /\ srel eq x (Session.run fails S (prog ++ [Rollback cp])).
Proof. exact rollback_restores_nonshared_nodes. Qed.
Print Assumptions C13_rollback_restores_nonshared.

(** ** 2. Discard *)
Definition C13_discard_restores : Prop :=
  forall (fails : nat -> bool) (S : sess) (prog : list cmd),
    s_log S = [] -> s_stuck S = false -> forallb open_cmd prog = true ->
    wf_from any_task fails [] false S (prog ++ [Discard]) = true ->
    project S = project (Session.run fails S (prog ++ [Discard])).

Theorem C13_discard_restores_refuted : ~ C13_discard_restores.
Proof. exact discard_restores_refuted. Qed.
Print Assumptions C13_discard_restores_refuted.

Theorem C13_discard_restores_partial :
  forall (fails : nat -> bool) (S : sess) (prog : list cmd),
    s_log S = [] -> s_stuck S = false -> forallb open_cmd prog = true ->
    wf_from any_task fails [] false S (prog ++ [Discard]) = true ->
    srel neq S (Session.run fails S (prog ++ [Discard]))
    /\ s_log (Session.run fails S (prog ++ [Discard])) = [].
Proof. exact discard_restores_partial_log. Qed.
Print Assumptions C13_discard_restores_partial.

Theorem C13_discard_restores_nonshared :
  forall (fails : nat -> bool) (S : sess) (prog : list cmd),
    s_log S = [] -> s_stuck S = false -> forallb open_cmd prog = true ->
    wf_from nonshared_b fails [] false S (prog ++ [Discard]) = true ->
    s_nodes S = s_nodes (Session.run fails S (prog ++ [Discard]))
    /\ srel eq S (Session.run fails S (prog ++ [Discard])).
Proof. exact discard_restores_nonshared_nodes. Qed.
Print Assumptions C13_discard_restores_nonshared.

(** ** 3. Commit *)

(** for every session and every failure oracle: a call is emitted only for a
    still-valid log entry of its kind and pod (nothing for undone operations),
    and the calls form a subsequence of the valid entries (at most one per entry) *)
Theorem C13_commit_only_valid : forall (fails : nat -> bool) (s : sess) (c : api_call),
  In c (snd (commit fails s)) ->
  exists i o, nth_error (s_log s) i = Some o /\ op_valid (s_log s) i = Some true /\ In (ckey c) (okey o).
Proof. exact commit_only_valid. Qed.
Print Assumptions C13_commit_only_valid.

Theorem C13_commit_subsequence : forall (fails : nat -> bool) (s : sess),
  subseq (map ckey (snd (commit fails s))) (vkeys (s_log s) (s_log s) 0).
Proof. exact commit_sub. Qed.
Print Assumptions C13_commit_subsequence.

(** after a well-formed open statement - in which Evict may have been applied to any Releasing pod,
    already evicted ones included, any number of times - Commit emits at most one eviction and at
    most one placement (Bind or TaskPipelined) per pod, whatever fails *)
Theorem C13_commit_at_most_once : forall (fails : nat -> bool) (S : sess) (prog : list cmd),
  s_log S = [] -> s_stuck S = false -> forallb open_cmd prog = true ->
  wf_from any_task fails [] false S (prog ++ [Commit]) = true ->
  NoDup (map ckey (snd (step fails (Session.run fails S prog) Commit))).
Proof. exact commit_once_run. Qed.
Print Assumptions C13_commit_at_most_once.

(** the same read on the calls: no pod is sent to Cache.Evict twice by one Commit *)
Theorem C13_commit_no_pod_evicted_twice : forall (fails : nat -> bool) (S : sess) (prog : list cmd),
  s_log S = [] -> s_stuck S = false -> forallb open_cmd prog = true ->
  wf_from any_task fails [] false S (prog ++ [Commit]) = true ->
  forall p pre mid post,
    snd (step fails (Session.run fails S prog) Commit) <> pre ++ AEvict p :: mid ++ AEvict p :: post.
Proof. exact commit_no_two_evictions. Qed.
Print Assumptions C13_commit_no_pod_evicted_twice.

(** what [wf_cmd] used to demand of an Evict is a consequence: in a well-formed open statement a
    pod that is not Releasing and that the statement has not placed has no valid evict entry
    ([no_valid_evict]: every evict entry of the pod in the operation log is undone) *)
Theorem C13_no_valid_eviction_unless_releasing : forall (fails : nat -> bool) (S : sess) (prog : list cmd) (pid : positive),
  s_log S = [] -> s_stuck S = false -> forallb open_cmd prog = true ->
  wf_from any_task fails [] false S (prog ++ [Evict pid]) = true ->
  releasing_in (Session.run fails S prog) pid = false ->
  has_placing (s_log (Session.run fails S prog)) pid = false ->
  no_valid_evict (s_log (Session.run fails S prog)) pid = true.
Proof. exact run_no_valid_evict. Qed.
Print Assumptions C13_no_valid_eviction_unless_releasing.

(** before the repair 83a0ca3 / bce7109 ([run_before_repair]: the commands with Statement.Evict as it was,
    without the test of the task's status): the same running pod evicted twice leaves two
    operations in the statement and is sent to Cache.Evict twice *)
Theorem C13_commit_double_evict_before_repair :
  option_map p_status (get_pod w3_init 3) = Some Running
  /\ length (s_log (run_before_repair nofail w3_init [Evict 3; Evict 3])) = 2%nat
  /\ snd (step nofail (run_before_repair nofail w3_init [Evict 3; Evict 3]) Commit) = [AEvict 3; AEvict 3].
Proof. exact commit_double_evict_before_repair. Qed.
Print Assumptions C13_commit_double_evict_before_repair.

(** the same program on the model of the code as it is: it is well-formed, the second Evict changes
    nothing and Commit emits ONE eviction; so it does with a checkpoint and a rollback around the
    second Evict; after [Evict 3; Evict 3; Unevict 3] nothing is emitted; [Evict 3; Evict 3; Discard]
    gives back the initial projection *)
Theorem C13_commit_evict_twice_emits_one :
  wf_from any_task nofail [] false w3_init ([Evict 3; Evict 3] ++ [Commit]) = true
  /\ forallb open_cmd [Evict 3; Evict 3] = true
  /\ Session.run nofail w3_init [Evict 3; Evict 3] = Session.run nofail w3_init [Evict 3]
  /\ snd (step nofail (Session.run nofail w3_init [Evict 3; Evict 3]) Commit) = [AEvict 3]
  /\ wf_from any_task nofail [] false w3_init ([Evict 3; Checkpoint; Evict 3; Rollback 1] ++ [Commit]) = true
  /\ snd (step nofail (Session.run nofail w3_init [Evict 3; Checkpoint; Evict 3; Rollback 1]) Commit) = [AEvict 3]
  /\ wf_from any_task nofail [] false w3_init ([Evict 3; Evict 3; Unevict 3] ++ [Commit]) = true
  /\ snd (step nofail (Session.run nofail w3_init [Evict 3; Evict 3; Unevict 3]) Commit) = []
  /\ wf_from any_task nofail [] false w3_init ([Evict 3; Evict 3] ++ [Discard]) = true
  /\ project (Session.run nofail w3_init ([Evict 3; Evict 3] ++ [Discard])) = project w3_init.
Proof. exact commit_evict_twice_once. Qed.
Print Assumptions C13_commit_evict_twice_emits_one.

(** ** 4. Commit and Unevict against the log-level specification (Model/SessionSpec.v)

    [valid_steps fails S prog]: the steps still valid after [prog] according to
    the command history; [expect_calls]: one (kind, pod) per valid step, kind =
    eviction / nomination / bind; [call_key]: kind and pod of an emitted call. *)

(** the still-valid steps of a well-formed open statement never hold two steps of one kind for one
    pod: at most one eviction per pod however often Evict was applied to it ([c]: the command
    that follows, any) *)
Theorem C13_valid_steps_at_most_once : forall (fails : nat -> bool) (S : sess) (prog : list cmd) (c : cmd),
  s_log S = [] -> s_stuck S = false -> forallb open_cmd prog = true ->
  wf_from any_task fails [] false S (prog ++ [c]) = true ->
  NoDup (expect_calls (valid_steps fails S prog)).
Proof. exact valid_steps_once. Qed.
Print Assumptions C13_valid_steps_at_most_once.

(** After a well-formed open statement on a session whose pod map is keyed by
    pod id, for every failure oracle: the calls of Commit are, in order, exactly
    the still-valid steps - every valid step is emitted, once, with its kind,
    and nothing is emitted for an undone step (a pod whose evictions were all
    undone is not evicted) - up to the end, or up to a Bind whose Cache call
    fails (Commit returns there). *)
Theorem C13_commit_log_spec : forall (fails : nat -> bool) (S : sess) (prog : list cmd),
  keyed_b S = true -> s_log S = [] -> s_stuck S = false -> forallb open_cmd prog = true ->
  wf_from any_task fails [] false S (prog ++ [Commit]) = true ->
  exists rest,
    expect_calls (valid_steps fails S prog) = map call_key (snd (step fails (Session.run fails S prog) Commit)) ++ rest
    /\ (rest = [] \/ exists pre p n g,
          snd (step fails (Session.run fails S prog) Commit) = pre ++ [ABind p n g]
          /\ fails (s_ncalls (Session.run fails S prog) + length pre)%nat = true).
Proof. exact commit_log_exact. Qed.
Print Assumptions C13_commit_log_spec.

(** when no Cache call fails: equality *)
Theorem C13_commit_log_spec_no_failure : forall (fails : nat -> bool) (S : sess) (prog : list cmd),
  (forall i, fails i = false) ->
  keyed_b S = true -> s_log S = [] -> s_stuck S = false -> forallb open_cmd prog = true ->
  wf_from any_task fails [] false S (prog ++ [Commit]) = true ->
  map call_key (snd (step fails (Session.run fails S prog) Commit)) = expect_calls (valid_steps fails S prog).
Proof. exact commit_log_exact_nofail. Qed.
Print Assumptions C13_commit_log_spec_no_failure.

(** without the assumption on the pod map, for every failure oracle: the calls
    with their kinds are a subsequence of the still-valid steps (nothing for an
    undone step, nothing twice, nothing of another kind, in order) *)
Theorem C13_commit_log_spec_only_valid : forall (fails : nat -> bool) (S : sess) (prog : list cmd),
  s_log S = [] -> s_stuck S = false -> forallb open_cmd prog = true ->
  wf_from any_task fails [] false S (prog ++ [Commit]) = true ->
  subseq (map call_key (snd (step fails (Session.run fails S prog) Commit)))
         (expect_calls (valid_steps fails S prog)).
Proof. exact commit_log_sound. Qed.
Print Assumptions C13_commit_log_spec_only_valid.

(** Evict p ... Unevict p in a well-formed open statement, where p is not
    Releasing when it is evicted (the Evict is not ignored; p then has no valid
    eviction before it, so the Unevict leaves p without a valid eviction) and
    what happened in between is no longer in effect (the log is again the one the eviction produced and the session is
    related to the one it produced: nothing or checkpoints in between, or steps
    that were rolled back): the session is related to the one BEFORE the
    eviction; [C13_restored_meaning] spells the relation out (every pod's
    status, node, virtual flag; every job's books; every queue's usage; nodes
    up to the whole-GPU columns). *)
Theorem C13_unevict_restores : forall (fails : nat -> bool) (S : sess) (prog mid : list cmd) (pid : positive),
  s_log S = [] -> s_stuck S = false -> forallb open_cmd (prog ++ Evict pid :: mid) = true ->
  wf_from any_task fails [] false S ((prog ++ Evict pid :: mid) ++ [Unevict pid]) = true ->
  releasing_in (Session.run fails S prog) pid = false ->
  s_log (Session.run fails S (prog ++ Evict pid :: mid)) = s_log (Session.run fails S (prog ++ [Evict pid])) ->
  srel neq (Session.run fails S (prog ++ [Evict pid])) (Session.run fails S (prog ++ Evict pid :: mid)) ->
  srel neq (Session.run fails S prog) (Session.run fails S ((prog ++ Evict pid :: mid) ++ [Unevict pid])).
Proof. exact unevict_restores. Qed.
Print Assumptions C13_unevict_restores.

Theorem C13_unevict_restores_adjacent : forall (fails : nat -> bool) (S : sess) (prog : list cmd) (pid : positive),
  s_log S = [] -> s_stuck S = false -> forallb open_cmd prog = true ->
  wf_from any_task fails [] false S (prog ++ [Evict pid; Unevict pid]) = true ->
  releasing_in (Session.run fails S prog) pid = false ->
  srel neq (Session.run fails S prog) (Session.run fails S (prog ++ [Evict pid; Unevict pid])).
Proof. exact unevict_restores_adjacent. Qed.
Print Assumptions C13_unevict_restores_adjacent.

(** the hypotheses of [C13_unevict_restores] with something in between: evict
    pod 4, checkpoint, evict pod 6, roll back, un-evict pod 4 *)
Theorem C13_unevict_restores_rolled_back_witness :
  wf_from any_task nofail [] false w10_init (([] ++ Evict 4 :: wl_mid) ++ [Unevict 4]) = true
  /\ releasing_in w10_init 4 = false
  /\ srel neq w10_init (Session.run nofail w10_init (([] ++ Evict 4 :: wl_mid) ++ [Unevict 4])).
Proof. exact unevict_restores_rolled_back_witness. Qed.
Print Assumptions C13_unevict_restores_rolled_back_witness.

(** the specification on concrete statements: evict, un-evict, evict, un-evict
    of pod 3 leaves no valid step and Commit emits nothing; after the first
    three commands the second eviction is valid and Commit emits it; a statement
    with an eviction withdrawn by Pipeline onto the pod's own node (pod 4), an
    evicted pod nominated on another node (6) and a pending pod nominated (8) *)
Theorem C13_log_spec_nonvacuous :
  keyed_b w3_init = true
  /\ wf_from any_task nofail [] false w3_init (wl_twice ++ [Commit]) = true
  /\ valid_steps nofail w3_init wl_twice = []
  /\ snd (step nofail (Session.run nofail w3_init wl_twice) Commit) = []
  /\ valid_steps nofail w3_init (firstn 3 wl_twice) = [VEv 3 [] 2]
  /\ snd (step nofail (Session.run nofail w3_init (firstn 3 wl_twice)) Commit) = [AEvict 3]
  /\ keyed_b w10_init = true
  /\ wf_from any_task nofail [] false w10_init (w10_open ++ [Commit]) = true
  /\ nth_error w10_open 4 = Some (Pipeline 4 1 (Some [14%positive]) false)
  /\ valid_steps nofail w10_init w10_open = [VEv 6 [] 1; VPl false 8 1 2; VPl false 6 2 4]
  /\ snd (step nofail (Session.run nofail w10_init w10_open) Commit)
     = [AEvict 6; APipe 8 (Some 1%positive) []; APipe 6 (Some 2%positive) []].
Proof. exact log_spec_nonvacuous. Qed.
Print Assumptions C13_log_spec_nonvacuous.

(** Evict applied again to an evicted pod, and to a pod that is terminating in the snapshot (pod 5
    of W1): the history holds one eviction of pod 3 and Commit emits one, also with the second
    Evict between a checkpoint and its rollback; after Unevict no valid step is left; evicting
    the terminating pod is well-formed, leaves the session as it is and is never emitted *)
Theorem C13_log_spec_evict_again :
  valid_steps nofail w3_init [Evict 3; Evict 3] = [VEv 3 [] 0]
  /\ valid_steps nofail w3_init [Evict 3; Evict 3; Evict 3] = [VEv 3 [] 0]
  /\ valid_steps nofail w3_init [Evict 3; Checkpoint; Evict 3; Rollback 1] = [VEv 3 [] 0]
  /\ valid_steps nofail w3_init [Evict 3; Evict 3; Unevict 3] = []
  /\ wf_from any_task nofail [] false w3_init ([Evict 3; Evict 3; Evict 3] ++ [Commit]) = true
  /\ snd (step nofail (Session.run nofail w3_init [Evict 3; Evict 3; Evict 3]) Commit) = [AEvict 3]
  /\ option_map (fun p => (p_status p, p_virt p)) (get_pod w1_init 5) = Some (Releasing, false)
  /\ Session.run nofail w1_init [Evict 5] = w1_init
  /\ wf_from any_task nofail [] false w1_init ([Evict 5; Checkpoint; Evict 3; Evict 5; Evict 3] ++ [Commit]) = true
  /\ valid_steps nofail w1_init [Evict 5; Checkpoint; Evict 3; Evict 5; Evict 3] = [VEv 3 [16%positive] 0]
  /\ snd (step nofail (Session.run nofail w1_init [Evict 5; Checkpoint; Evict 3; Evict 5; Evict 3]) Commit) = [AEvict 3].
Proof. exact log_spec_evict_again. Qed.
Print Assumptions C13_log_spec_evict_again.

(** ** Non-vacuity *)
Theorem C13_nonvacuous :
  s_log w10_init = [] /\ s_stuck w10_init = false
  /\ forallb open_cmd w10_open = true
  /\ wf_from any_task nofail [] false w10_init (w10_open ++ [Rollback 1]) = true
  /\ length (s_log (Session.run nofail w10_init w10_open)) = 5%nat
  /\ length (s_log (Session.run nofail w10_init (w10_open ++ [Rollback 1]))) = 1%nat
  /\ wf_from any_task nofail [] false w10_init (firstn 9 w10_prog ++ [Commit]) = true
  /\ snd (step nofail (Session.run nofail w10_init (firstn 9 w10_prog)) Commit) <> []
  /\ wf_from nonshared_b nofail [] false w1_init ([Checkpoint; Evict 7; Pipeline 9 1 None false] ++ [Rollback 0]) = true.
Proof. exact session_nonvacuous. Qed.
Print Assumptions C13_nonvacuous.

(** the model distinguishes what a pod is charged on nodes with different GPU
    memory (a gpu-memory pod of 50 MiB is half a GPU on a 100 MiB device and a
    quarter on a 200 MiB one); the theorems above cover programs that move such
    pods between nodes *)
Theorem C13_hetero_nonvacuous :
  wf_from any_task nofail [] false w11_init w11_prog = true
  /\ exists p, get_pod w11_init 4 = Some p
       /\ option_map gpu (alookup 1%positive (p_qtab p)) = Some 500%Z
       /\ option_map gpu (alookup 2%positive (p_qtab p)) = Some 250%Z.
Proof. exact hetero_nonvacuous. Qed.
Print Assumptions C13_hetero_nonvacuous.

(** ** 5. Erasure: the program without its abandoned parts *)

(** the full statement: for whole programs (several statements), the calls of every Commit are those
    of the erased program and the final sessions are related *)
Definition C13_erasure : Prop :=
  forall (fails : nat -> bool) (S : sess) (P : list cmd),
    s_log S = [] -> s_stuck S = false -> wf_prog fails S P = true ->
    commit_calls fails S P = commit_calls fails S (erase fails S P)
    /\ srel neq (Session.run fails S P) (Session.run fails S (erase fails S P)).

Theorem C13_erasure_refuted : ~ C13_erasure.
Proof. exact erasure_refuted. Qed.
Print Assumptions C13_erasure_refuted.

(** one statement, every session keyed by pod id, every failure oracle, every well-formed open statement
    [prog] followed by Commit: related sessions before the Commit ([C13_restored_meaning] spells the
    relation out; a pod that holds resources is the same record on both sides, accepted resources
    included), the same operation log, the same clones handed to Cache.Bind (pod, node, GPU groups, accepted
    resources as the queue is charged, memory per device), the same calls from Commit; and the erased
    program of [prog ++ [Commit]] is the erased [prog] followed by Commit *)
Theorem C13_erasure_partial : forall (fails : nat -> bool) (S : sess) (prog : list cmd),
  keyed_b S = true -> s_log S = [] -> s_stuck S = false -> forallb open_cmd prog = true ->
  wf_from any_task fails [] false S (prog ++ [Commit]) = true ->
  srel neq (Session.run fails S prog) (Session.run fails S (erase fails S prog))
  /\ s_log (Session.run fails S prog) = s_log (Session.run fails S (erase fails S prog))
  /\ commit_payload (s_log (Session.run fails S prog)) = commit_payload (s_log (Session.run fails S (erase fails S prog)))
  /\ snd (step fails (Session.run fails S prog) Commit) = snd (step fails (Session.run fails S (erase fails S prog)) Commit)
  /\ erase fails S (prog ++ [Commit]) = erase fails S prog ++ [Commit].
Proof. exact erasure_partial. Qed.
Print Assumptions C13_erasure_partial.

(** the same without the assumption on the pod map and whatever command [c] follows (the statement may stay
    open): related sessions, same operation log, same call counter - what any later decision reads *)
Theorem C13_erasure_open : forall (fails : nat -> bool) (S : sess) (prog : list cmd) (c : cmd),
  s_log S = [] -> s_stuck S = false -> forallb open_cmd prog = true ->
  wf_from any_task fails [] false S (prog ++ [c]) = true ->
  srel neq (Session.run fails S prog) (Session.run fails S (erase fails S prog))
  /\ s_log (Session.run fails S prog) = s_log (Session.run fails S (erase fails S prog))
  /\ s_ncalls (Session.run fails S prog) = s_ncalls (Session.run fails S (erase fails S prog)).
Proof. exact erase_open. Qed.
Print Assumptions C13_erasure_open.

(** used for the calls of Commit: in a well-formed open statement every pod with a placing entry in the
    operation log is nominated or allocated in the session (so its record is the same after the erased
    program) *)
Theorem C13_placed_pods_are_placed : forall (fails : nat -> bool) (S : sess) (prog : list cmd) (c : cmd),
  s_log S = [] -> s_stuck S = false -> forallb open_cmd prog = true ->
  wf_from any_task fails [] false S (prog ++ [c]) = true ->
  forall pid, has_placing (s_log (Session.run fails S prog)) pid = true ->
    exists a, get_pod (Session.run fails S prog) pid = Some a /\ (p_status a = Pipelined \/ p_status a = Allocated).
Proof. exact placed_pods_are_placed. Qed.
Print Assumptions C13_placed_pods_are_placed.

(** non-vacuity on a heterogeneous-memory placement (corpus E1, the scenario of seeded/C13-2): nodes 1 / 2
    with one GPU of 8000 / 16000 MiB, pod 4 Pending asking for 4000 MiB.  [Checkpoint; Allocate 4 on node 1;
    Rollback; Allocate 4 on node 2] ++ [Commit] meets the hypotheses of [C13_erasure_partial]; the abandoned
    step charged the queue half a GPU; the erased program is [Allocate 4 on node 2]; Commit binds pod 4 on
    node 2; the clone handed to Cache.Bind carries a quarter of a GPU after the program and after the erased
    program, and the queue ends charged a quarter *)
Theorem C13_erasure_hetero_nonvacuous :
  keyed_b w12_init = true /\ s_log w12_init = [] /\ s_stuck w12_init = false /\ forallb open_cmd w12_open = true
  /\ wf_from any_task nofail [] false w12_init (w12_open ++ [Commit]) = true
  /\ erase nofail w12_init w12_open = [Allocate 4 2 (Some [9%positive])]
  /\ erase nofail w12_init w12_prog = [Allocate 4 2 (Some [9%positive]); Commit]
  /\ queue_gpu (Session.run nofail w12_init (firstn 2 w12_open)) 7 = Some 500%Z
  /\ snd (step nofail (Session.run nofail w12_init w12_open) Commit) = [ABind 4 2 [9%positive]]
  /\ payload_gpu (Session.run nofail w12_init w12_open) = [250%Z]
  /\ payload_gpu (Session.run nofail w12_init (erase nofail w12_init w12_open)) = [250%Z]
  /\ queue_gpu (Session.run nofail w12_init w12_prog) 7 = Some 250%Z
  /\ queue_gpu (Session.run nofail w12_init (erase nofail w12_init w12_prog)) 7 = Some 250%Z.
Proof. exact erasure_hetero_nonvacuous. Qed.
Print Assumptions C13_erasure_hetero_nonvacuous.

(** the model variant with MEMOISED accepted resources ([run_memoised]: NodeInfo.setAcceptedResources returns
    early once the pod's accepted resources are resolved - the seeded change C13-2 -, for Statement.Allocate)
    violates erasure on the same program: Cache.Bind is handed half a GPU (the portion of the abandoned
    node) and the queue is charged half a GPU, the erased program gives a quarter; the model as it is gives
    a quarter on both *)
Theorem C13_erasure_violated_by_memoised_accepted_resource :
  let S := clear_qc w12_init 4 in
  payload_gpu (run_memoised nofail S w12_open) = [500%Z]
  /\ payload_gpu (run_memoised nofail S (erase nofail S w12_open)) = [250%Z]
  /\ queue_gpu (run_memoised nofail S w12_prog) 7 = Some 500%Z
  /\ queue_gpu (run_memoised nofail S (erase nofail S w12_prog)) 7 = Some 250%Z
  /\ payload_gpu (Session.run nofail S w12_open) = [250%Z]
  /\ queue_gpu (Session.run nofail S w12_prog) 7 = Some 250%Z.
Proof. exact erasure_violated_by_memoised_accepted_resource. Qed.
Print Assumptions C13_erasure_violated_by_memoised_accepted_resource.

(** Commit as it was before 5a5de9a ([run_before_5a5de9a]) violated erasure when Cache.Evict refused the
    eviction of a shared pod whose nomination elsewhere had been rolled back (corpus W8): the pod was put
    back on node 1 under the GPU group of the abandoned nomination (9), the erased program puts it back
    under its own group (8); with Commit as it is both end with the same node 1, pods, jobs and queues *)
Theorem C13_erasure_refused_eviction_before_repair :
  wf_prog fail_first w8_init w8_prog = true
  /\ erase fail_first w8_init w8_prog = [Evict 4; Commit]
  /\ (let s := run_before_5a5de9a fail_first w8_init w8_prog in
      zget 9 (g_used (node1 s)) = 50%Z /\ zget 8 (g_used (node1 s)) = 0%Z /\ g_mark (node1 s) = [(9%positive, tt)]
      /\ option_map (fun p => (p_status p, p_groups p)) (get_pod s 4) = Some (Releasing, [9%positive]))
  /\ (let s := run_before_5a5de9a fail_first w8_init (erase fail_first w8_init w8_prog) in
      zget 9 (g_used (node1 s)) = 0%Z /\ zget 8 (g_used (node1 s)) = 50%Z /\ g_mark (node1 s) = [(8%positive, tt)]
      /\ option_map (fun p => (p_status p, p_groups p)) (get_pod s 4) = Some (Releasing, [8%positive]))
  /\ (let a := project (Session.run fail_first w8_init w8_prog) in
      let b := project (Session.run fail_first w8_init (erase fail_first w8_init w8_prog)) in
      alookup 1%positive (d_nodes a) = alookup 1%positive (d_nodes b) /\ d_pods a = d_pods b /\ d_jobs a = d_jobs b /\ d_queues a = d_queues b)
  /\ option_map (fun p => (p_status p, p_groups p)) (get_pod (Session.run fail_first w8_init w8_prog) 4) = Some (Running, [8%positive]).
Proof. exact erasure_refused_eviction_before_repair. Qed.
Print Assumptions C13_erasure_refused_eviction_before_repair.

(** * Resource claims (Model/SessionClaims.v, proofs in Proofs/SessionClaims.v)

    The claim bookkeeping under the same commands: every pod's ResourceClaimInfo (pod claim -> recorded allocation),
    the DRA plugin's claim tracker (allocation and ReservedFor of every claim), the allocate / deallocate handlers of
    pkg/scheduler/plugins/dynamicresources and what Statement.Evict / Pipeline save and unevict / unpipeline give
    back.  [crun VS false orc fails] runs a program on the store of VALUES - every save and every restore of a pod's
    ResourceClaimInfo copies, the code since 2da68db - with the handlers as they are; [orc] is the structured
    allocator, an arbitrary function (run number, allocated devices, node, claim) -> devices or failure; [fails] the
    Cache failures of Commit.  [coherent]: ReservedFor sets are sorted, empty exactly for unallocated claims; a
    pod in a claim's ReservedFor references the claim and has recorded its allocation.  [cwf_from]: the status
    preconditions of [wf_cmd] on this machine's own pod table (open statements: no Commit, no Convert) plus
    [mem_ok] at every placement and un-eviction: the record the allocate handler is going to use does not
    contradict the tracker.  [claims_same x y]: same pods (status, NodeName, nodes holding a copy), same tracker
    record of every claim, same record in every pod that holds the claim. *)

(** Rollback to an outstanding checkpoint gives back the claims as they were when the checkpoint was taken - for
    every allocator, every coherent session and every well-formed open statement: evictions of only consumers and of
    sharers, un-evictions by Unevict and by Pipeline onto the own node (also of evictions made before the
    checkpoint), re-evictions, placements of pending pods with unallocated or shared claims (the allocator is
    asked), evicted pods nominated on other nodes, nested checkpoints *)
Theorem C13_claims_rollback_restores : forall orc fails (S : cst vstore rci) prog cp,
  c_log S = [] -> c_saved S = [] -> c_stuck S = false -> coherent S = true ->
  cwf_from orc fails [] S (prog ++ [Rollback cp]) = true ->
  exists x, cstate_at orc fails S prog cp = Some x
            /\ claims_same x (crun VS false orc fails S (prog ++ [Rollback cp])).
Proof. exact claims_rollback_restores_stmt. Qed.
Print Assumptions C13_claims_rollback_restores.

Theorem C13_claims_discard_restores : forall orc fails (S : cst vstore rci) prog,
  c_log S = [] -> c_saved S = [] -> c_stuck S = false -> coherent S = true ->
  cwf_from orc fails [] S (prog ++ [Discard]) = true ->
  claims_same S (crun VS false orc fails S (prog ++ [Discard])).
Proof. exact claims_discard_restores_stmt. Qed.
Print Assumptions C13_claims_discard_restores.

(** Evict p (p not Releasing) followed by Unevict p, or by Pipeline of p onto a node that holds it: the claims are
    as before the eviction *)
Theorem C13_claims_unevict_restores : forall orc fails (S : cst vstore rci) p,
  c_log S = [] -> c_saved S = [] -> c_stuck S = false -> coherent S = true ->
  (match alookup p (c_pods S) with Some x => status_eqb (cp_stat x) Releasing | None => false end) = false ->
  cwf_cmd [] S (Evict p) = true ->
  claims_same S (crun VS false orc fails S [Evict p; Unevict p])
  /\ forall n x, alookup p (c_pods S) = Some x -> pmem n (cp_on x) = true ->
       claims_same S (crun VS false orc fails S [Evict p; Pipeline p n None false]).
Proof. exact claims_unevict_restores_stmt. Qed.
Print Assumptions C13_claims_unevict_restores.

(** finding C13-undo-aliases-saved-resource-claims (fixed, 2da68db), on the heap store ([HS shallow alias]: map and
    entry objects with addresses).  World [w_h] / [w_v]: node 31 has devices 21 22 23; pod 1 runs there and is the
    only consumer of claim 11 on device 22 (21 is free); pod 4 is pending with the unallocated claim 13.  With the
    restore that hands the operation's saved map to the pod ([HS false true], the code before the repair)
    [Evict 1; Unevict 1; Discard] leaves claim 11 on device 21 and pod 1 recording 21, and a pod placed next is
    handed device 22; with the restore that copies ([HS false false], the code; and the store of values) claim 11
    stays on 22 and the next pod gets 21.  The program meets the hypotheses of [C13_claims_discard_restores] *)
Theorem C13_claims_discard_moves_claim_before_2da68db :
  let prog := [Evict 1; Unevict 1; Discard]%positive in
  claim_of (crun (HS false true) false w_orc nofail_c w_h prog) 11 = Some (Some [21%positive], [1%positive])
  /\ record_of (HS false true) (crun (HS false true) false w_orc nofail_c w_h prog) 1 11 = Some (Some [21%positive])
  /\ claim_of (crun (HS false false) false w_orc nofail_c w_h prog) 11 = Some (Some [22%positive], [1%positive])
  /\ claim_of (crun VS false w_orc nofail_c w_v prog) 11 = Some (Some [22%positive], [1%positive])
  /\ coherent w_v = true /\ cwf_from w_orc nofail_c [] w_v prog = true
  /\ claim_of (crun (HS false true) false w_orc nofail_c w_h (prog ++ [Allocate 4 31 None])%positive) 13 = Some (Some [22%positive], [4%positive])
  /\ claim_of (crun (HS false false) false w_orc nofail_c w_h (prog ++ [Allocate 4 31 None])%positive) 13 = Some (Some [21%positive], [4%positive]).
Proof. exact claims_discard_moves_claim_before_2da68db. Qed.
Print Assumptions C13_claims_discard_moves_claim_before_2da68db.

(** the SHALLOW-COPY variant ([HS true _]: Statement.Evict / Pipeline save maps.Clone of the pod's map - the saved
    entry IS the live entry; NOT the code, the seeded regression C13-3): the deallocate handler wipes the shared
    entry in place and [Evict 1; Discard], [Checkpoint; Evict 1; Rollback], [Evict 1; Unevict 1] all move claim 11
    from device 22 to device 21, whatever the restore does; with the deep copy it stays on 22 *)
Theorem C13_claims_shallow_save_moves_claim :
  let prog := [Evict 1; Discard]%positive in
  claim_of (crun (HS true false) false w_orc nofail_c w_h prog) 11 = Some (Some [21%positive], [1%positive])
  /\ claim_of (crun (HS true true) false w_orc nofail_c w_h prog) 11 = Some (Some [21%positive], [1%positive])
  /\ claim_of (crun (HS false false) false w_orc nofail_c w_h prog) 11 = Some (Some [22%positive], [1%positive])
  /\ claim_of (crun (HS true false) false w_orc nofail_c w_h [Checkpoint; Evict 1; Rollback 0]%positive) 11 = Some (Some [21%positive], [1%positive])
  /\ claim_of (crun (HS true false) false w_orc nofail_c w_h [Evict 1; Unevict 1]%positive) 11 = Some (Some [21%positive], [1%positive]).
Proof. exact claims_shallow_save_moves_claim. Qed.
Print Assumptions C13_claims_shallow_save_moves_claim.

(** finding C13-stale-claim-record (known), on the code as it is: pods 5 and 6 are pending and share the unallocated
    claim 14.  [Allocate 5 31; Allocate 6 31; Discard] is well-formed and restores the claims in the sense of
    [claims_same] - but pod 6, which holds nothing, still records device 21 (pod 5 records nothing), and
    [Allocate 6 32] afterwards assumes claim 14 on device 21 of node 31 for a pod placed on node 32 ([c_stale]: the
    allocate handler used a record that is not the claim's present allocation); without the abandoned part pod 6
    gets device 24 of node 32.  An abandoned scenario decides a later allocation: erasure does NOT hold for claims *)
Theorem C13_claims_stale_record_after_abandoned_placement :
  let ab := [Allocate 5 31 None; Allocate 6 31 None; Discard]%positive in
  coherent w_v = true /\ cwf_from w_orc nofail_c [] w_v ab = true
  /\ claims_same w_v (crun VS false w_orc nofail_c w_v ab)
  /\ record_of VS (crun VS false w_orc nofail_c w_v ab) 6 14 = Some (Some [21%positive])
  /\ record_of VS (crun VS false w_orc nofail_c w_v ab) 5 14 = Some None
  /\ claim_of (crun VS false w_orc nofail_c w_v (ab ++ [Allocate 6 32 None])%positive) 14 = Some (Some [21%positive], [6%positive])
  /\ claim_of (crun VS false w_orc nofail_c w_v [Allocate 6 32 None]%positive) 14 = Some (Some [24%positive], [6%positive])
  /\ c_stale (crun VS false w_orc nofail_c w_v (ab ++ [Allocate 6 32 None])%positive) = true
  /\ c_stale (crun VS false w_orc nofail_c w_v ab) = false.
Proof. exact claims_stale_record_after_abandoned_placement. Qed.
Print Assumptions C13_claims_stale_record_after_abandoned_placement.

(** the restore statement WITHOUT [mem_ok] is refuted on the code as it is: once a stale record has overridden the
    tracker (claim 14 on device 21 although its other consumer recorded 24), [Checkpoint; Evict 5; Rollback] leaves
    claim 14 on device 24 - not where it was at the checkpoint; the program leaves [cwf_from] exactly at the
    placement that uses the stale record *)
Theorem C13_claims_rollback_refuted_with_stale_record :
  let pre := [Allocate 5 31 None; Allocate 6 31 None; Discard; Allocate 5 32 None; Allocate 6 32 None; Checkpoint]%positive in
  claim_of (crun VS false w_orc nofail_c w_v pre) 14 = Some (Some [21%positive], [5; 6]%positive)
  /\ claim_of (crun VS false w_orc nofail_c w_v (pre ++ [Evict 5; Rollback 2])%positive) 14 = Some (Some [24%positive], [5; 6]%positive)
  /\ cwf_from w_orc nofail_c [] w_v (firstn 4 pre) = true
  /\ cwf_from w_orc nofail_c [] w_v (firstn 5 pre) = false.
Proof. exact claims_rollback_refuted_with_stale_record. Qed.
Print Assumptions C13_claims_rollback_refuted_with_stale_record.

(** non-vacuity: [Checkpoint; Evict 1; Allocate 4 on node 31; Pipeline 1 to node 32; Evict 2; Unevict 2] meets the
    hypotheses of [C13_claims_rollback_restores]; meanwhile claim 11 moved to device 24 of node 32 and claim 13 got
    device 21; after Rollback 0 claim 11 is on device 22 with consumer 1 and claim 13 is unallocated *)
Theorem C13_claims_nonvacuous :
  let prog := [Checkpoint; Evict 1; Allocate 4 31 None; Pipeline 1 32 None false; Evict 2; Unevict 2]%positive in
  c_log w_v = [] /\ c_saved w_v = [] /\ c_stuck w_v = false /\ coherent w_v = true
  /\ cwf_from w_orc nofail_c [] w_v (prog ++ [Rollback 0]) = true
  /\ claim_of (crun VS false w_orc nofail_c w_v prog) 11 = Some (Some [24%positive], [1%positive])
  /\ claim_of (crun VS false w_orc nofail_c w_v prog) 13 = Some (Some [21%positive], [4%positive])
  /\ claim_of (crun VS false w_orc nofail_c w_v (prog ++ [Rollback 0])) 11 = Some (Some [22%positive], [1%positive])
  /\ claim_of (crun VS false w_orc nofail_c w_v (prog ++ [Rollback 0])) 13 = Some (None, []).
Proof. exact claims_nonvacuous. Qed.
Print Assumptions C13_claims_nonvacuous.

(** ** 7. Solver level: the attempt loop of the by-pod solver (Model/SolverLoop.v) *)

(** whatever the attempts and the simulations (placing commands only), the erased program of what the solver issues
    after the recorded victims' evictions [pre] is [pre] followed by the commands of the successful attempt - or
    by nothing when no attempt succeeds: every failed attempt is erased as a whole *)
Theorem C13_solver_loop_erases_to_successful_attempt :
  forall (fails : nat -> bool) (S : sess) (pre : list cmd) (atts : list attempt),
    forallb plain_cmd pre = true -> Forall plain_oracle atts ->
    erase fails S (pre ++ fst (loop fails (Session.run fails S pre) atts))
    = pre ++ winner (snd (loop fails (Session.run fails S pre) atts)).
Proof. exact loop_erases_to_winner. Qed.
Print Assumptions C13_solver_loop_erases_to_successful_attempt.

(** for all sessions, attempt lists, placement oracles and failure oracles: after the loop (a well-formed open
    statement, whatever command [c] follows) the session is related to the one obtained by running ONLY the
    successful attempt (or only [pre] when none succeeds) - the relation of [C13_rollback_restores_partial] -, the
    statement's operation log is exactly the log of that run, and so is the call counter *)
Theorem C13_solver_failed_attempts_leave_no_trace :
  forall (fails : nat -> bool) (S : sess) (pre : list cmd) (atts : list attempt) (c : cmd),
    s_log S = [] -> s_stuck S = false ->
    forallb plain_cmd pre = true -> Forall plain_oracle atts ->
    let p := fst (loop fails (Session.run fails S pre) atts) in
    let w := winner (snd (loop fails (Session.run fails S pre) atts)) in
    wf_from any_task fails [] false S ((pre ++ p) ++ [c]) = true ->
    srel neq (Session.run fails S (pre ++ p)) (Session.run fails S (pre ++ w))
    /\ s_log (Session.run fails S (pre ++ p)) = s_log (Session.run fails S (pre ++ w))
    /\ s_ncalls (Session.run fails S (pre ++ p)) = s_ncalls (Session.run fails S (pre ++ w)).
Proof. exact loop_failed_attempts_leave_no_trace. Qed.
Print Assumptions C13_solver_failed_attempts_leave_no_trace.

(** ... and Commit of the statement the solver returns emits, call for call, what Commit emits after the successful
    attempt alone: nothing of an abandoned attempt reaches the cluster (sessions keyed by pod id) *)
Theorem C13_solver_commit_emits_successful_attempt_only :
  forall (fails : nat -> bool) (S : sess) (pre : list cmd) (atts : list attempt),
    keyed_b S = true -> s_log S = [] -> s_stuck S = false ->
    forallb plain_cmd pre = true -> Forall plain_oracle atts ->
    let p := fst (loop fails (Session.run fails S pre) atts) in
    let w := winner (snd (loop fails (Session.run fails S pre) atts)) in
    wf_from any_task fails [] false S ((pre ++ p) ++ [Commit]) = true ->
    snd (step fails (Session.run fails S (pre ++ p)) Commit) = snd (step fails (Session.run fails S (pre ++ w)) Commit).
Proof. exact loop_commit_calls. Qed.
Print Assumptions C13_solver_commit_emits_successful_attempt_only.

(** [byPodSolver.solve] without solution (recorded victims, every attempt failed, Discard): the session is related to
    the one the statement began in and the statement is empty *)
Theorem C13_solver_no_solution_restores :
  forall (fails : nat -> bool) (S : sess) (recorded : list positive) (atts : list attempt) (c : cmd),
    s_log S = [] -> s_stuck S = false -> Forall plain_oracle atts ->
    snd (solve fails S recorded atts) = None ->
    wf_from any_task fails [] false S (fst (solve fails S recorded atts) ++ [c]) = true ->
    srel neq (Session.run fails S (fst (solve fails S recorded atts))) S
    /\ s_log (Session.run fails S (fst (solve fails S recorded atts))) = [].
Proof. exact solve_unsolved_restores. Qed.
Print Assumptions C13_solver_no_solution_restores.

(** non-vacuity, on the world of seeded/C13-4/README.md (nodes 1, 2 = node0, node1; pods 4 blocker, 6 small0, 8 small1,
    10 / 11 the gang, 13 the pending pod; the initial session is the one the driver prints for corpus world V1):
    the attempt on node0 (victims 6, 10, 11) fails, the attempt on node1 (victims 8, 10, 11) succeeds; the loop's
    program meets the hypotheses above; the log after it holds the evictions of 8, 10, 11 only and Commit evicts
    exactly the victims of the successful attempt *)
Theorem C13_solver_readme_world :
  keyed_b w13_init = true /\ s_log w13_init = [] /\ s_stuck w13_init = false
  /\ wf_from any_task nofail [] false w13_init (w13_prog ++ [Commit]) = true
  /\ w13_prog = [Checkpoint; Evict 6; Evict 10; Evict 11; Rollback 0; Checkpoint; Evict 8; Evict 10; Evict 11;
                 Pipeline 13 2 None false; Pipeline 8 1 None false]
  /\ snd (loop nofail w13_init w13_atts) = Some [Evict 8; Evict 10; Evict 11; Pipeline 13 2 None false; Pipeline 8 1 None false]
  /\ evict_entries (s_log (Session.run nofail w13_init w13_prog)) = [8; 10; 11]%positive
  /\ snd (step nofail (Session.run nofail w13_init w13_prog) Commit)
     = [AEvict 8; AEvict 10; AEvict 11; APipe 13 (Some 2%positive) []; APipe 8 (Some 1%positive) []]
  /\ winner_victims nofail w13_init w13_atts = [8; 10; 11]%positive.
Proof. exact solver_loop_readme_world. Qed.
Print Assumptions C13_solver_readme_world.

(** the loop with the checkpoint taken AFTER the attempt's evictions ([loop_late], the seeded change C13-4; not the
    code): the statement "failed attempts leave no trace" (its log clause, same hypotheses) is false for it ... *)
Theorem C13_solver_checkpoint_after_evictions_refuted :
  failed_attempts_leave_no_trace_for loop /\ ~ failed_attempts_leave_no_trace_for loop_late.
Proof. exact (conj failed_attempts_leave_no_trace_code checkpoint_after_evictions_refuted). Qed.
Print Assumptions C13_solver_checkpoint_after_evictions_refuted.

(** ... on the README world: a well-formed statement, the rollback of the abandoned attempt on node0 undoes nothing,
    the eviction of pod 6 (small0) stays in the log, pod 6 is Releasing in the session the solver returns, Commit
    sends its eviction to the cluster (evictions 6, 11, 8), and pod 6 is not among the victims of the successful
    attempt (8, 10, 11) *)
Theorem C13_solver_checkpoint_after_evictions_commits_abandoned_eviction :
  wf_from any_task nofail [] false w13_init (w13_prog_late ++ [Commit]) = true
  /\ w13_prog_late = [Evict 6; Evict 10; Evict 11; Checkpoint; Rollback 3; Evict 8; Evict 10; Evict 11; Checkpoint;
                      Pipeline 13 2 None false; Pipeline 10 1 None false; Pipeline 11 1 None false]
  /\ existsb (Pos.eqb 6) (evict_entries (s_log (Session.run nofail w13_init w13_prog_late))) = true
  /\ evicted_by (snd (step nofail (Session.run nofail w13_init w13_prog_late) Commit)) = [6; 11; 8]%positive
  /\ winner_victims_late nofail w13_init w13_atts_late = [8; 10; 11]%positive
  /\ existsb (Pos.eqb 6) (winner_victims_late nofail w13_init w13_atts_late) = false
  /\ (match get_pod (Session.run nofail w13_init w13_prog_late) 6 with
      | Some p => p_status p
      | None => Pending
      end) = Releasing.
Proof. exact solver_loop_late_readme_world. Qed.
Print Assumptions C13_solver_checkpoint_after_evictions_commits_abandoned_eviction.
