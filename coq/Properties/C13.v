(** C13 — What-if simulations are transactional.
    Statements only; proofs are in Proofs/Session.v, the model of
    framework.Statement in Model/Session.v.

    [step fails s c] runs one statement command ([fails]: which Cache call
    fails); [Session.run] a program.  [wf_from tok fails stk conv s prog] is the
    decidable well-formedness predicate (Model/Session.v, [wf_cmd]): Allocate on
    Pending pods, Pipeline on Pending pods or pods evicted by this statement,
    Evict on active allocated pods that have no valid evict entry and no
    placing entry yet, Unevict on a pod evicted by this statement, Rollback only
    to an outstanding checkpoint, and the snapshot consistent where the command
    reads it.  [open_cmd]: the statement is still open (no Commit, no
    ConvertAllAllocatedToPipelined — the allocate action follows that one by
    Commit at once).  [state_at fails S prog cp] is the session as it was when
    the outstanding checkpoint [cp] was taken.

    The full statements are false of the code (and of the model, which agrees
    with the code on these programs): see the [_refuted] theorems and the
    witnesses.  What is proved instead ([_partial]): everything is restored
    except
      - the whole-GPU idle / releasing counts and the releasing marks of nodes
        (known finding C14-device-guard; the per-group maps are compared through
        [zget]: a discarded simulation leaves zero entries behind), and
      - the GPU groups recorded in the pod itself while it is a shared pod that
        holds nothing (Pending, or evicted by the simulation): the callers assign
        [GPUGroups] before Statement.Pipeline / Allocate and unpipeline /
        unallocate restore the assigned value;
    and exactly everything on nodes when no shared-GPU pod is operated on
    ([_nonshared]).  A double eviction of one pod (known finding
    C13-double-evict) is excluded by [wf_cmd]; without that clause Commit emits
    two Evict calls for the pod ([C13_commit_double_evict_witness]).

    Section 4 ties Commit to a specification that does not look at the
    operation log at all (Model/SessionSpec.v): [valid_steps fails S prog] is
    computed from the commands of [prog] and, for each command, the place of
    its pod before the command (Evict adds a valid eviction; Unevict, or
    Pipeline onto the pod's own node and devices, withdraws the pod's earliest
    valid eviction; Rollback goes back to the valid steps of the checkpoint;
    Discard empties).  Commit emits exactly one call per valid step, of its
    kind, in order - nothing for a pod whose evictions were all undone
    ([C13_commit_log_spec]); and an Unevict that withdraws the only valid
    eviction of a pod is a rollback of that eviction
    ([C13_unevict_restores]). *)
From Coq Require Import List ZArith PArith Bool.
From KaiV Require Import Model.Res Model.Status Model.AMap Model.Node Model.NodeSpec Model.Session Model.SessionSpec
  Proofs.Node Proofs.Session Proofs.SessionLog.
Import ListNotations.

(** ** 1. Rollback to a checkpoint *)

(** the full statement: the whole projection is restored *)
Definition C13_rollback_restores : Prop :=
  forall (fails : nat -> bool) (S : sess) (prog : list cmd) (cp : nat),
    s_log S = [] -> s_stuck S = false -> forallb open_cmd prog = true ->
    wf_from any_task fails [] false S (prog ++ [Rollback cp]) = true ->
    exists x, state_at fails S prog cp = Some x
              /\ project x = project (Session.run fails S (prog ++ [Rollback cp])).

Theorem C13_rollback_restores_refuted : ~ C13_rollback_restores.
Proof. exact rollback_restores_refuted. Qed.
Print Assumptions C13_rollback_restores_refuted.

(** witness 1 (device-count guard, under the exposure condition of
    Model/NodeSpec.v): a 2-GPU pod is nominated on a node, a shared pod of the
    node is evicted and the eviction rolled back; one idle GPU is lost *)
Theorem C13_rollback_device_guard_witness :
  let prog := [Pipeline 9 1 None false; Checkpoint; Evict 3] in
  wf_from any_task nofail [] false w1_init (prog ++ [Rollback 1]) = true
  /\ forallb open_cmd prog = true
  /\ (exists x, state_at nofail w1_init prog 1 = Some x /\ gpu (n_idle (node1 x)) = 1%Z
        /\ exists t, alookup 3%positive (n_pods (node1 x)) = Some t /\ exposed (tasks_of (node1 x)) t = true)
  /\ gpu (n_idle (node1 (Session.run nofail w1_init (prog ++ [Rollback 1])))) = 0%Z.
Proof. exact rollback_device_guard_witness. Qed.
Print Assumptions C13_rollback_device_guard_witness.

(** witness 2: a nomination onto a device whose only sharer is terminating is
    withdrawn; the releasing GPU is lost *)
Theorem C13_rollback_releasing_device_witness :
  wf_from any_task nofail [] false w9_init w9_prog = true
  /\ gpu (n_rel (node1 w9_init)) = 1%Z
  /\ gpu (n_rel (node1 (Session.run nofail w9_init w9_prog))) = 0%Z.
Proof. exact rollback_releasing_device_witness. Qed.
Print Assumptions C13_rollback_releasing_device_witness.

(** witness 3: a rolled-back nomination of a Pending fractional pod leaves the
    pod's GPU groups set *)
Theorem C13_rollback_stale_groups_witness :
  wf_from any_task nofail [] false w2_init w2_prog = true
  /\ w2_prog = [Checkpoint; Pipeline 3 1 (Some [7%positive]) false; Rollback 0]
  /\ option_map p_groups (get_pod w2_init 3) = Some []
  /\ option_map p_groups (get_pod (Session.run nofail w2_init w2_prog) 3) = Some [7%positive]
  /\ option_map p_status (get_pod (Session.run nofail w2_init w2_prog) 3) = Some Pending.
Proof. exact rollback_stale_groups_witness. Qed.
Print Assumptions C13_rollback_stale_groups_witness.

(** What is restored.  [srel neq x y] is spelled out by [C13_restored_meaning]. *)
Theorem C13_rollback_restores_partial :
  forall (fails : nat -> bool) (S : sess) (prog : list cmd) (cp : nat),
    s_log S = [] -> s_stuck S = false -> forallb open_cmd prog = true ->
    wf_from any_task fails [] false S (prog ++ [Rollback cp]) = true ->
    exists x, state_at fails S prog cp = Some x
              /\ srel neq x (Session.run fails S (prog ++ [Rollback cp])).
Proof. exact rollback_restores_partial. Qed.
Print Assumptions C13_rollback_restores_partial.

(** jobs (Allocated, activeAllocatedCount, index sizes, pod-set counters) and
    queue usage (Allocated and AllocatedNotPreemptible of every queue) are equal
    in the projection; every pod has the same status, node, virtual flag, and
    the same GPU groups unless it is a shared pod holding nothing; every node
    has the same allocatable, used, pod copies (status and groups of each),
    idle / releasing except the whole-GPU column, and per-group used /
    allocated / releasing memory *)
Theorem C13_restored_meaning : forall (x y : sess),
  srel neq x y ->
  d_jobs (project x) = d_jobs (project y)
  /\ d_queues (project x) = d_queues (project y)
  /\ (forall pid,
        match get_pod x pid, get_pod y pid with
        | Some a, Some b =>
            p_status b = p_status a /\ p_node b = p_node a /\ p_virt b = p_virt a
            /\ (pmasked a = false -> p_groups b = p_groups a)
        | None, None => True
        | _, _ => False
        end)
  /\ (forall nid,
        match alookup nid (s_nodes x), alookup nid (s_nodes y) with
        | Some a, Some b =>
            n_alloc a = n_alloc b /\ n_used a = n_used b /\ n_pods a = n_pods b
            /\ eq_nogpu (n_idle a) (n_idle b) /\ eq_nogpu (n_rel a) (n_rel b)
            /\ (forall g, zget g (g_used a) = zget g (g_used b)
                          /\ zget g (g_alloc a) = zget g (g_alloc b)
                          /\ zget g (g_rel a) = zget g (g_rel b))
        | None, None => True
        | _, _ => False
        end).
Proof. exact restored_meaning. Qed.
Print Assumptions C13_restored_meaning.

(** when only pods that do not share a GPU are operated on, the nodes are
    restored exactly: every column of idle / used / releasing, the group maps
    and the releasing marks *)
Theorem C13_rollback_restores_nonshared :
  forall (fails : nat -> bool) (S : sess) (prog : list cmd) (cp : nat),
    s_log S = [] -> s_stuck S = false -> forallb open_cmd prog = true ->
    wf_from nonshared_b fails [] false S (prog ++ [Rollback cp]) = true ->
    exists x, state_at fails S prog cp = Some x
              /\ s_nodes x = s_nodes (Session.run fails S (prog ++ [Rollback cp]))
              /\ srel eq x (Session.run fails S (prog ++ [Rollback cp])).
Proof. exact rollback_restores_nonshared_nodes. Qed.
Print Assumptions C13_rollback_restores_nonshared.

(** ** 2. Discard *)
Definition C13_discard_restores : Prop :=
  forall (fails : nat -> bool) (S : sess) (prog : list cmd),
    s_log S = [] -> s_stuck S = false -> forallb open_cmd prog = true ->
    wf_from any_task fails [] false S (prog ++ [Discard]) = true ->
    project S = project (Session.run fails S (prog ++ [Discard])).

Theorem C13_discard_restores_refuted : ~ C13_discard_restores.
Proof. exact discard_restores_refuted. Qed.
Print Assumptions C13_discard_restores_refuted.

Theorem C13_discard_restores_partial :
  forall (fails : nat -> bool) (S : sess) (prog : list cmd),
    s_log S = [] -> s_stuck S = false -> forallb open_cmd prog = true ->
    wf_from any_task fails [] false S (prog ++ [Discard]) = true ->
    srel neq S (Session.run fails S (prog ++ [Discard]))
    /\ s_log (Session.run fails S (prog ++ [Discard])) = [].
Proof. exact discard_restores_partial_log. Qed.
Print Assumptions C13_discard_restores_partial.

Theorem C13_discard_restores_nonshared :
  forall (fails : nat -> bool) (S : sess) (prog : list cmd),
    s_log S = [] -> s_stuck S = false -> forallb open_cmd prog = true ->
    wf_from nonshared_b fails [] false S (prog ++ [Discard]) = true ->
    s_nodes S = s_nodes (Session.run fails S (prog ++ [Discard]))
    /\ srel eq S (Session.run fails S (prog ++ [Discard])).
Proof. exact discard_restores_nonshared_nodes. Qed.
Print Assumptions C13_discard_restores_nonshared.

(** ** 3. Commit *)

(** for every session and every failure oracle: a call is emitted only for a
    still-valid log entry of its kind and pod (nothing for undone operations),
    and the calls form a subsequence of the valid entries (at most one per entry) *)
Theorem C13_commit_only_valid : forall (fails : nat -> bool) (s : sess) (c : api_call),
  In c (snd (commit fails s)) ->
  exists i o, nth_error (s_log s) i = Some o /\ op_valid (s_log s) i = Some true /\ In (ckey c) (okey o).
Proof. exact commit_only_valid. Qed.
Print Assumptions C13_commit_only_valid.

Theorem C13_commit_subsequence : forall (fails : nat -> bool) (s : sess),
  subseq (map ckey (snd (commit fails s))) (vkeys (s_log s) (s_log s) 0).
Proof. exact commit_sub. Qed.
Print Assumptions C13_commit_subsequence.

(** after a well-formed open statement, Commit emits at most one eviction and
    at most one placement (Bind or TaskPipelined) per pod, whatever fails *)
Theorem C13_commit_at_most_once : forall (fails : nat -> bool) (S : sess) (prog : list cmd),
  s_log S = [] -> s_stuck S = false -> forallb open_cmd prog = true ->
  wf_from any_task fails [] false S (prog ++ [Commit]) = true ->
  NoDup (map ckey (snd (step fails (Session.run fails S prog) Commit))).
Proof. exact commit_once_run. Qed.
Print Assumptions C13_commit_at_most_once.

(** without the clause "no valid evict entry yet" the statement is false: the
    same running pod evicted twice is sent to Cache.Evict twice *)
Theorem C13_commit_double_evict_witness :
  option_map p_status (get_pod w3_init 3) = Some Running
  /\ snd (step nofail (Session.run nofail w3_init [Evict 3; Evict 3]) Commit) = [AEvict 3; AEvict 3]
  /\ wf_from any_task nofail [] false w3_init [Evict 3] = true
  /\ wf_from any_task nofail [] false w3_init [Evict 3; Evict 3] = false.
Proof. exact commit_double_evict_witness. Qed.
Print Assumptions C13_commit_double_evict_witness.

(** ** 4. Commit and Unevict against the log-level specification (Model/SessionSpec.v)

    [valid_steps fails S prog]: the steps still valid after [prog] according to
    the command history; [expect_calls]: one (kind, pod) per valid step, kind =
    eviction / nomination / bind; [call_key]: kind and pod of an emitted call. *)

(** After a well-formed open statement on a session whose pod map is keyed by
    pod id, for every failure oracle: the calls of Commit are, in order, exactly
    the still-valid steps - every valid step is emitted, once, with its kind,
    and nothing is emitted for an undone step (a pod whose evictions were all
    undone is not evicted) - up to the end, or up to a Bind whose Cache call
    fails (Commit returns there). *)
Theorem C13_commit_log_spec : forall (fails : nat -> bool) (S : sess) (prog : list cmd),
  keyed_b S = true -> s_log S = [] -> s_stuck S = false -> forallb open_cmd prog = true ->
  wf_from any_task fails [] false S (prog ++ [Commit]) = true ->
  exists rest,
    expect_calls (valid_steps fails S prog) = map call_key (snd (step fails (Session.run fails S prog) Commit)) ++ rest
    /\ (rest = [] \/ exists pre p n g,
          snd (step fails (Session.run fails S prog) Commit) = pre ++ [ABind p n g]
          /\ fails (s_ncalls (Session.run fails S prog) + length pre)%nat = true).
Proof. exact commit_log_exact. Qed.
Print Assumptions C13_commit_log_spec.

(** when no Cache call fails: equality *)
Theorem C13_commit_log_spec_no_failure : forall (fails : nat -> bool) (S : sess) (prog : list cmd),
  (forall i, fails i = false) ->
  keyed_b S = true -> s_log S = [] -> s_stuck S = false -> forallb open_cmd prog = true ->
  wf_from any_task fails [] false S (prog ++ [Commit]) = true ->
  map call_key (snd (step fails (Session.run fails S prog) Commit)) = expect_calls (valid_steps fails S prog).
Proof. exact commit_log_exact_nofail. Qed.
Print Assumptions C13_commit_log_spec_no_failure.

(** without the assumption on the pod map, for every failure oracle: the calls
    with their kinds are a subsequence of the still-valid steps (nothing for an
    undone step, nothing twice, nothing of another kind, in order) *)
Theorem C13_commit_log_spec_only_valid : forall (fails : nat -> bool) (S : sess) (prog : list cmd),
  s_log S = [] -> s_stuck S = false -> forallb open_cmd prog = true ->
  wf_from any_task fails [] false S (prog ++ [Commit]) = true ->
  subseq (map call_key (snd (step fails (Session.run fails S prog) Commit)))
         (expect_calls (valid_steps fails S prog)).
Proof. exact commit_log_sound. Qed.
Print Assumptions C13_commit_log_spec_only_valid.

(** Evict p ... Unevict p in a well-formed open statement, where Evict p is
    well-formed (p has no valid eviction before it, so the Unevict leaves p
    without a valid eviction) and what happened in between is no longer in
    effect (the log is again the one the eviction produced and the session is
    related to the one it produced: nothing or checkpoints in between, or steps
    that were rolled back): the session is related to the one BEFORE the
    eviction; [C13_restored_meaning] spells the relation out (every pod's
    status, node, virtual flag; every job's books; every queue's usage; nodes
    up to the whole-GPU columns). *)
Theorem C13_unevict_restores : forall (fails : nat -> bool) (S : sess) (prog mid : list cmd) (pid : positive),
  s_log S = [] -> s_stuck S = false -> forallb open_cmd (prog ++ Evict pid :: mid) = true ->
  wf_from any_task fails [] false S ((prog ++ Evict pid :: mid) ++ [Unevict pid]) = true ->
  s_log (Session.run fails S (prog ++ Evict pid :: mid)) = s_log (Session.run fails S (prog ++ [Evict pid])) ->
  srel neq (Session.run fails S (prog ++ [Evict pid])) (Session.run fails S (prog ++ Evict pid :: mid)) ->
  srel neq (Session.run fails S prog) (Session.run fails S ((prog ++ Evict pid :: mid) ++ [Unevict pid])).
Proof. exact unevict_restores. Qed.
Print Assumptions C13_unevict_restores.

Theorem C13_unevict_restores_adjacent : forall (fails : nat -> bool) (S : sess) (prog : list cmd) (pid : positive),
  s_log S = [] -> s_stuck S = false -> forallb open_cmd prog = true ->
  wf_from any_task fails [] false S (prog ++ [Evict pid; Unevict pid]) = true ->
  srel neq (Session.run fails S prog) (Session.run fails S (prog ++ [Evict pid; Unevict pid])).
Proof. exact unevict_restores_adjacent. Qed.
Print Assumptions C13_unevict_restores_adjacent.

(** the hypotheses of [C13_unevict_restores] with something in between: evict
    pod 4, checkpoint, evict pod 6, roll back, un-evict pod 4 *)
Theorem C13_unevict_restores_rolled_back_witness :
  wf_from any_task nofail [] false w10_init (([] ++ Evict 4 :: wl_mid) ++ [Unevict 4]) = true
  /\ srel neq w10_init (Session.run nofail w10_init (([] ++ Evict 4 :: wl_mid) ++ [Unevict 4])).
Proof. exact unevict_restores_rolled_back_witness. Qed.
Print Assumptions C13_unevict_restores_rolled_back_witness.

(** the specification on concrete statements: evict, un-evict, evict, un-evict
    of pod 3 leaves no valid step and Commit emits nothing; after the first
    three commands the second eviction is valid and Commit emits it; a statement
    with an eviction withdrawn by Pipeline onto the pod's own node (pod 4), an
    evicted pod nominated on another node (6) and a pending pod nominated (8) *)
Theorem C13_log_spec_nonvacuous :
  keyed_b w3_init = true
  /\ wf_from any_task nofail [] false w3_init (wl_twice ++ [Commit]) = true
  /\ valid_steps nofail w3_init wl_twice = []
  /\ snd (step nofail (Session.run nofail w3_init wl_twice) Commit) = []
  /\ valid_steps nofail w3_init (firstn 3 wl_twice) = [VEv 3 [] 2]
  /\ snd (step nofail (Session.run nofail w3_init (firstn 3 wl_twice)) Commit) = [AEvict 3]
  /\ keyed_b w10_init = true
  /\ wf_from any_task nofail [] false w10_init (w10_open ++ [Commit]) = true
  /\ nth_error w10_open 4 = Some (Pipeline 4 1 (Some [14%positive]) false)
  /\ valid_steps nofail w10_init w10_open = [VEv 6 [] 1; VPl false 8 1 2; VPl false 6 2 4]
  /\ snd (step nofail (Session.run nofail w10_init w10_open) Commit)
     = [AEvict 6; APipe 8 (Some 1%positive) []; APipe 6 (Some 2%positive) []].
Proof. exact log_spec_nonvacuous. Qed.
Print Assumptions C13_log_spec_nonvacuous.

(** ** Non-vacuity *)
Theorem C13_nonvacuous :
  s_log w10_init = [] /\ s_stuck w10_init = false
  /\ forallb open_cmd w10_open = true
  /\ wf_from any_task nofail [] false w10_init (w10_open ++ [Rollback 1]) = true
  /\ length (s_log (Session.run nofail w10_init w10_open)) = 5%nat
  /\ length (s_log (Session.run nofail w10_init (w10_open ++ [Rollback 1]))) = 1%nat
  /\ wf_from any_task nofail [] false w10_init (firstn 9 w10_prog ++ [Commit]) = true
  /\ snd (step nofail (Session.run nofail w10_init (firstn 9 w10_prog)) Commit) <> []
  /\ wf_from nonshared_b nofail [] false w1_init ([Checkpoint; Evict 7; Pipeline 9 1 None false] ++ [Rollback 0]) = true.
Proof. exact session_nonvacuous. Qed.
Print Assumptions C13_nonvacuous.

(** the model distinguishes what a pod is charged on nodes with different GPU
    memory (a gpu-memory pod of 50 MiB is half a GPU on a 100 MiB device and a
    quarter on a 200 MiB one); the theorems above cover programs that move such
    pods between nodes *)
Theorem C13_hetero_nonvacuous :
  wf_from any_task nofail [] false w11_init w11_prog = true
  /\ exists p, get_pod w11_init 4 = Some p
       /\ option_map gpu (alookup 1%positive (p_qtab p)) = Some 500%Z
       /\ option_map gpu (alookup 2%positive (p_qtab p)) = Some 250%Z.
Proof. exact hetero_nonvacuous. Qed.
Print Assumptions C13_hetero_nonvacuous.
