(** C14 — Scheduler accounting equals ground truth recomputed from pods.
    (placeholder: the invariant theorems are being added in Proofs/Node.v) *)
From Coq Require Import List ZArith.
From KaiV Require Import Model.Res Model.Status Model.AMap Model.Node Model.NodeSpec.
Import ListNotations.

(** Non-vacuity / finding witness: on a 4-GPU node the device-count guard
    shifts the idle whole-GPU count when a shared pod is evicted and un-evicted
    while a nominated 2-GPU pod sits on the node; the shift survives the
    removal of the nominated pod. *)
Definition w_node : node :=
  mkNode (mkRes 8000 8000 4 110 0 0) (mkRes 8000 8000 4 110 0 0) rzero rzero 4 100 [] [] [] [] [].
Definition w_p0 st := mkTask 1 1 st KFraction (mkRes 100 100 0 1 0 0) 1 50 [1%positive] false false.
Definition w_p2 := mkTask 2 2 Releasing KRegular (mkRes 100 100 1 1 0 0) 0 0 [] false false.
Definition w_p3 := mkTask 3 3 Running KRegular (mkRes 100 100 1 1 0 0) 0 0 [] false false.
Definition w_p4 := mkTask 4 4 Pipelined KRegular (mkRes 100 100 2 1 0 0) 0 0 [] false false.
Definition bind {A B} (r : result A) (f : A -> result B) : result B :=
  match r with Ok a => f a | Err => Err end.
Definition w_run : result node :=
  bind (add_task w_node (w_p0 Binding)) (fun n =>
  bind (add_task n w_p2) (fun n =>
  bind (add_task n w_p3) (fun n =>
  bind (add_task n w_p4) (fun n =>
  bind (update_task n (w_p0 Releasing)) (fun n =>
  bind (update_task n (w_p0 Binding)) (fun n =>
  remove_task n 4)))))).

Theorem C14_device_guard_refuted :
  exists n, w_run = Ok n /\
    gpu (n_idle n) = 0%Z /\
    (gpu (spec_idle (n_alloc n) (map snd (n_pods n))) - occupied_groups (map snd (n_pods n)) = 1)%Z.
Proof. eexists. split; [vm_compute; reflexivity|]. split; vm_compute; reflexivity. Qed.
Print Assumptions C14_device_guard_refuted.
