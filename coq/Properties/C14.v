(** C14 — Scheduler accounting equals ground truth recomputed from pods.
    Statements only; proofs are in Proofs/Node.v, Proofs/NodeFull.v (node clause) and
    Proofs/JobBooks.v (workload clause) and Proofs/QueueBooks.v (queue clause: module [QueueClause], the last part
    of this file).

    [run n0 ops] applies a list of AddTask / RemoveTask / UpdateTask operations
    to a node, skipping the ones the code rejects (the callers log and ignore
    the error).  [tasks_of n] are the pods the node holds; [spec_*] (Model/
    NodeSpec.v) recompute every counter from scratch from those pods and
    their statuses.  [Books n] (unfolded in [C14_books_meaning]) says all
    counters agree, except the whole-GPU idle / releasing counts, whose
    treatment of shared devices is history dependent in the code (see
    [C14_device_guard_refuted] and [C14_remove_add_inverse_shared_refuted]);
    those two are exact when no shared task is involved
    ([C14_node_wholegpu_exact]).
    ConsolidateSharedPodInfoToDifferentGPU is excluded: it deliberately keeps a
    second charge for the same pod. *)
From Coq Require Import List ZArith PArith.
From KaiV Require Import Model.Res Model.Status Model.AMap Model.Node Model.NodeSpec Proofs.Node Proofs.NodeFull.
From KaiV Require Import Model.JobBooks Proofs.JobBooks.
Import ListNotations.

(** Non-vacuity / finding witness: on a 4-GPU node the device-count guard
    shifts the idle whole-GPU count when a shared pod is evicted and un-evicted
    while a nominated 2-GPU pod sits on the node; the shift survives the
    removal of the nominated pod. *)
Definition w_node : node :=
  mkNode (mkRes 8000 8000 4 110 0 0) (mkRes 8000 8000 4 110 0 0) rzero rzero 4 100 [] [] [] [] [].
Definition w_p0 st := mkTask 1 1 st KFraction (mkRes 100 100 0 1 0 0) 1 50 [1%positive] false false.
Definition w_p2 := mkTask 2 2 Releasing KRegular (mkRes 100 100 1 1 0 0) 0 0 [] false false.
Definition w_p3 := mkTask 3 3 Running KRegular (mkRes 100 100 1 1 0 0) 0 0 [] false false.
Definition w_p4 := mkTask 4 4 Pipelined KRegular (mkRes 100 100 2 1 0 0) 0 0 [] false false.
Definition bind {A B} (r : result A) (f : A -> result B) : result B :=
  match r with Ok a => f a | Err => Err end.
Definition w_run : result node :=
  bind (add_task w_node (w_p0 Binding)) (fun n =>
  bind (add_task n w_p2) (fun n =>
  bind (add_task n w_p3) (fun n =>
  bind (add_task n w_p4) (fun n =>
  bind (update_task n (w_p0 Releasing)) (fun n =>
  bind (update_task n (w_p0 Binding)) (fun n =>
  remove_task n 4)))))).

Theorem C14_device_guard_refuted :
  exists n, w_run = Ok n /\
    gpu (n_idle n) = 0%Z /\
    (gpu (spec_idle (n_alloc n) (map snd (n_pods n))) - occupied_groups (map snd (n_pods n)) = 1)%Z.
Proof. eexists. split; [vm_compute; reflexivity|]. split; vm_compute; reflexivity. Qed.
Print Assumptions C14_device_guard_refuted.

(** What [Books] says, spelled out. *)
Theorem C14_books_meaning : forall n,
  Books n <->
  (n_used n = spec_used (tasks_of n)
   /\ (cpu (n_idle n) = cpu (spec_idle (n_alloc n) (tasks_of n))
       /\ mem (n_idle n) = mem (spec_idle (n_alloc n) (tasks_of n))
       /\ pods (n_idle n) = pods (spec_idle (n_alloc n) (tasks_of n))
       /\ mig (n_idle n) = mig (spec_idle (n_alloc n) (tasks_of n))
       /\ ext (n_idle n) = ext (spec_idle (n_alloc n) (tasks_of n)))
   /\ (cpu (n_rel n) = cpu (spec_rel (tasks_of n))
       /\ mem (n_rel n) = mem (spec_rel (tasks_of n))
       /\ pods (n_rel n) = pods (spec_rel (tasks_of n))
       /\ mig (n_rel n) = mig (spec_rel (tasks_of n))
       /\ ext (n_rel n) = ext (spec_rel (tasks_of n)))
   /\ (forall g, zget g (g_used n) = spec_gused g (tasks_of n)
                 /\ zget g (g_alloc n) = spec_galloc g (tasks_of n)
                 /\ zget g (g_rel n) = spec_grel g (tasks_of n)))
  /\ (sorted_keys (n_pods n) /\ Forall (fun kv => t_id (snd kv) = fst kv) (n_pods n)).
Proof. exact books_unfold. Qed.
Print Assumptions C14_books_meaning.

(** Main invariant: after any sequence of operations, used (all six columns),
    idle and releasing (cpu, memory, pod slots, MIG, extended), the three
    per-GPU-group shared-memory maps and the pod map agree with the values
    recomputed from the pods present. *)
Theorem C14_node_books : forall (n0 : node) (ops : list nop), Books n0 -> Books (run n0 ops).
Proof. exact node_books. Qed.
Print Assumptions C14_node_books.

(** Every freshly built node (no pods, no groups, idle = allocatable) satisfies it. *)
Theorem C14_node_books_init : forall n : node,
  n_pods n = [] -> g_used n = [] -> g_alloc n = [] -> g_rel n = [] ->
  n_idle n = n_alloc n -> n_used n = rzero -> n_rel n = rzero ->
  Books n.
Proof. exact node_books_init. Qed.
Print Assumptions C14_node_books_init.

(** The invariant implies the executable monitor the harness evaluates on the
    real NodeInfo after every operation. *)
Theorem C14_books_monitor : forall n : node, Books n -> books_ok false n (tasks_of n) = true.
Proof. exact books_ok_of_Books. Qed.
Print Assumptions C14_books_monitor.

(** On a well-formed node an update of a pod that is present never stops half-way
    (so skipping failed operations in [run] loses nothing). *)
Theorem C14_update_total : forall (n : node) (t : task),
  wf_pods (n_pods n) -> amem (t_id t) (n_pods n) = true -> exists n', update_task n t = Ok n'.
Proof. exact update_task_ok. Qed.
Print Assumptions C14_update_total.

(** Without shared tasks all six columns of used, idle and releasing are exact. *)
Theorem C14_node_wholegpu_exact : forall (n0 : node) (ops : list nop),
  Books n0 ->
  gpu (n_idle n0) = gpu (spec_idle (n_alloc n0) (tasks_of n0)) ->
  gpu (n_rel n0) = gpu (spec_rel (tasks_of n0)) ->
  Forall (fun t => is_shared t = false) (tasks_of n0) ->
  Forall (fun t => is_shared t = false) (op_tasks ops) ->
  let n := run n0 ops in
  n_used n = spec_used (tasks_of n)
  /\ n_idle n = spec_idle (n_alloc n) (tasks_of n)
  /\ n_rel n = spec_rel (tasks_of n).
Proof. exact node_wholegpu_exact. Qed.
Print Assumptions C14_node_wholegpu_exact.

(** Removing a non-shared task right after adding it restores the whole node
    (idle, used, releasing, group maps, marks, pod map). *)
Theorem C14_remove_add_inverse : forall (n : node) (t : task),
  amem (t_id t) (n_pods n) = false -> is_shared t = false ->
  exists n', add_task n t = Ok n' /\ remove_task n' (t_id t) = Ok n.
Proof. exact remove_add_inverse. Qed.
Print Assumptions C14_remove_add_inverse.

(** The same for shared tasks on a node without a nominated GPU holder — the
    full statement ([restored]: every column, group maps read through [zget]). *)
Definition C14_remove_add_inverse_shared : Prop :=
  forall n t, Books n -> amem (t_id t) (n_pods n) = false -> exposed (tasks_of n) t = false ->
    exists n' n'', add_task n t = Ok n' /\ remove_task n' (t_id t) = Ok n'' /\ restored n'' n.

(** It is false in the model (and the model agrees with the Go code on this
    path): nominating a sharer onto a device whose only sharer is terminating
    and withdrawing the nomination loses one releasing GPU.  The node of the
    witness is reached from an empty 4-GPU node, the task has positive memory. *)
Theorem C14_remove_add_inverse_shared_refuted : ~ C14_remove_add_inverse_shared.
Proof. exact remove_add_inverse_shared_false. Qed.
Print Assumptions C14_remove_add_inverse_shared_refuted.

Theorem C14_remove_add_inverse_shared_witness :
  exists n t n' n'',
    Books n /\ amem (t_id t) (n_pods n) = false /\ exposed (tasks_of n) t = false
    /\ (0 < t_gmem t)%Z /\ n_ngpu n = gpu (n_alloc n)
    /\ add_task n t = Ok n' /\ remove_task n' (t_id t) = Ok n''
    /\ gpu (n_rel n) = 1%Z /\ gpu (n_rel n'') = 0%Z.
Proof. exact remove_add_inverse_shared_refuted. Qed.
Print Assumptions C14_remove_add_inverse_shared_witness.

(** The group maps are restored only extensionally (a zero entry stays behind). *)
Theorem C14_remove_add_inverse_maps_refuted :
  exists t n' n'',
    add_task x_node t = Ok n' /\ remove_task n' (t_id t) = Ok n''
    /\ g_used x_node = [] /\ g_used n'' = [(1%positive, 0%Z)].
Proof. exact remove_add_inverse_shared_maps_refuted. Qed.
Print Assumptions C14_remove_add_inverse_maps_refuted.

(** What does hold for every task, shared or not, on every node: used, the pod
    map, idle / releasing except whole GPUs, and the group maps read through
    [zget] are restored.  Missing w.r.t. the full statement: the whole-GPU idle
    and releasing counts of a shared task. *)
Theorem C14_remove_add_inverse_shared_partial : forall (n : node) (t : task),
  amem (t_id t) (n_pods n) = false ->
  exists n' n'', add_task n t = Ok n' /\ remove_task n' (t_id t) = Ok n''
    /\ n_alloc n'' = n_alloc n /\ n_used n'' = n_used n /\ n_pods n'' = n_pods n
    /\ eq_nogpu (n_idle n'') (n_idle n) /\ eq_nogpu (n_rel n'') (n_rel n)
    /\ forall g, zget g (g_used n'') = zget g (g_used n)
              /\ zget g (g_alloc n'') = zget g (g_alloc n)
              /\ zget g (g_rel n'') = zget g (g_rel n).
Proof. exact remove_add_inverse_any. Qed.
Print Assumptions C14_remove_add_inverse_shared_partial.

(** A sufficient local condition for shared tasks: one device, status other than
    Pipelined, positive memory, and consistent books of that device
    ([group_tight]: used memory >= 0; no releasing memory on an unused device;
    the releasing mark is set exactly when all used memory is releasing; idle
    GPUs + used GPUs = GPUs of the node; sorted maps).  Then every column and
    the releasing marks are restored. *)
Theorem C14_remove_add_inverse_shared_local : forall (n : node) (t : task) (g : positive),
  amem (t_id t) (n_pods n) = false -> is_shared t = true -> t_groups t = [g] ->
  t_status t <> Pipelined -> (0 < t_gmem t)%Z ->
  ((0 <= zget g (g_used n))%Z
   /\ (zget g (g_used n) = 0%Z -> zget g (g_rel n) = 0%Z)
   /\ (marked g (g_mark n) = true <-> (zget g (g_used n) <> 0%Z /\ zget g (g_rel n) = zget g (g_used n)))
   /\ (gpu (n_idle n) + used_gpus n (g_used n))%Z = n_ngpu n
   /\ sorted_keys (g_used n) /\ sorted_keys (g_mark n)) ->
  exists n' n'', add_task n t = Ok n' /\ remove_task n' (t_id t) = Ok n'' /\ restored n'' n
     /\ forall g', marked g' (g_mark n'') = marked g' (g_mark n).
Proof. exact remove_add_inverse_shared_local. Qed.
Print Assumptions C14_remove_add_inverse_shared_local.

(** Its hypotheses are met on [nv_node] for a device with a running sharer, a
    marked releasing device and an unused device; on the releasing device the
    pair moves the releasing-GPU count 1 -> 0 -> 1. *)
Theorem C14_shared_local_nonvacuous :
  group_tight nv_node 1 /\ group_tight nv_node 2 /\ group_tight nv_node 3
  /\ exists n' n'',
       add_task nv_node (x_sh 1 Running 50 [2%positive]) = Ok n' /\ remove_task n' 1 = Ok n''
       /\ gpu (n_rel nv_node) = 1%Z /\ gpu (n_rel n') = 0%Z /\ gpu (n_rel n'') = 1%Z
       /\ marked 2 (g_mark n') = false /\ marked 2 (g_mark n'') = true.
Proof. exact shared_local_nonvacuous. Qed.
Print Assumptions C14_shared_local_nonvacuous.

(** Non-vacuity: a concrete node with a running sharer, a whole-GPU pod and a
    terminating sharer satisfies [Books]; so does the node after a sequence
    with an eviction, a removal, a nomination onto a shared device, two
    rejected operations and a whole-GPU add; the result is non-trivial. *)
Theorem C14_nonvacuous :
  Books nv_node
  /\ Books (run nv_node nv_ops)
  /\ map t_id (tasks_of (run nv_node nv_ops)) = [2; 4; 5; 6]%positive
  /\ zget 1 (g_used (run nv_node nv_ops)) = 50%Z
  /\ zget 1 (g_rel (run nv_node nv_ops)) = 10%Z
  /\ n_used (run nv_node nv_ops) = mkRes 400 400 2 4 0 0
  /\ books_ok false (run nv_node nv_ops) (tasks_of (run nv_node nv_ops)) = true.
Proof. exact node_books_nonvacuous. Qed.
Print Assumptions C14_nonvacuous.

(** Non-vacuity of [C14_node_wholegpu_exact]: its hypotheses hold for a
    concrete run over whole-GPU pods (statuses Running, Pipelined, Releasing, Binding). *)
Theorem C14_wholegpu_nonvacuous :
  Books x_node
  /\ Forall (fun t => is_shared t = false) (tasks_of x_node)
  /\ Forall (fun t => is_shared t = false) (op_tasks nv_ops_whole)
  /\ n_idle (run x_node nv_ops_whole) = mkRes 7800 7800 2 108 0 0
  /\ n_rel (run x_node nv_ops_whole) = mkRes 100 100 1 1 0 0.
Proof. exact node_wholegpu_nonvacuous. Qed.
Print Assumptions C14_wholegpu_nonvacuous.

(** ** Whole-GPU idle / releasing columns on nodes WITH shared pods
    (Proofs/NodeFull.v)

    [FullBooks n] = [Books n] plus the two whole-GPU equations of
    [books_ok true] (Model/NodeSpec.v), plus what the transitions read besides
    the counters: the releasing marks name exactly the devices all of whose
    used memory is releasing, the per-device maps are key-sorted, and the
    node's device count equals its allocatable GPUs.  Side conditions:
    [task_wf] (whole-GPU request >= 0, a shared request asks for positive
    device memory) and [no_nominated_gpu] (no Pipelined pod holds GPUs: the
    negation of [exposed]). *)
Theorem C14_full_books_meaning : forall n : node,
  FullBooks n <->
  (Books n
   /\ gpu (n_idle n) = (gpu (spec_idle (n_alloc n) (tasks_of n)) - occupied_groups (tasks_of n))%Z
   /\ gpu (n_rel n) = (gpu (spec_rel (tasks_of n)) + releasing_groups (tasks_of n))%Z
   /\ (forall g, marked g (g_mark n) = true <->
                 (0 < zget g (g_used n) /\ zget g (g_rel n) = zget g (g_used n))%Z)
   /\ sorted_keys (g_used n) /\ sorted_keys (g_mark n)
   /\ n_ngpu n = gpu (n_alloc n)).
Proof. exact full_books_unfold. Qed.
Print Assumptions C14_full_books_meaning.

(** Every operation preserves it when no nominated pod holds GPUs before and
    after (an update passes through a state that holds a subset of the pods). *)
Theorem C14_full_books_step : forall (n : node) (o : nop) (n' : node),
  FullBooks n -> forallb task_wf (tasks_of n) = true -> forallb task_wf (op_tasks [o]) = true ->
  no_nominated_gpu (tasks_of n) = true -> no_nominated_gpu (tasks_of n') = true ->
  apply_op n o = Ok n' -> FullBooks n'.
Proof. exact full_books_step. Qed.
Print Assumptions C14_full_books_step.

(** ... hence every operation sequence all of whose states are free of
    nominated GPU holders ([nn_run]: the predicate evaluated along the run).
    Generalises [C14_node_wholegpu_exact] from "no shared pods" to "shared
    pods, no nominated GPU holder". *)
Theorem C14_node_full_books : forall (n0 : node) (ops : list nop),
  FullBooks n0 -> forallb task_wf (tasks_of n0) = true -> forallb task_wf (op_tasks ops) = true ->
  nn_run n0 ops = true -> FullBooks (run n0 ops).
Proof. exact node_full_books. Qed.
Print Assumptions C14_node_full_books.

(** Every freshly built node satisfies it. *)
Theorem C14_full_books_init : forall n : node,
  n_pods n = [] -> g_used n = [] -> g_alloc n = [] -> g_rel n = [] -> g_mark n = [] ->
  n_idle n = n_alloc n -> n_used n = rzero -> n_rel n = rzero -> n_ngpu n = gpu (n_alloc n) ->
  FullBooks n.
Proof. exact full_books_init. Qed.
Print Assumptions C14_full_books_init.

(** It implies the executable monitor in its full mode. *)
Theorem C14_full_books_monitor : forall n : node, FullBooks n -> books_ok true n (tasks_of n) = true.
Proof. exact books_ok_true_of_FullBooks. Qed.
Print Assumptions C14_full_books_monitor.

(** The side condition is the negation of [exposed]. *)
Theorem C14_no_nominated_not_exposed : forall (ts : list task) (moved : task),
  no_nominated_gpu ts = true -> exposed ts moved = false.
Proof. exact exposed_no_nominated. Qed.
Print Assumptions C14_no_nominated_not_exposed.

(** The statement without the side condition along the run (only at both ends). *)
Definition C14_full_books_unconditional : Prop :=
  forall n0 ops,
    FullBooks n0 -> forallb task_wf (tasks_of n0) = true -> forallb task_wf (op_tasks ops) = true ->
    no_nominated_gpu (tasks_of n0) = true -> no_nominated_gpu (tasks_of (run n0 ops)) = true ->
    FullBooks (run n0 ops).

(** It is false: the history of [C14_device_guard_refuted] starts from an empty
    4-GPU node, ends without nominated pods, and ends with idle GPUs 0 where
    the recomputation says 1. *)
Theorem C14_full_books_unconditional_refuted : ~ C14_full_books_unconditional.
Proof. exact full_books_unconditional_refuted. Qed.
Print Assumptions C14_full_books_unconditional_refuted.

Theorem C14_full_books_needs_no_nominated :
  FullBooks x_node /\ forallb task_wf (tasks_of x_node) = true /\ forallb task_wf (op_tasks ng_ops) = true
  /\ no_nominated_gpu (tasks_of x_node) = true /\ no_nominated_gpu (tasks_of (run x_node ng_ops)) = true
  /\ nn_run x_node ng_ops = false
  /\ gpu (n_idle (run x_node ng_ops)) = 0%Z
  /\ (gpu (spec_idle (n_alloc (run x_node ng_ops)) (tasks_of (run x_node ng_ops)))
      - occupied_groups (tasks_of (run x_node ng_ops)) = 1)%Z.
Proof. exact full_books_needs_no_nominated. Qed.
Print Assumptions C14_full_books_needs_no_nominated.

(** The two equations of [books_ok true] alone are not inductive (the
    transitions read the releasing marks, which [books_ok] does not constrain),
    and the node's device count must equal its allocatable GPUs. *)
Theorem C14_books_equations_alone_not_inductive :
  exists n',
    books_ok true stray_node (tasks_of stray_node) = true
    /\ n_ngpu stray_node = gpu (n_alloc stray_node)
    /\ add_task stray_node (x_sh 1 Running 50 [1%positive]) = Ok n'
    /\ gpu (n_rel n') = (-1)%Z
    /\ books_ok true n' (tasks_of n') = false.
Proof. exact books_equations_alone_not_inductive. Qed.
Print Assumptions C14_books_equations_alone_not_inductive.

Theorem C14_device_count_must_match :
  exists n',
    books_ok true odd_node (tasks_of odd_node) = true
    /\ add_task odd_node (x_sh 1 Running 50 [1%positive]) = Ok n'
    /\ gpu (n_idle n') = 4%Z
    /\ (gpu (spec_idle (n_alloc n') (tasks_of n')) - occupied_groups (tasks_of n') = 3)%Z.
Proof. exact device_count_must_match. Qed.
Print Assumptions C14_device_count_must_match.

(** Non-vacuity: [nv_node] (running sharer on device 1, whole-GPU pod,
    terminating sharer on device 2) satisfies every hypothesis; the run binds
    a sharer into device 1 and one onto a fresh device, evicts the whole-GPU
    pod, drops the terminating sharer, binds a whole-GPU pod and nominates a
    pod that holds nothing. *)
Theorem C14_full_books_nonvacuous :
  FullBooks nv_node
  /\ forallb task_wf (tasks_of nv_node) = true /\ forallb task_wf (op_tasks fv_ops) = true
  /\ nn_run nv_node fv_ops = true
  /\ occupied_groups (tasks_of nv_node) = 2%Z /\ releasing_groups (tasks_of nv_node) = 1%Z
  /\ gpu (n_idle nv_node) = 1%Z /\ gpu (n_rel nv_node) = 1%Z
  /\ map t_id (tasks_of (run nv_node fv_ops)) = [2; 3; 5; 6; 8; 9]%positive
  /\ occupied_groups (tasks_of (run nv_node fv_ops)) = 2%Z
  /\ gpu (n_idle (run nv_node fv_ops)) = 0%Z /\ gpu (n_rel (run nv_node fv_ops)) = 1%Z
  /\ books_ok true (run nv_node fv_ops) (tasks_of (run nv_node fv_ops)) = true.
Proof. exact full_books_run_nonvacuous. Qed.
Print Assumptions C14_full_books_nonvacuous.


(** * Workload clause: pod group and pod set counters (Model/JobBooks.v, Proofs/JobBooks.v)

    [jrun (jb_init mins) ops] applies a history of AddTaskInfo / UpdateTaskStatus / removal operations to an
    empty pod group whose pod sets have the minimums [mins].  [legal]: a pod is added once and
    UpdateTaskStatus is handed an object carrying the status the pod group has for that pod (what the
    scheduler does).  [pods_of j] are the pods the workload holds; [rc_*] recompute from them. *)

(** After ANY legal history every incremental counter of the workload - activeAllocatedCount, the size of
    PodStatusIndex under each of the 12 statuses, Allocated in both representations, and per pod set
    numActiveAllocatedTasks / numActiveUsedTasks / numAliveTasks and the sizes of podStatusIndex - equals its
    recomputation from the pods and their statuses (executable form, the check the monitor runs). *)
Theorem C14_job_counters_exact : forall (mins : amap Z) (ops : list jop),
  legal (jb_init mins) ops = true -> books_okb (jrun (jb_init mins) ops) = true.
Proof. exact job_counters_exact. Qed.
Print Assumptions C14_job_counters_exact.

(** the same, spelled out *)
Theorem C14_job_counters_exact_unfolded : forall (mins : amap Z) (ops : list jop),
  legal (jb_init mins) ops = true ->
  let j := jrun (jb_init mins) ops in
  let l := pods_of j in
  jb_active j = rc_active l
  /\ (forall s, ix_size s (jb_idx j) = rc_size s l)
  /\ jb_alloc j = rc_alloc l /\ jb_allocv j = rc_allocv l
  /\ (forall k ps, alookup k (jb_psets j) = Some ps ->
        let lk := filter (in_pset k) l in
        pb_aa ps = rc_active lk /\ pb_au ps = rc_used lk /\ pb_alive ps = rc_alive lk
        /\ forall s, ix_size s (pb_idx ps) = rc_size s lk).
Proof. exact job_counters_exact_unfolded. Qed.
Print Assumptions C14_job_counters_exact_unfolded.

(** from any consistent state (a snapshot), not only from the empty pod group *)
Theorem C14_job_counters_exact_from_consistent_state : forall (j : jobb) (ops : list jop),
  Inv j -> legal j ops = true -> books_okb (jrun j ops) = true.
Proof. exact job_counters_exact_from. Qed.
Print Assumptions C14_job_counters_exact_from_consistent_state.

(** PodStatusIndex holds under each status exactly the pods that have it (members, not only counts) *)
Theorem C14_job_index_members : forall (mins : amap Z) (ops : list jop) (s : status) (id : positive),
  legal (jb_init mins) ops = true ->
  let j := jrun (jb_init mins) ops in
  In (s, id) (jb_idx j) <-> exists p, In p (pods_of j) /\ jp_id p = id /\ jp_status p = s.
Proof. exact job_index_members. Qed.
Print Assumptions C14_job_index_members.

(** structured and vector representation of Allocated agree when they agree pod by pod *)
Theorem C14_job_vector_agrees : forall (mins : amap Z) (ops : list jop),
  legal (jb_init mins) ops = true ->
  let j := jrun (jb_init mins) ops in
  Forall (fun p => jp_req p = jp_reqv p) (pods_of j) -> jb_alloc j = jb_allocv j.
Proof. exact job_vector_agrees. Qed.
Print Assumptions C14_job_vector_agrees.

(** the gang predicates read off a pod set's counters are the ones computed from its pods *)
Theorem C14_job_gang_predicates : forall (mins : amap Z) (ops : list jop) (k : positive) (ps : psetb),
  legal (jb_init mins) ops = true ->
  let j := jrun (jb_init mins) ops in
  alookup k (jb_psets j) = Some ps ->
  let lk := filter (in_pset k) (pods_of j) in
  ps_gang_satisfied ps = (pb_min ps <=? rc_used lk)%Z
  /\ ps_ready ps = (pb_min ps <=? rc_alive lk - rc_size Gated lk)%Z
  /\ ps_num_pending ps = rc_size Pending lk.
Proof. exact job_gang_predicates. Qed.
Print Assumptions C14_job_gang_predicates.

(** UpdateTaskStatus is the removal of the pod followed by AddTaskInfo with the new status (whatever the
    decrement test and the passed status are) *)
Theorem C14_job_update_is_remove_then_add :
  forall (dec : status -> bool) (id : positive) (passed new : status) (cur : jpod) (j : jobb),
  sorted_keys (jb_pods j) -> alookup id (jb_pods j) = Some cur -> jp_id cur = id ->
  amem (jp_pset cur) (jb_psets j) = true ->
  update_task_status_g dec id passed new j
  = (add_task_info (jp_with cur new) (fst (remove_task_g dec id passed j)), false).
Proof. exact update_is_remove_then_add. Qed.
Print Assumptions C14_job_update_is_remove_then_add.

(** Refuted for the variant of deleteTaskIndex that decrements only when the pod leaves an ALLOCATED status
    (it forgets Pipelined): add a Pending pod, nominate it, take the nomination back - the counter says 1,
    no pod is active-allocated; the code ([jrun]) is exact on the same history. *)
Theorem C14_job_asymmetric_decrement_refuted :
  legal_g allocated_status (jb_init w_mins) asym_history = true
  /\ legal (jb_init w_mins) asym_history = true
  /\ books_okb (run_g allocated_status (jb_init w_mins) asym_history) = false
  /\ jb_active (run_g allocated_status (jb_init w_mins) asym_history) = 1%Z
  /\ rc_active (pods_of (run_g allocated_status (jb_init w_mins) asym_history)) = 0%Z
  /\ books_okb (jrun (jb_init w_mins) asym_history) = true
  /\ jb_active (jrun (jb_init w_mins) asym_history) = 0%Z.
Proof. exact asymmetric_decrement_refuted. Qed.
Print Assumptions C14_job_asymmetric_decrement_refuted.

(** ... and drifts by one more with every further nominate / un-nominate round *)
Theorem C14_job_asymmetric_decrement_drifts : forall n : nat,
  jb_active (run_g allocated_status (jb_init w_mins) (JAdd (w_pod 1 Pending) :: rounds n)) = Z.of_nat n
  /\ rc_active (pods_of (run_g allocated_status (jb_init w_mins) (JAdd (w_pod 1 Pending) :: rounds n))) = 0%Z.
Proof. exact asymmetric_decrement_drifts. Qed.
Print Assumptions C14_job_asymmetric_decrement_drifts.

(** The decrement test of deleteTaskIndex is determined by the increment test of addTaskIndex: the books
    stay exact along every legal history iff the two tests are the same predicate on all 12 statuses. *)
Theorem C14_job_decrement_test_unique : forall dec : status -> bool,
  (forall mins ops, legal_g dec (jb_init mins) ops = true -> books_okb (run_g dec (jb_init mins) ops) = true)
  <-> (forall s, dec s = active_allocated s).
Proof. exact decrement_test_unique. Qed.
Print Assumptions C14_job_decrement_test_unique.

(** [legal] is needed: UpdateTaskStatus handed a copy whose Status is stale leaves the pod indexed under its
    old status as well (the index is keyed by the passed status) ... *)
Theorem C14_job_stale_status_refuted :
  legal (jb_init w_mins) stale_history = false
  /\ books_okb (jrun (jb_init w_mins) stale_history) = false
  /\ ix_size Pipelined (jb_idx (jrun (jb_init w_mins) stale_history)) = 1%Z
  /\ rc_size Pipelined (pods_of (jrun (jb_init w_mins) stale_history)) = 0%Z
  /\ ix_size Releasing (jb_idx (jrun (jb_init w_mins) stale_history)) = 1%Z
  /\ jb_active (jrun (jb_init w_mins) stale_history) = rc_active (pods_of (jrun (jb_init w_mins) stale_history)).
Proof. exact stale_status_refuted. Qed.
Print Assumptions C14_job_stale_status_refuted.

(** ... and AddTaskInfo twice for the same pod counts it twice at pod-group level. *)
Theorem C14_job_double_add_refuted :
  legal (jb_init w_mins) double_add_history = false
  /\ books_okb (jrun (jb_init w_mins) double_add_history) = false
  /\ jb_active (jrun (jb_init w_mins) double_add_history) = 2%Z
  /\ rc_active (pods_of (jrun (jb_init w_mins) double_add_history)) = 1%Z
  /\ gpu (jb_alloc (jrun (jb_init w_mins) double_add_history)) = 2%Z.
Proof. exact double_add_refuted. Qed.
Print Assumptions C14_job_double_add_refuted.

(** Non-vacuity: a legal history over two pod sets through nomination, eviction, un-eviction, binding, an
    update of a pod the job does not hold, a removal and a completion. *)
Theorem C14_job_counters_nonvacuous :
  legal (jb_init nv_mins) nv_history = true
  /\ map (fun p => (jp_id p, jp_status p)) (pods_of (jrun (jb_init nv_mins) nv_history))
     = [(1%positive, Succeeded); (2%positive, Pipelined); (4%positive, Binding)]
  /\ jb_active (jrun (jb_init nv_mins) nv_history) = 2%Z
  /\ gpu (jb_alloc (jrun (jb_init nv_mins) nv_history)) = 1%Z
  /\ is_gang_satisfied (jrun (jb_init nv_mins) nv_history) = false
  /\ should_pipeline (jrun (jb_init nv_mins) nv_history) = true
  /\ is_stale (jrun (jb_init nv_mins) nv_history) = false
  /\ books_okb (jrun (jb_init nv_mins) nv_history) = true.
Proof. exact job_counters_nonvacuous. Qed.
Print Assumptions C14_job_counters_nonvacuous.

(** * Queue clause: the proportion plugin's books (Model/QueueBooks.v over Model/Capacity.v)

    [b_open] is updateQueuesCurrentResourceUsage (Model/Capacity.v [load_init] for Allocated /
    AllocatedNotPreemptible, [load_requests] for Request), [brun] any sequence of allocate / deallocate handler
    events and silent status changes on the pods of the session; [recomputed np qs ps a r] is the sum, over the
    pods [ps] whose CURRENT status holds resources and whose queue lies in the subtree of [a], of what they
    hold; [recomputed_request] the session-open sum (holders with what they hold, Pending pods with what they
    ask for).  The names of Model/Capacity.v ([task], [res], [run], ...) would clash with the node model above:
    they are imported inside the module only. *)
From Coq Require QArith.
From KaiV Require Model.Capacity Model.CapacitySpec Model.QueueBooks Proofs.QueueBooks.
Module QueueClause.
Import QArith.
Import Model.Status Model.Capacity Model.CapacitySpec Model.QueueBooks Proofs.QueueBooks.
Local Open Scope Q_scope.

(** Session open: for ALL queue forests and ALL snapshots (pods in any status but Pipelined, which a cluster
    snapshot never yields) every queue's Allocated and AllocatedNotPreemptible equal the recomputation from the
    pods, and every queue's Request equals the session-open recomputation. *)
Theorem C14_queue_books_open_exact :
  forall (fuel : nat) (qs : list queue) (ps : list spod) (s : bstate),
    wf_forest qs = true -> fresh qs -> no_pipelined ps = true ->
    b_open fuel qs ps = Done s ->
    bexact s /\
    (forall a r, rget (req_get (b_req s) a) r == recomputed_request qs ps a r) /\
    wf_forest (b_queues s) = true /\ b_pods s = ps /\ map shape (b_queues s) = map shape qs.
Proof. exact queue_books_open_exact. Qed.
Print Assumptions C14_queue_books_open_exact.

(** ... and the pass terminates on every forest. *)
Theorem C14_queue_books_open_total :
  forall (qs : list queue) (ps : list spod),
    wf_forest qs = true -> fresh qs -> exists s, b_open (default_fuel qs) qs ps = Done s.
Proof. exact queue_books_open_total. Qed.
Print Assumptions C14_queue_books_open_total.

(** Handlers: from any exact state, after ANY sequence of placements (allocate handler), evictions / undos
    (deallocate handler) and silent status changes the books are exact for the pods' current statuses; Request
    is not touched. *)
Theorem C14_queue_books_events_exact :
  forall (fuel : nat) (s0 : bstate) (es : list bevent) (s : bstate),
    wf_forest (b_queues s0) = true -> NoDup (map sp_task (b_pods s0)) -> bexact s0 ->
    brun fuel s0 es = Done s ->
    bexact s /\ b_req s = b_req s0 /\ wf_forest (b_queues s) = true /\
    map sp_task (b_pods s) = map sp_task (b_pods s0).
Proof. exact queue_books_events_exact. Qed.
Print Assumptions C14_queue_books_events_exact.

(** A whole cycle: session open, then any events. *)
Theorem C14_queue_books_cycle_exact :
  forall (fuel fuel' : nat) (qs : list queue) (ps : list spod) (s0 : bstate) (es : list bevent) (s : bstate),
    wf_forest qs = true -> fresh qs -> no_pipelined ps = true -> NoDup (map sp_task ps) ->
    b_open fuel qs ps = Done s0 -> brun fuel' s0 es = Done s ->
    bexact s /\
    (forall a r, rget (req_get (b_req s) a) r == recomputed_request qs ps a r) /\
    wf_forest (b_queues s) = true /\ map sp_task (b_pods s) = map sp_task ps.
Proof. exact queue_books_cycle_exact. Qed.
Print Assumptions C14_queue_books_cycle_exact.

(** Requested GPUs in extended numbers ([xq]: finite, +Inf, NaN), the divisor of the gpu-memory term explicit.
    With a positive divisor (ClusterInfo.MinNodeGPUMemory) the share a Pending pod asks for is the finite
    quantity of [pending_request], and every queue's requested GPU quantity is finite. *)
Theorem C14_queue_pending_gpu_finite :
  forall (d : Z) (t : task), (0 < d)%Z ->
    pending_gpu_x d t = XFin (r_gpu (pending_request (Z.to_pos d) t)).
Proof. exact pending_gpu_finite. Qed.
Print Assumptions C14_queue_pending_gpu_finite.

Theorem C14_queue_requested_finite :
  forall (qs : list queue) (d : Z) (pend : list (task * positive)) (a : positive), (0 < d)%Z ->
    exists q, requested_gpu_x qs d pend a = XFin q.
Proof. exact requested_gpu_finite. Qed.
Print Assumptions C14_queue_requested_finite.

(** The variant that divides by a field that is still 0 (seeded/C14-5: pp.minNodeGPUMemory is assigned after
    the books are built): ONE pending gpu-memory pod makes the requested GPUs of its queue and of every ancestor
    +Inf, on every forest. *)
Theorem C14_queue_requested_unset_divisor_refuted :
  forall (qs : list queue) (pend : list (task * positive)) (a : positive) (t : task) (jq : positive),
    In (t, jq) pend -> in_subtree qs a jq = true -> t_type t = GpuMemory ->
    (0 < g_memory (t_gpu t))%Z -> (0 < g_count (t_gpu t))%Z ->
    forallb gpu_memory_sane pend = true ->
    requested_gpu_x qs 0 pend a = XInf.
Proof. exact requested_gpu_unset_divisor_infinite. Qed.
Print Assumptions C14_queue_requested_unset_divisor_refuted.

(** The snapshot of the seeded change's demonstration (dept 1 with team-a 2 and team-b 3; a pending whole-GPU
    pod in team-a, a pending gpu-memory 4000 MiB pod in team-b, 16000 MiB devices), evaluated. *)
Theorem C14_queue_readme_world_refuted :
  wf_forest rw_queues = true /\ forallb gpu_memory_sane rw_pend = true /\
  r_gpu (job_task_request rw_whole) = 1 /\ r_gpu (job_task_request rw_mem) = 0 /\
  r_gpu (pending_request 16000 rw_mem) = 1 # 4 /\
  requested_gpu_x rw_queues 16000 rw_pend 2 = XFin 1 /\
  requested_gpu_x rw_queues 16000 rw_pend 3 = XFin (1 # 4) /\
  requested_gpu_x rw_queues 16000 rw_pend 1 = XFin (5 # 4) /\
  requested_gpu_x rw_queues 0 rw_pend 2 = XFin 1 /\
  requested_gpu_x rw_queues 0 rw_pend 3 = XInf /\
  requested_gpu_x rw_queues 0 rw_pend 1 = XInf.
Proof. exact readme_world_refuted. Qed.
Print Assumptions C14_queue_readme_world_refuted.

(** Non-vacuity: the GPU books (allocated, non-preemptible, requested) of the three queues at session open and
    after each of [place 22 (pipeline, 1/4); 23 -> Running (silent); evict 21; undo 22]; and why [no_pipelined]
    is needed: a snapshot holding a Pipelined pod opens with books that are NOT exact. *)
Theorem C14_queue_books_nonvacuous :
  fresh rw_queues /\ no_pipelined rw_pods = true /\ NoDup (map sp_task rw_pods) /\
  books_after [] = [(1%positive, 3 # 2, 1 # 2, 7 # 4); (2%positive, 1, 0, 1); (3%positive, 1 # 2, 1 # 2, 3 # 4)] /\
  books_after (firstn 1 rw_events)
    = [(1%positive, 7 # 4, 1 # 2, 7 # 4); (2%positive, 1, 0, 1); (3%positive, 3 # 4, 1 # 2, 3 # 4)] /\
  books_after (firstn 2 rw_events) = books_after (firstn 1 rw_events) /\
  books_after (firstn 3 rw_events)
    = [(1%positive, 3 # 4, 1 # 2, 7 # 4); (2%positive, 0, 0, 1); (3%positive, 3 # 4, 1 # 2, 3 # 4)] /\
  books_after rw_events
    = [(1%positive, 1 # 2, 1 # 2, 7 # 4); (2%positive, 0, 0, 1); (3%positive, 1 # 2, 1 # 2, 3 # 4)] /\
  (exists s, b_open 4 rw_queues (rw_pod 24 3 true Pipelined 1 1 :: rw_pods) = Done s /\
             recomputed false (b_queues s) (b_pods s) 3 GPU == 3 # 2 /\
             (forall q, In q (b_queues s) -> q_id q = 3%positive -> rget (q_alloc q) GPU == 1 # 2) /\
             ~ bexact s).
Proof. exact queue_books_nonvacuous. Qed.
Print Assumptions C14_queue_books_nonvacuous.
End QueueClause.
