(** C10 — A scheduling cycle completes on any API state.
    Statements only; proofs are in Proofs/Totality.v. The model (Model/Totality.v) writes
    every loop of the scheduler that follows links in API-provided graphs as a fuelled
    function returning [Done v | OutOfFuel | Panic]; [OutOfFuel] with fuel |queues|+1 means
    the Go loop spins, [Panic] is a nil / missing-key dereference. All statements quantify
    over every queue graph, every start queue and every other content ([stop] = the numeric
    early exits, [has], [ch], [created]). *)
From Coq Require Import List ZArith String Bool.
From KaiV Require Import Model.Totality Proofs.Totality.
Import ListNotations.

(** (1) On a well-formed queue graph (unique keys, every parent chain reaches a root within
    |queues| steps, all parents exist) every modelled walk returns [Done] with fuel
    |queues|+1 and never panics. *)
Theorem C10_total_on_wellformed :
  forall g : qgraph, wellformed g = true -> walks_total g.
Proof. exact total_on_wellformed. Qed.
Print Assumptions C10_total_on_wellformed.

(** the decidable forest test means what it should: every queue reaches a root after some
    (unbounded) number of parent steps *)
Theorem C10_forest_test_exact :
  forall g : qgraph, forest g = true <-> is_forest g.
Proof. exact forest_iff_is_forest. Qed.
Print Assumptions C10_forest_test_exact.

(** (2) The same WITHOUT the forest hypothesis — any API state. After the repairs 48422bb
    (UpdateQueueHierarchy drops queues whose parent chain is cyclic), 0ac7c83 (handlers
    tolerate a missing queue) and ee1060a (eviction message tolerates a missing parent) this is
    a theorem about the code as it is: whatever the Queue objects say, UpdateQueueHierarchy
    terminates and returns a well-formed graph, on which every modelled walk, the reclaim
    eviction message for two existing queues and the fair-share recursion over the stored
    ChildQueues return [Done] with fuel |queues|+1. *)
Theorem C10_total_on_any_graph :
  forall g : qgraph, nodup_keys (keys g) = true -> total_after_hierarchy g.
Proof. exact total_on_any_graph. Qed.
Print Assumptions C10_total_on_any_graph.

(** what UpdateQueueHierarchy leaves: a well-formed sub-graph of the input in which every stored
    ChildQueues entry of a remaining queue is itself a remaining queue with that parent, and
    which keeps (unchanged) every queue whose own parent chain reaches a root *)
Theorem C10_hierarchy_spec :
  forall g : qgraph, nodup_keys (keys g) = true ->
    exists g2, update_queue_hierarchy (fuel_of g) g = Done g2 /\
               wellformed g2 = true /\
               (forall e, In e g2 -> In e g) /\
               (forall x c, lookup g2 x <> None -> In c (hierarchy_children g x) -> lookup g2 c = Some (Some x)) /\
               (forall x n, steps_to_root g x n -> lookup g2 x = lookup g x /\ lookup (clean_cycles g) x = lookup g x).
Proof. exact hierarchy_spec. Qed.
Print Assumptions C10_hierarchy_spec.

(** the reclaim eviction message is total for two existing queues on EVERY graph *)
Theorem C10_message_total :
  forall g : qgraph, message_total g.
Proof. exact message_total_any. Qed.
Print Assumptions C10_message_total.

(** The parent-chain loops themselves are still NOT total on an arbitrary map — they rely on
    UpdateQueueHierarchy having run first (function-level fact, replayed on the Go code by the
    corpus cases of kind rawcap): *)
Definition C10_walks_total_without_hierarchy : Prop :=
  forall g : qgraph, nodup_keys (keys g) = true -> walks_total g.

Theorem C10_walks_total_without_hierarchy_refuted :
  exists g, nodup_keys (keys g) = true /\ ~ walks_total g.
Proof. exact walks_without_hierarchy_refuted. Qed.
Print Assumptions C10_walks_total_without_hierarchy_refuted.

(** witness 1: queue a { parent: a }: every parent-chain loop started in it spins (with any
    amount of fuel); before 48422bb it survived UpdateQueueHierarchy *)
Theorem C10_v0_refuted_self_parent :
  update_queue_hierarchy_v0 (fuel_of g_self) g_self = Done g_self /\
  walk (fuel_of g_self) g_self (Some 1%positive) = OutOfFuel /\
  walk_until (fuel_of g_self) g_self (fun _ => false) (Some 1%positive) = OutOfFuel /\
  hierarchy_path (fuel_of g_self) g_self 1%positive = OutOfFuel.
Proof. exact self_parent_walk_spins. Qed.
Print Assumptions C10_v0_refuted_self_parent.

Theorem C10_self_parent_spins_with_any_fuel :
  forall fuel, walk fuel g_self (Some 1%positive) = OutOfFuel.
Proof. exact more_fuel_does_not_help. Qed.
Print Assumptions C10_self_parent_spins_with_any_fuel.

(** witness 2: a <-> b *)
Theorem C10_v0_refuted_two_cycle :
  update_queue_hierarchy_v0 (fuel_of g_two) g_two = Done g_two /\
  walk (fuel_of g_two) g_two (Some 1%positive) = OutOfFuel /\
  reclaimable_skeleton (fuel_of g_two) g_two (fun _ => false) 1%positive 2%positive 1 = OutOfFuel.
Proof. exact two_cycle_walk_spins. Qed.
Print Assumptions C10_v0_refuted_two_cycle.

(** ... and now both are dropped *)
Theorem C10_cycles_are_dropped :
  update_queue_hierarchy_v0 (fuel_of g_self) g_self = Done g_self /\
  update_queue_hierarchy_v0 (fuel_of g_two) g_two = Done g_two /\
  update_queue_hierarchy (fuel_of g_self) g_self = Done [] /\
  update_queue_hierarchy (fuel_of g_two) g_two = Done [].
Proof. exact hierarchy_v0_kept_cycles. Qed.
Print Assumptions C10_cycles_are_dropped.

(** witness 3: a queue whose parent is missing is deleted by UpdateQueueHierarchy; a pod group
    still pointing at it made the proportion plugin's (de)allocate handler dereference nil
    (before 0ac7c83); now the handler returns *)
Theorem C10_v0_refuted_missing_parent :
  exists g', update_queue_hierarchy (fuel_of g_orphan) g_orphan = Done g' /\
             lookup g' 2%positive = None /\
             handler_v0 (fuel_of g') g' 2%positive = Panic /\
             handler (fuel_of g') g' 2%positive = Done [].
Proof. exact orphan_job_handler_panics. Qed.
Print Assumptions C10_v0_refuted_missing_parent.

(** witness 4: on a WELL-FORMED graph whose leaves sit at different depths the reclaim
    eviction message dereferenced the nil parent of the top-level leaf (before ee1060a) *)
Definition C10_message_total_v0_on_wellformed : Prop :=
  forall g : qgraph, wellformed g = true -> message_total_v0 g.

Theorem C10_message_total_v0_on_wellformed_refuted :
  exists g, wellformed g = true /\ ~ message_total_v0 g.
Proof. exact message_total_v0_refuted_on_wellformed. Qed.
Print Assumptions C10_message_total_v0_on_wellformed_refuted.

Theorem C10_v0_refuted_top_level_leaf :
  wellformed g_mixed = true /\
  eviction_message_v0 g_mixed 1%positive 3%positive = Panic /\
  eviction_message_v0 g_mixed 3%positive 1%positive = Panic /\
  eviction_message_v0 g_mixed 1%positive 2%positive = Done tt /\
  eviction_message g_mixed 1%positive 3%positive = Done tt.
Proof. exact top_level_leaf_message_panics. Qed.
Print Assumptions C10_v0_refuted_top_level_leaf.

(** (3) FromPodGroup terminates without a panic on EVERY sub-group list (duplicates, missing
    or cyclic parents, minMember <= 0), returns an error (the job falls back to its default pod
    set) exactly on a duplicate name or an unresolvable parent, and every pod set the job ends
    up with has a minimum of at least 1. *)
Theorem C10_subgroups_total :
  forall (sgs : list subgroup) (min_member : Z),
    (exists r, from_pod_group (S (List.length sgs)) sgs = Done r) /\
    (from_pod_group (S (List.length sgs)) sgs = Done None <->
       (has_dup (names sgs) = true \/ parents_found sgs = false)) /\
    (exists l, set_sub_groups (S (List.length sgs)) sgs min_member = Done l /\ l <> [] /\
               forall n m, In (n, m) l -> (1 <= m)%Z).
Proof. exact subgroups_total. Qed.
Print Assumptions C10_subgroups_total.

(** (4) Non-interference in the model of the allocate path restricted to queues: extra Queue
    objects (malformed or not) next to [g] do not change the eligibility verdict (passes
    InitializeWithJobs and both capacity walks, after UpdateQueueHierarchy) of a job whose own
    queue chain is well formed, unless one of them names the job's queue as its parent. *)
Theorem C10_healthy_unaffected :
  forall (g e : qgraph) (s1 s2 : qid -> bool) (q : qid) (n : nat),
    nodup_keys (keys (g ++ e)) = true ->
    steps_to_root g q n ->
    (forall c, ~ In (c, Some q) e) ->
    eligible (fuel_of (g ++ e)) (g ++ e) s1 s2 q = eligible (fuel_of g) g s1 s2 q.
Proof. exact healthy_unaffected_holds. Qed.
Print Assumptions C10_healthy_unaffected.

Theorem C10_healthy_nonvacuous :
  let g := [(1%positive, None); (2%positive, Some 1%positive)] in
  let e := [(3%positive, Some 3%positive); (4%positive, Some 9%positive); (5%positive, Some 1%positive)] in
  nodup_keys (keys (g ++ e)) = true /\ steps_to_root g 2%positive 1 /\ (forall c, ~ In (c, Some 2%positive) e) /\
  eligible (fuel_of (g ++ e)) (g ++ e) (fun _ => false) (fun _ => false) 2%positive = Done true.
Proof. exact healthy_example. Qed.
Print Assumptions C10_healthy_nonvacuous.

(** Non-vacuity: a three-level forest meets the hypothesis of (1) and its walks return the
    expected values; sub-group lists of each kind behave as stated. *)
Theorem C10_nonvacuous :
  wellformed g_tree = true /\
  walk (fuel_of g_tree) g_tree (Some 4%positive) = Done [4%positive; 2%positive; 1%positive] /\
  leveled_queues (fuel_of g_tree) g_tree 4%positive 3%positive = Done (2%positive, 3%positive) /\
  set_fair_share (fuel_of g_tree) g_tree (children_of g_tree) = Done [1%positive; 2%positive; 3%positive; 4%positive] /\
  eviction_message g_tree 4%positive 3%positive = Done tt.
Proof. exact tree_wellformed. Qed.
Print Assumptions C10_nonvacuous.

(** non-vacuity of (2): a cycle with a leaf below it and an orphan chain next to a healthy tree
    are all removed, the healthy tree stays *)
Theorem C10_any_graph_nonvacuous :
  nodup_keys (keys g_messy) = true /\
  update_queue_hierarchy (fuel_of g_messy) g_messy = Done [(1%positive, None); (2%positive, Some 1%positive)].
Proof. exact messy_cleaned. Qed.
Print Assumptions C10_any_graph_nonvacuous.

Theorem C10_subgroups_nonvacuous :
  set_sub_groups 4 [sg "a" None 1; sg "b" (Some "a"%string) 0; sg "c" (Some "A"%string) (-4)] 5
    = Done [("b"%string, 1%Z); ("c"%string, 1%Z)] /\
  from_pod_group 3 [sg "a" (Some "b"%string) 1; sg "b" (Some "a"%string) 1] = Done (Some (SGNode EmptyString [] [])) /\
  set_sub_groups 3 [sg "a" (Some "b"%string) 1; sg "b" (Some "a"%string) 1] 0 = Done [("default"%string, 1%Z)] /\
  from_pod_group 3 [sg "a" None 1; sg "a" None 2] = Done None /\
  from_pod_group 2 [sg "a" (Some "zz"%string) 1] = Done None.
Proof. exact subgroup_examples. Qed.
Print Assumptions C10_subgroups_nonvacuous.
