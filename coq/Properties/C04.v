(** C04 — Hard placement constraints hold for every bind and nomination.
    Statements only; proofs are in Proofs/Placement.v, Proofs/Topology.v and
    Proofs/TopologyPinning.v.

    Oracles (every statement holds for all of them): node order / scoring, the
    capacity and resource checks, whether a failed statement keeps its partial
    result, the fit filter and ordering of candidate topology domains, and the
    task placement inside a node set.  The upstream kube-scheduler filters are
    represented by the checker [hard_ok]; that the real filters compute it is
    validated by differential execution (harness/internal/c04), not proved. *)
From Coq Require Import List String ZArith Bool.
From KaiV Require Import Model.Status Model.Placement Model.Topology Proofs.Placement Proofs.Topology Proofs.TopologyPinning.
Import ListNotations.
Open Scope string_scope.
Open Scope list_scope.

(** The boolean checker is sound and complete for the declarative constraints:
    node in the snapshot, in the pool, ready and schedulable, node selector and
    required node affinity, NoSchedule/NoExecute taints tolerated, required pod
    affinity and anti-affinity, required anti-affinity of the pods already placed. *)
Theorem C04_hard_ok_iff :
  forall (cl : cluster) (placed : placed_t) (pn : ppod * string),
    hard_ok cl placed pn = true <-> HardOK cl placed pn.
Proof. exact hard_ok_iff. Qed.
Print Assumptions C04_hard_ok_iff.

(** Every placement a cycle commits (bind or nomination, in any action, after
    any number of rolled-back attempts) satisfies the hard constraints w.r.t. the
    pods on the nodes before it - the initial ones and every placement committed
    earlier in the cycle ([chain]) - for all job / task / node orders. *)
Theorem C04_every_placement_hard_ok :
  forall (cl : cluster) (order : lstate -> ppod -> list string) (fits : lstate -> ppod -> string -> bool)
         (keep : lstate -> list prec -> bool) (s : lstate) (jobs : list (list ppod)) (s' : lstate) (recs : list prec),
    run_jobs cl order fits keep s jobs = (s', recs) ->
    chain (s_placed s) recs (s_placed s')
    /\ Forall (fun rc => HardOK cl (r_before rc) (r_pod rc, r_node rc)) recs.
Proof. exact every_placement_hard_ok. Qed.
Print Assumptions C04_every_placement_hard_ok.

(** Of any two placements of a cycle, neither violates the other's required
    anti-affinity (the later pod's terms against the earlier pod, and the
    earlier pod's terms against the later one). *)
Theorem C04_symmetric_anti_affinity :
  forall cl order fits keep s jobs s' l1 rc1 l2 rc2 l3,
    run_jobs cl order fits keep s jobs = (s', l1 ++ rc1 :: l2 ++ rc2 :: l3) ->
    exists n2, find_node cl (r_node rc2) = Some n2
      /\ (forall t, In t (pd_anti (r_pod rc1)) -> TermMatches (r_pod rc1) t (r_pod rc2) ->
            ~ SameDomain cl (pt_key t) n2 (r_node rc1))
      /\ (forall t, In t (pd_anti (r_pod rc2)) -> TermMatches (r_pod rc2) t (r_pod rc1) ->
            ~ SameDomain cl (pt_key t) n2 (r_node rc1)).
Proof. exact symmetric_anti_affinity. Qed.
Print Assumptions C04_symmetric_anti_affinity.

(** Required topology levels, full strength: for every (sub-)group [g'] of the
    tree with required level l in topology T, the nodes its pods were newly
    placed on carry all labels of T and agree on levels 0..l, together with an
    already active pod of [g'] if there is one; nested groups simultaneously; a
    missing topology places nothing. *)
Definition C04_topology_required : Prop := topology_required_statement.

(** The code as it is violates it: domain ids are the "."-joined label values,
    so nodes {zone=a.b, rack=c} and {zone=a, rack=b.c} share the rack-level id
    "a.b.c" and a gang with required level rack is placed on both. *)
Theorem C04_topology_required_refuted : ~ C04_topology_required.
Proof. exact topology_required_refuted. Qed.
Print Assumptions C04_topology_required_refuted.

(** It holds whenever the joined ids are injective on the label vectors of the
    session's nodes (e.g. no topology label value contains "."), for ANY fit /
    ordering oracle [sel] and ANY task-placement oracle [place]. *)
Theorem C04_topology_required_partial :
  forall (topos : list topo) (nodes : list pnode)
         (sel : option tcons -> list positive -> list string -> active_t -> list (nat * (string -> bool)))
         (place : list string -> positive -> active_t -> option string)
         (tasks : list positive) (g : sgt) (allowed : list string) (act act' : active_t),
    (forall T, In T topos -> topo_wf T) -> NoDup (map nd_name nodes) -> NoDup (members g) ->
    IdsInjective topos nodes ->
    alloc_sg topos nodes sel place tasks g allowed act = Some act' ->
    exists new, act' = new ++ act
      /\ Forall (fun e => In (snd e) allowed /\ In (fst e) (members g) /\ In (fst e) tasks) new
      /\ forall g', In g' (subgroups g) ->
           GroupOK topos nodes (tc_of g') (map snd (entries (members g') act)) (map snd (entries (members g') new)).
Proof. exact topology_required_partial. Qed.
Print Assumptions C04_topology_required_partial.

(** Which pods pin the domain.  The plugin is handed EVERY pod of the workload
    with its status ([ps]) and pins the required-level domains that hold a pod
    whose status passes [pin_rule] (IsActiveAllocatedStatus).  For all topology
    trees, sub-group trees, pod tables - terminating (Releasing) or finished
    pods of the workload on any node whatsoever - and all oracles: the pods a
    decision places lie, per constrained (sub-)group, in one required-level
    domain together with an ACTIVE pod of the group, and if the group's active
    pods were in one domain, active and newly placed pods together are. *)
Theorem C04_terminating_pods_do_not_pin :
  forall (topos : list topo) (nodes : list pnode)
         (sel : option tcons -> list positive -> list string -> active_t -> list (nat * (string -> bool)))
         (place : list string -> positive -> active_t -> option string)
         (tasks : list positive) (g : sgt) (allowed : list string) (ps : spods) (act' : active_t),
    (forall T, In T topos -> topo_wf T) -> NoDup (map nd_name nodes) -> NoDup (members g) ->
    IdsInjective topos nodes ->
    alloc_sg topos nodes sel place tasks g allowed (pinning pin_rule ps) = Some act' ->
    exists new, act' = new ++ pinning pin_rule ps
      /\ Forall (fun e => In (snd e) allowed /\ In (fst e) (members g) /\ In (fst e) tasks) new
      /\ (forall g', In g' (subgroups g) ->
            GroupOK topos nodes (tc_of g') (map snd (entries (members g') (active_pods ps))) (map snd (entries (members g') new)))
      /\ (forall g' T l, In g' (subgroups g) -> required_level topos (tc_of g') = Some (T, l) ->
            InOneDomain T nodes l (map snd (entries (members g') (active_pods ps))) ->
            InOneDomain T nodes l (map snd (entries (members g') (active_pods ps)) ++ map snd (entries (members g') new))).
Proof. exact pin_rule_sound. Qed.
Print Assumptions C04_terminating_pods_do_not_pin.

(** The decision is the one that would be taken if the pods that are not
    active (terminating, finished) did not exist at all. *)
Theorem C04_inactive_pods_are_ignored :
  forall topos nodes sel place tasks g allowed (ps : spods),
    alloc_sg topos nodes sel place tasks g allowed (pinning pin_rule ps)
    = alloc_sg topos nodes sel place tasks g allowed (pinning pin_rule (only_active ps)).
Proof. exact inactive_pods_ignored. Qed.
Print Assumptions C04_inactive_pods_are_ignored.

(** NOT the code: pinning on the active-USED statuses (the class that also
    holds Releasing) violates the same statement - the injectivity proviso
    granted.  Witness = the world of seeded/C04-4: rack1 {node-a: pod 1
    Running}, rack2 {node-b: pod 2 Releasing, node-c free}, pod 3 pending,
    required level rack: pod 3 is placed on node-c, the workload's active pods
    are then spread over rack1 and rack2. *)
Theorem C04_pinning_on_used_statuses_refuted : ~ pinning_sound pin_rule_used.
Proof. exact pin_rule_used_refuted. Qed.
Print Assumptions C04_pinning_on_used_statuses_refuted.

(** The same world under both rules (non-vacuity of the two theorems above):
    the code's rule leaves the pod pending when rack1 is full and sends it to
    rack1 when rack1 has room; the other rule places it in rack2. *)
Theorem C04_pinning_nonvacuous :
  alloc_sg [rd_T] rd_nodes ex_sel_all rd_place [3%positive] rd_tree rd_names (pinning pin_rule rd_ps) = None
  /\ alloc_sg [rd_T] rd_nodes' ex_sel_all rd_place' [3%positive] rd_tree (map nd_name rd_nodes') (pinning pin_rule rd_ps)
     = Some [(3%positive, "node-d"); (1%positive, "node-a")]
  /\ alloc_sg [rd_T] rd_nodes ex_sel_all rd_place [3%positive] rd_tree rd_names (pinning pin_rule_used rd_ps)
     = Some [(3%positive, "node-c"); (1%positive, "node-a"); (2%positive, "node-b")].
Proof. exact rd_runs. Qed.
Print Assumptions C04_pinning_nonvacuous.

(** The proviso is decidable (this is what the monitor evaluates per case). *)
Theorem C04_ids_injective_decidable :
  forall topos nodes, ids_injective_b topos nodes = true -> IdsInjective topos nodes.
Proof. exact ids_injective_b_sound. Qed.
Print Assumptions C04_ids_injective_decidable.

(** Non-vacuity of the placement theorems: a three-node cluster on which the
    loop commits three placements, and each kind of constraint rejects a node. *)
Theorem C04_placement_nonvacuous :
  map (fun rc => (pd_id (r_pod rc), r_node rc)) (snd ex_run) = [(1%positive, "n1"); (2%positive, "n2"); (3%positive, "n1")]
  /\ hard_ok ex_cl [] (ex_web, "n3") = false
  /\ hard_ok ex_cl [] (ex_web, "n2") = false
  /\ hard_ok ex_cl [(ex_web, "n1")] (ex_web2, "n1") = false
  /\ hard_ok ex_cl [] (ex_db, "n1") = false
  /\ hard_ok ex_cl [(ex_web, "n1")] (ex_db, "n2") = false.
Proof. exact ex_run_places. Qed.
Print Assumptions C04_placement_nonvacuous.

(** Non-vacuity of the topology theorem: a two-zone / three-rack cluster meets
    every hypothesis; the nested allocation succeeds, is pinned by an active
    pod, fails when the active pod sits outside the topology, and a missing
    topology yields no candidate. *)
Theorem C04_topology_nonvacuous :
  (forall T, In T [ex_T] -> topo_wf T) /\ NoDup (map nd_name ex_tnodes) /\ NoDup (members ex_tree)
  /\ IdsInjective [ex_T] ex_tnodes
  /\ alloc_sg [ex_T] ex_tnodes ex_sel_all ex_place [1; 2; 3]%positive ex_tree ex_names []
     = Some [(3%positive, "n2"); (2%positive, "n1"); (1%positive, "n1")]
  /\ alloc_sg [ex_T] ex_tnodes ex_sel_all ex_place [1; 2; 3]%positive ex_tree ex_names [(9%positive, "n4")]
     = Some [(3%positive, "n5"); (2%positive, "n5"); (1%positive, "n4"); (9%positive, "n4")]
  /\ alloc_sg [ex_T] ex_tnodes ex_sel_all ex_place [1; 2; 3]%positive ex_tree ex_names [(9%positive, "n6")] = None
  /\ subset_cands [ex_T] ex_tnodes (Some (mkTC "U" "rack" "")) [1%positive] 1 ex_names [] = SNSets [].
Proof. exact ex_topology_run. Qed.
Print Assumptions C04_topology_nonvacuous.
