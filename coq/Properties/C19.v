(** C19 — Admission, scheduler and binder agree on GPU requests.
    Statements only; proofs are in Proofs/GpuRequest.v. [pf] is the
    strconv.ParseFloat oracle: every statement holds for all oracles
    (C19_same_interpretation and C19_sharing_implies_checked under the contract
    that parsing the empty string fails with value 0). *)
From Coq Require Import String ZArith List.
From KaiV Require Import Model.Strconv Model.GpuRequest Model.GpuRequestSpec Proofs.GpuRequest.
Import ListNotations.

(** Every accepted request denotes finite positive quantities: a finite
    fraction strictly between 0 and 1, GPU memory and device count in (0, 2^63). *)
Theorem C19_accepted_is_finite_positive :
  forall (sharing_enabled : bool) (pf : string -> pfres) (p : gpod),
    admission_validate sharing_enabled pf p = true -> wellformed_sharing pf p = true.
Proof. exact accepted_is_finite_positive. Qed.
Print Assumptions C19_accepted_is_finite_positive.

(** What admission accepts, the scheduler reads as exactly the denoted request
    (type, number of devices, portion bits, memory). *)
Theorem C19_same_interpretation :
  forall (sharing_enabled : bool) (pf : string -> pfres) (p : gpod),
    pf_contract pf ->
    admission_validate sharing_enabled pf p = true -> normalised p = true ->
    scheduler_interpret pf p = denoted pf p.
Proof. exact same_interpretation. Qed.
Print Assumptions C19_same_interpretation.

(** Anything the scheduler types as a GPU-sharing request is rejected by
    admission when malformed or when GPU sharing is disabled. *)
Theorem C19_sharing_implies_checked :
  forall (sharing_enabled : bool) (pf : string -> pfres) (p : gpod),
    pf_contract pf ->
    is_sharing (scheduler_interpret pf p) = true ->
    sharing_enabled = false \/ wellformed_sharing pf p = false ->
    admission_validate sharing_enabled pf p = false.
Proof. exact sharing_implies_checked. Qed.
Print Assumptions C19_sharing_implies_checked.

(** Admission's mutation is idempotent (for any index rendering and any
    freshly generated config-map prefixes). *)
Theorem C19_mutate_idempotent :
  forall (idx : ctype -> nat -> string) (fresh fresh' : string) (p : gpod),
    mutate idx fresh' (mutate idx fresh p) = mutate idx fresh p.
Proof. exact mutate_idempotent. Qed.
Print Assumptions C19_mutate_idempotent.

(** Updates: the stored pod the scheduler reads after ANY sequence of creations and
    updates (each decided by the webhook on the new object; a refused write changes
    nothing) was accepted by the validation, hence denotes a finite positive request
    that the scheduler interprets as exactly that request.  (The real
    ValidateCreate / ValidateUpdate entry points are compared with this validation
    on every generated pod, for an update from an admitted pod with and without a
    request: Run/C19.v k_hooks.) *)
Theorem C19_stored_pod_after_any_updates :
  forall (sharing_enabled : bool) (pf : string -> pfres) (writes : list gpod) (p : gpod),
    pf_contract pf ->
    stored_after sharing_enabled pf writes = Some p ->
    wellformed_sharing pf p = true
    /\ (normalised p = true -> scheduler_interpret pf p = denoted pf p).
Proof.
  intros en pf writes p C H. pose proof (stored_pod_is_validated en pf writes p H) as V.
  split; [exact (accepted_is_finite_positive en pf p V)|intros N; exact (same_interpretation en pf p C V N)].
Qed.
Print Assumptions C19_stored_pod_after_any_updates.

(** The update clause is needed: an update path that skips the validation when the
    (non-annotation) spec is unchanged lets an admitted pod be rewritten into one
    whose request is not finite positive (gpu-fraction "NaN"), which the scheduler
    still types as GPU sharing.  Witness by computation; [write_skipping_unchanged_spec]
    is not the code. *)
Definition ex_nan_pod : gpod :=
  {| a_fraction := Some "NaN"%string; a_memory := a_memory ex_pod; a_numdev := a_numdev ex_pod; a_mps := a_mps ex_pod;
     a_cname := a_cname ex_pod; a_cm := a_cm ex_pod; p_name := p_name ex_pod; containers := containers ex_pod;
     inits := inits ex_pod; volumes := volumes ex_pod |}.
Definition nan_pf : string -> pfres :=
  fun s => if String.eqb s "NaN" then {| pf_bits := 9221120237041090561%N; pf_err := false |} else ex_pf s.
Theorem C19_update_must_be_validated :
  admission_validate true nan_pf ex_pod = true
  /\ admission_validate true nan_pf ex_nan_pod = false
  /\ fold_left (write true nan_pf) [ex_pod; ex_nan_pod] None = Some ex_pod
  /\ fold_left (write_skipping_unchanged_spec true nan_pf) [ex_pod; ex_nan_pod] None = Some ex_nan_pod
  /\ wellformed_sharing nan_pf ex_nan_pod = false
  /\ is_sharing (scheduler_interpret nan_pf ex_nan_pod) = true.
Proof. repeat split; vm_compute; reflexivity. Qed.
Print Assumptions C19_update_must_be_validated.

(** Non-vacuity: the hypotheses of the three implications are met by a concrete pod. *)
Theorem C19_nonvacuous :
  pf_contract ex_pf /\ admission_validate true ex_pf ex_pod = true /\ normalised ex_pod = true
  /\ is_sharing (scheduler_interpret ex_pf ex_pod) = true
  /\ g_count (scheduler_interpret ex_pf ex_pod) = 2%Z.
Proof. exact ex_accepted. Qed.
Print Assumptions C19_nonvacuous.
