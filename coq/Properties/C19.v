(** C19 — Admission, scheduler and binder agree on GPU requests.
    Statements only; proofs are in Proofs/GpuRequest.v. [pf] is the
    strconv.ParseFloat oracle: every statement holds for all oracles
    (C19_same_interpretation and C19_sharing_implies_checked under the contract
    that parsing the empty string fails with value 0). *)
From Coq Require Import String ZArith.
From KaiV Require Import Model.Strconv Model.GpuRequest Model.GpuRequestSpec Proofs.GpuRequest.

(** Every accepted request denotes finite positive quantities: a finite
    fraction strictly between 0 and 1, GPU memory and device count in (0, 2^63). *)
Theorem C19_accepted_is_finite_positive :
  forall (sharing_enabled : bool) (pf : string -> pfres) (p : gpod),
    admission_validate sharing_enabled pf p = true -> wellformed_sharing pf p = true.
Proof. exact accepted_is_finite_positive. Qed.
Print Assumptions C19_accepted_is_finite_positive.

(** What admission accepts, the scheduler reads as exactly the denoted request
    (type, number of devices, portion bits, memory). *)
Theorem C19_same_interpretation :
  forall (sharing_enabled : bool) (pf : string -> pfres) (p : gpod),
    pf_contract pf ->
    admission_validate sharing_enabled pf p = true -> normalised p = true ->
    scheduler_interpret pf p = denoted pf p.
Proof. exact same_interpretation. Qed.
Print Assumptions C19_same_interpretation.

(** Anything the scheduler types as a GPU-sharing request is rejected by
    admission when malformed or when GPU sharing is disabled. *)
Theorem C19_sharing_implies_checked :
  forall (sharing_enabled : bool) (pf : string -> pfres) (p : gpod),
    pf_contract pf ->
    is_sharing (scheduler_interpret pf p) = true ->
    sharing_enabled = false \/ wellformed_sharing pf p = false ->
    admission_validate sharing_enabled pf p = false.
Proof. exact sharing_implies_checked. Qed.
Print Assumptions C19_sharing_implies_checked.

(** Admission's mutation is idempotent (for any index rendering and any
    freshly generated config-map prefixes). *)
Theorem C19_mutate_idempotent :
  forall (idx : ctype -> nat -> string) (fresh fresh' : string) (p : gpod),
    mutate idx fresh' (mutate idx fresh p) = mutate idx fresh p.
Proof. exact mutate_idempotent. Qed.
Print Assumptions C19_mutate_idempotent.

(** Non-vacuity: the hypotheses of the three implications are met by a concrete pod. *)
Theorem C19_nonvacuous :
  pf_contract ex_pf /\ admission_validate true ex_pf ex_pod = true /\ normalised ex_pod = true
  /\ is_sharing (scheduler_interpret ex_pf ex_pod) = true
  /\ g_count (scheduler_interpret ex_pf ex_pod) = 2%Z.
Proof. exact ex_accepted. Qed.
Print Assumptions C19_nonvacuous.
