(** C19 — Admission, scheduler and binder agree on GPU requests.
    Statements only; proofs are in Proofs/GpuRequest.v, Proofs/GpuMaterialise.v and Proofs/GpuGroups.v. [pf] is the
    strconv.ParseFloat oracle: every statement holds for all oracles
    (C19_same_interpretation and C19_sharing_implies_checked under the contract
    that parsing the empty string fails with value 0). *)
From Coq Require Import String ZArith List.
From KaiV Require Import Model.Strconv Model.GpuRequest Model.GpuRequestSpec Model.GpuMaterialise
     Proofs.GpuRequest Proofs.GpuMaterialise Proofs.GpuGroups.
Import ListNotations.

(** Every accepted request denotes finite positive quantities: a finite
    fraction strictly between 0 and 1, GPU memory and device count in (0, 2^63). *)
Theorem C19_accepted_is_finite_positive :
  forall (sharing_enabled : bool) (pf : string -> pfres) (p : gpod),
    admission_validate sharing_enabled pf p = true -> wellformed_sharing pf p = true.
Proof. exact accepted_is_finite_positive. Qed.
Print Assumptions C19_accepted_is_finite_positive.

(** What admission accepts, the scheduler reads as exactly the denoted request
    (type, number of devices, portion bits, memory). *)
Theorem C19_same_interpretation :
  forall (sharing_enabled : bool) (pf : string -> pfres) (p : gpod),
    pf_contract pf ->
    admission_validate sharing_enabled pf p = true -> normalised p = true ->
    scheduler_interpret pf p = denoted pf p.
Proof. exact same_interpretation. Qed.
Print Assumptions C19_same_interpretation.

(** Anything the scheduler types as a GPU-sharing request is rejected by
    admission when malformed or when GPU sharing is disabled. *)
Theorem C19_sharing_implies_checked :
  forall (sharing_enabled : bool) (pf : string -> pfres) (p : gpod),
    pf_contract pf ->
    is_sharing (scheduler_interpret pf p) = true ->
    sharing_enabled = false \/ wellformed_sharing pf p = false ->
    admission_validate sharing_enabled pf p = false.
Proof. exact sharing_implies_checked. Qed.
Print Assumptions C19_sharing_implies_checked.

(** Admission's mutation is idempotent (for any index rendering and any
    freshly generated config-map prefixes). *)
Theorem C19_mutate_idempotent :
  forall (idx : ctype -> nat -> string) (fresh fresh' : string) (p : gpod),
    mutate idx fresh' (mutate idx fresh p) = mutate idx fresh p.
Proof. exact mutate_idempotent. Qed.
Print Assumptions C19_mutate_idempotent.

(** Updates: the stored pod the scheduler reads after ANY sequence of creations and
    updates (each decided by the webhook on the new object; a refused write changes
    nothing) was accepted by the validation, hence denotes a finite positive request
    that the scheduler interprets as exactly that request.  (The real
    ValidateCreate / ValidateUpdate entry points are compared with this validation
    on every generated pod, for an update from an admitted pod with and without a
    request: Run/C19.v k_hooks.) *)
Theorem C19_stored_pod_after_any_updates :
  forall (sharing_enabled : bool) (pf : string -> pfres) (writes : list gpod) (p : gpod),
    pf_contract pf ->
    stored_after sharing_enabled pf writes = Some p ->
    wellformed_sharing pf p = true
    /\ (normalised p = true -> scheduler_interpret pf p = denoted pf p).
Proof.
  intros en pf writes p C H. pose proof (stored_pod_is_validated en pf writes p H) as V.
  split; [exact (accepted_is_finite_positive en pf p V)|intros N; exact (same_interpretation en pf p C V N)].
Qed.
Print Assumptions C19_stored_pod_after_any_updates.

(** The update clause is needed: an update path that skips the validation when the
    (non-annotation) spec is unchanged lets an admitted pod be rewritten into one
    whose request is not finite positive (gpu-fraction "NaN"), which the scheduler
    still types as GPU sharing.  Witness by computation; [write_skipping_unchanged_spec]
    is not the code. *)
Definition ex_nan_pod : gpod :=
  {| a_fraction := Some "NaN"%string; a_memory := a_memory ex_pod; a_numdev := a_numdev ex_pod; a_mps := a_mps ex_pod;
     a_cname := a_cname ex_pod; a_cm := a_cm ex_pod; p_name := p_name ex_pod; containers := containers ex_pod;
     inits := inits ex_pod; volumes := volumes ex_pod |}.
Definition nan_pf : string -> pfres :=
  fun s => if String.eqb s "NaN" then {| pf_bits := 9221120237041090561%N; pf_err := false |} else ex_pf s.
Theorem C19_update_must_be_validated :
  admission_validate true nan_pf ex_pod = true
  /\ admission_validate true nan_pf ex_nan_pod = false
  /\ fold_left (write true nan_pf) [ex_pod; ex_nan_pod] None = Some ex_pod
  /\ fold_left (write_skipping_unchanged_spec true nan_pf) [ex_pod; ex_nan_pod] None = Some ex_nan_pod
  /\ wellformed_sharing nan_pf ex_nan_pod = false
  /\ is_sharing (scheduler_interpret nan_pf ex_nan_pod) = true.
Proof. repeat split; vm_compute; reflexivity. Qed.
Print Assumptions C19_update_must_be_validated.

(** Non-vacuity: the hypotheses of the three implications are met by a concrete pod. *)
Theorem C19_nonvacuous :
  pf_contract ex_pf /\ admission_validate true ex_pf ex_pod = true /\ normalised ex_pod = true
  /\ is_sharing (scheduler_interpret ex_pf ex_pod) = true
  /\ g_count (scheduler_interpret ex_pf ex_pod) = 2%Z.
Proof. exact ex_accepted. Qed.
Print Assumptions C19_nonvacuous.

(** * Per-container selection: what admission selects is what the binder materialises.
    [selected_container] is GetFractionContainerRef (annotation gpu-fraction-container-name:
    init containers first, then regular containers, first match; no annotation: regular
    container 0), [prebind] the binder's gpusharing PreBind over the config maps of the
    namespace, [eff_env] the kubelet's resolution of a container's environment
    (Model/GpuMaterialise.v).  All statements are for every pod: any number of regular
    and init containers, any names, any annotation strings, any index rendering. *)

(** The selection follows the annotation: a named container carries that name; without
    the annotation it is the first regular container. *)
Theorem C19_selection_is_by_name :
  forall (p : gpod) (ty : ctype) (i : nat) (c : container),
    selected_container p = Selected ty i c ->
    match a_cname p with
    | Some name => c_name c = name
    | None => ty = RegularC /\ i = 0%nat
    end.
Proof. exact selection_is_by_name. Qed.
Print Assumptions C19_selection_is_by_name.

(** After admission's mutation the selected container is the same container: same
    list (regular / init), same index, same name. *)
Theorem C19_selection_survives_mutation :
  forall (idx : ctype -> nat -> string) (fresh : string) (p : gpod) (ty : ctype) (i : nat) (c : container),
    selected_container p = Selected ty i c ->
    exists c', selected_container (mutate idx fresh p) = Selected ty i c' /\ c_name c' = c_name c.
Proof. exact selection_survives_mutation. Qed.
Print Assumptions C19_selection_survives_mutation.

(** Admission, then the binder: the selected container of the admitted pod references the
    pod's GPU-sharing config maps, PreBind succeeds, and the container then starts with
    exactly the granted devices (NVIDIA_VISIBLE_DEVICES) and exactly the granted portion
    (GPU_PORTION, RUNAI_NUM_OF_GPUS) — whatever config maps of the pod exist already,
    with or without CDI device names, for any granted device list and portion string. *)
Theorem C19_selected_container_materialised :
  forall (idx : ctype -> nat -> string) (fresh : string) (p : gpod) (ty : ctype) (i : nat) (c : container)
         (s : cmstore) (cdi : bool) (ids : list string) (portion : string),
    requests_gpu_fraction p = true -> selected_container p = Selected ty i c ->
    carries_sharing_refs idx (mutate idx fresh p) = true
    /\ exists s', prebind idx true cdi ids portion (mutate idx fresh p) s = Some s'
                  /\ materialised (mutate idx fresh p) s' (visible_devices cdi ids) portion = true.
Proof. exact selected_container_materialised. Qed.
Print Assumptions C19_selected_container_materialised.

(** The mutation leaves every other container, regular or init, exactly as it was. *)
Theorem C19_other_containers_untouched :
  forall (idx : ctype -> nat -> string) (fresh : string) (p : gpod) (ty : ctype) (i : nat) (c : container)
         (ty' : ctype) (j : nat),
    selected_container p = Selected ty i c -> (ty', j) <> (ty, i) ->
    nth_error (conts ty' (mutate idx fresh p)) j = nth_error (conts ty' p) j.
Proof. exact mutate_other_containers. Qed.
Print Assumptions C19_other_containers_untouched.

(** The binder writes two config maps only: a container that references neither the
    capabilities map nor the -evar map of the selected container starts with the same
    environment as before (so no other container gets the grant unless it already
    referenced these maps: by the previous theorem admission adds no such reference). *)
Theorem C19_binder_touches_selected_maps_only :
  forall (idx : ctype -> nat -> string) (cdi : bool) (ids : list string) (portion : string)
         (p : gpod) (s s' : cmstore) (ty : ctype) (i : nat) (c : container) (prefix : string),
    selected_container p = Selected ty i c -> a_cm p = Some prefix ->
    prebind idx true cdi ids portion p s = Some s' ->
    forall (c2 : container) (var : string),
      references c2 (cap_name idx prefix ty i) = false ->
      references c2 (evar_name (cap_name idx prefix ty i)) = false ->
      eff_env s' c2 var = eff_env s c2 var.
Proof. exact prebind_frame. Qed.
Print Assumptions C19_binder_touches_selected_maps_only.

(** Idempotence keeps all of this: mutating an admitted pod again selects the same
    container, keeps the references and the binder still materialises the grant in it. *)
Theorem C19_materialised_after_repeated_mutation :
  forall (idx : ctype -> nat -> string) (fresh fresh' : string) (p : gpod) (ty : ctype) (i : nat) (c : container)
         (s : cmstore) (cdi : bool) (ids : list string) (portion : string),
    requests_gpu_fraction p = true -> selected_container p = Selected ty i c ->
    let p2 := mutate idx fresh' (mutate idx fresh p) in
    (exists c', selected_container p2 = Selected ty i c' /\ c_name c' = c_name c)
    /\ carries_sharing_refs idx p2 = true
    /\ exists s', prebind idx true cdi ids portion p2 s = Some s'
                  /\ materialised p2 s' (visible_devices cdi ids) portion = true.
Proof. exact materialised_after_repeated_mutation. Qed.
Print Assumptions C19_materialised_after_repeated_mutation.

(** The scheduler and the binder see the MUTATED pod: the mutation changes neither the
    validation verdicts nor the scheduler's reading of the request ... *)
Theorem C19_mutation_preserves_request :
  forall (sharing_enabled : bool) (pf : string -> pfres) (idx : ctype -> nat -> string) (fresh : string) (p : gpod),
    validate_gpu_requests pf (mutate idx fresh p) = validate_gpu_requests pf p
    /\ admission_validate sharing_enabled pf (mutate idx fresh p) = admission_validate sharing_enabled pf p
    /\ scheduler_interpret pf (mutate idx fresh p) = scheduler_interpret pf p.
Proof. exact mutation_preserves_request. Qed.
Print Assumptions C19_mutation_preserves_request.

(** ... so the binder's validation (ValidateGpuRequests) accepts every admitted pod. *)
Theorem C19_binder_validates_admitted :
  forall (sharing_enabled : bool) (pf : string -> pfres) (idx : ctype -> nat -> string) (fresh : string) (p : gpod),
    admission_validate sharing_enabled pf p = true ->
    validate_gpu_requests pf (mutate idx fresh p) = true.
Proof. exact binder_validates_admitted. Qed.
Print Assumptions C19_binder_validates_admitted.

(** The clause is needed: a resolver that hands out a COPY of a named init container
    ([mutate_editing_a_copy], not the code) keeps type, index and name of the selection and
    is still accepted, but the admitted pod's selected container carries no reference, the
    binder writes the devices into a map nothing reads, and the container starts with
    neither NVIDIA_VISIBLE_DEVICES nor GPU_PORTION.  Witness by computation on a pod whose
    named fraction container is the second init container. *)
Theorem C19_editing_a_copy_refuted :
  let good := mutate idx_str "train-abcdefg-shared-gpu" ex_init_pod in
  let bad := mutate_editing_a_copy idx_str "train-abcdefg-shared-gpu" ex_init_pod in
  selected_container ex_init_pod = Selected InitC 1%nat (ex_cont "warmup")
  /\ admission_validate true ex_pf bad = true
  /\ carries_sharing_refs idx_str good = true
  /\ (exists s', prebind idx_str true false ["3"%string] "0.50" good [] = Some s'
                 /\ materialised good s' "3" "0.50" = true)
  /\ selected_container bad = Selected InitC 1%nat (ex_cont "warmup")
  /\ carries_sharing_refs idx_str bad = false
  /\ (exists s', prebind idx_str true false ["3"%string] "0.50" bad [] = Some s'
                 /\ materialised bad s' "3" "0.50" = false
                 /\ eff_env s' (ex_cont "warmup") nvidia_visible_devices = EUnset
                 /\ eff_env s' (ex_cont "warmup") gpu_portion_env = EUnset
                 /\ lookup "train-abcdefg-shared-gpu-i1-evar"%string s' = Some [(nvidia_visible_devices, "3"%string)]).
Proof. exact ex_editing_a_copy. Qed.
Print Assumptions C19_editing_a_copy_refuted.

(** * The number of fractional devices: the binder reads what the scheduler interpreted.
    [binder_num_devices] is GetNumGPUFractionDevices, [is_multi_fraction] / [binder_is_multi]
    IsMultiFraction (its only caller: the reservation service's updatePodGPUGroup),
    [labels_after_binding] the label patches of one ReserveGpuDevice per selected GPU group,
    [groups_of_labels] GetGpuGroups, what NewTaskInfo reads from the bound pod at the next
    snapshot (Model/GpuMaterialise.v). *)

(** For every sharing pod admission accepts (gpu-fraction or gpu-memory, with or without a device
    count), the binder's device count is the scheduler's, and it is positive. *)
Theorem C19_binder_device_count_is_scheduler_count :
  forall (sharing_enabled : bool) (pf : string -> pfres) (p : gpod),
    pf_contract pf -> admission_validate sharing_enabled pf p = true -> requests_gpu_fraction p = true ->
    binder_num_devices p = NdOk (g_count (scheduler_interpret pf p))
    /\ (0 < g_count (scheduler_interpret pf p))%Z.
Proof. exact binder_count_is_scheduler_count. Qed.
Print Assumptions C19_binder_device_count_is_scheduler_count.

(** An admitted pod without sharing annotation carries no device count: never multi-fraction. *)
Theorem C19_binder_device_count_without_sharing :
  forall (sharing_enabled : bool) (pf : string -> pfres) (p : gpod),
    admission_validate sharing_enabled pf p = true -> requests_gpu_fraction p = false ->
    binder_num_devices p = NdNotFound /\ is_multi_fraction p = Some false.
Proof. exact binder_count_not_sharing. Qed.
Print Assumptions C19_binder_device_count_without_sharing.

(** IsMultiFraction answers without error, and "multi" exactly when the scheduler interpreted
    more than one device: for fraction requests and for gpu-memory requests alike. *)
Theorem C19_binder_is_multi_iff_several_devices :
  forall (sharing_enabled : bool) (pf : string -> pfres) (p : gpod),
    pf_contract pf -> admission_validate sharing_enabled pf p = true -> requests_gpu_fraction p = true ->
    is_multi_fraction p = Some (1 <? g_count (scheduler_interpret pf p))%Z
    /\ (binder_is_multi p = true <-> (1 < g_count (scheduler_interpret pf p))%Z).
Proof. exact is_multi_iff_several_devices. Qed.
Print Assumptions C19_binder_is_multi_iff_several_devices.

(** ... spelled out for a gpu-memory request, which has no gpu-fraction annotation. *)
Theorem C19_gpu_memory_request_is_multi_iff_several_devices :
  forall (sharing_enabled : bool) (pf : string -> pfres) (p : gpod) (m : string),
    pf_contract pf -> admission_validate sharing_enabled pf p = true ->
    a_fraction p = None -> a_memory p = Some m ->
    g_type (scheduler_interpret pf p) = GpuMemory
    /\ (binder_is_multi p = true <-> (1 < g_count (scheduler_interpret pf p))%Z).
Proof. exact gpu_memory_is_multi_iff_several_devices. Qed.
Print Assumptions C19_gpu_memory_request_is_multi_iff_several_devices.

(** Binding on as many (distinct) GPU groups as the scheduler interpreted devices: every label
    patch succeeds, the pod ends with one label per selected group, and the groups the scheduler
    reads back from the labels are exactly the selected groups. *)
Theorem C19_selected_groups_read_back :
  forall (sharing_enabled : bool) (pf : string -> pfres) (p : gpod) (groups : list string),
    pf_contract pf -> admission_validate sharing_enabled pf p = true -> requests_gpu_fraction p = true ->
    NoDup groups -> Z.of_nat (List.length groups) = g_count (scheduler_interpret pf p) ->
    exists ls, labels_after_binding groups p = Some ls
               /\ List.length ls = List.length groups
               /\ groups_of_labels ls = groups.
Proof. exact groups_read_back. Qed.
Print Assumptions C19_selected_groups_read_back.

(** The clause is needed: an IsMultiFraction that first asks for the gpu-fraction annotation
    ([is_multi_requiring_fraction], not the code) agrees with the code on every fraction request,
    but binds the admitted request "gpu-memory 2000 on 2 devices" through the single-device
    branch: the second label overwrites the first and the scheduler reads one group back. *)
Theorem C19_multi_requiring_fraction_annotation_refuted :
  admission_validate true ex_pf ex_memory_pod = true
  /\ g_type (scheduler_interpret ex_pf ex_memory_pod) = GpuMemory
  /\ g_count (scheduler_interpret ex_pf ex_memory_pod) = 2%Z
  /\ binder_num_devices ex_memory_pod = NdOk 2
  /\ is_multi_fraction ex_memory_pod = Some true
  /\ labels_after_binding ex_groups ex_memory_pod
     = Some [("runai-gpu-group/gpu-group-a", "gpu-group-a"); ("runai-gpu-group/gpu-group-b", "gpu-group-b")]%string
  /\ option_map groups_of_labels (labels_after_binding ex_groups ex_memory_pod) = Some ex_groups
  /\ is_multi_requiring_fraction ex_memory_pod = Some false
  /\ labels_after_binding_with is_multi_requiring_fraction ex_groups ex_memory_pod
     = Some [("runai-gpu-group", "gpu-group-b")]%string
  /\ option_map groups_of_labels (labels_after_binding_with is_multi_requiring_fraction ex_groups ex_memory_pod)
     = Some ["gpu-group-b"%string]
  /\ is_multi_requiring_fraction ex_pod = is_multi_fraction ex_pod
  /\ labels_after_binding_with is_multi_requiring_fraction ex_groups ex_pod = labels_after_binding ex_groups ex_pod.
Proof. exact ex_requiring_fraction. Qed.
Print Assumptions C19_multi_requiring_fraction_annotation_refuted.
