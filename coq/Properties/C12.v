(** C12 — BindRequest hand-off conserves resources and terminates.
    Statements only; proofs are in Proofs/BindRequest.v.

    The model (Model/BindRequest.v) is an API store with pods, nodes and bind
    requests, and the transitions of scheduler (commit, snapshot + cleanup),
    binder (reconcile with a fail|succeed oracle for the bind itself) and
    environment.  [run upd s0 tr] plays an arbitrary list of transitions.
    Clauses 1 and 2 hold for every status-update rule of the form
    [update_status_with changed] (in particular the code as it is and the
    repaired one).  Clause 3 is a statement about the rule: it is REFUTED for the
    rule as it is ([update_status_v0]: patch only when the phase changes), proved
    for it under the extra hypothesis backoffLimit <= 1, and proved without
    that hypothesis for the repaired rule ([update_status_fixed]: patch when the
    phase or failedAttempts changed). *)
From Coq Require Import List ZArith.
From KaiV Require Import Model.BindRequest Model.BindRequestSpec Proofs.BindRequest.
Import ListNotations.
Open Scope Z_scope.

(** 1. In every snapshot of every reachable store, a pending pod that is unbound
    and has a bind request that is neither for a deleted node nor terminally
    failed is Binding (Releasing when it is being deleted) on the selected node
    with the request's GPU groups, and is in that node's charged set; a pending
    pod that is already bound is charged to its node whatever the state of its
    request (pod bound, request not yet updated). *)
Theorem C12_charged_until_terminal :
  forall (changed : bindreq -> bindreq -> bool) (s0 : store) (tr : list event), wf s0 ->
  let s := run (update_status_with changed) s0 tr in
  forall pd, In pd (pods s) -> p_phase pd = PPending ->
  (forall b, p_node pd = None -> find_br (brs s) (p_id pd) = Some b -> stale s b = false ->
      lookup (v_tasks (snapshot_view s)) (p_id pd) = Some (binding_task b pd)
      /\ In (p_id pd) (charged_on (snapshot_view s) (b_node b)))
  /\ (forall n, p_node pd = Some n -> In n (nodes s) ->
      In (p_id pd) (charged_on (snapshot_view s) n)).
Proof. exact charged_trace. Qed.
Print Assumptions C12_charged_until_terminal.

(** 2. Bind requests for deleted nodes and terminally failed requests are deleted
    by the next snapshot, and their pods (unbound, pending, not being deleted) are
    Pending / Gated with no node and charged nowhere, in that snapshot and in the
    one after; every other request survives the cleanup unchanged. *)
Theorem C12_cleanup :
  forall (changed : bindreq -> bindreq -> bool) (s0 : store) (tr : list event), wf s0 ->
  let upd := update_status_with changed in
  let s := run upd s0 tr in
  let s' := step upd s Snapshot in
  forall b, In b (brs s) ->
  (stale s b = true ->
     find_br (brs s') (b_pod b) = None
     /\ forall pd, In pd (pods s) -> p_id pd = b_pod b ->
          p_phase pd = PPending -> p_node pd = None -> p_deleting pd = false ->
          (lookup (v_tasks (snapshot_view s)) (p_id pd) = Some (pending_task pd)
           /\ forall n, ~ In (p_id pd) (charged_on (snapshot_view s) n))
          /\ (lookup (v_tasks (snapshot_view s')) (p_id pd) = Some (pending_task pd)
           /\ forall n, ~ In (p_id pd) (charged_on (snapshot_view s') n)))
  /\ (stale s b = false -> find_br (brs s') (b_pod b) = Some b).
Proof. exact cleanup_trace. Qed.
Print Assumptions C12_cleanup.

(** 3. The full statement of bounded retries for a status-update rule [upd]
    ([bounded_retries_for] in Model/BindRequestSpec.v): after any history from a
    store without requests, every request with limit L >= 0 (or no limit) has
    failedAttempts = min k L where k is the number of failing reconciles since the
    scheduler created it; if it has not succeeded, k >= 1 and k >= L it is
    is_failed; and a further failing reconcile of an is_failed request changes
    nothing and asks for no requeue. *)
Definition C12_bounded_retries_statement (upd : bindreq -> bool -> upd_result) : Prop :=
  bounded_retries_statement upd.

(** ... proved for the repaired rule *)
Theorem C12_bounded_retries : C12_bounded_retries_statement update_status_fixed.
Proof. exact bounded_retries_fixed. Qed.
Print Assumptions C12_bounded_retries.

(** ... refuted for the code as it is: backoffLimit 3, three failing reconciles:
    persisted failedAttempts is 1 (not 3), the request is not is_failed although the
    limit is reached, and the next failing reconcile returns RequeueAfter 2s, nil. *)
Theorem C12_bounded_retries_refuted :
  exists s0 tr s g b L k,
    brs s0 = [] /\ run_g update_status_v0 s0 g_none tr = (s, g) /\
    In b (brs s) /\ b_limit b = Some L /\ 0 <= L /\ g (b_pod b) = Some k /\
    b_attempts b <> Z.min k L /\
    (b_phase b <> BSucceeded /\ 1 <= k /\ limit_reached b k = true /\ is_failed b = false) /\
    reconcile update_status_v0 s (b_pod b) Fail = (s, RDone 2 false).
Proof. exact bounded_retries_v0_witness. Qed.
Print Assumptions C12_bounded_retries_refuted.

Theorem C12_bounded_retries_v0_fails : ~ C12_bounded_retries_statement update_status_v0.
Proof. exact bounded_retries_v0_refuted. Qed.
Print Assumptions C12_bounded_retries_v0_fails.

(** ... for every limit >= 2 and any number k+1 of failing reconciles the code as
    it is stays at failedAttempts = 1, never is_failed, and keeps requeueing every 2s *)
Theorem C12_v0_retries_forever :
  forall L (k : nat), 2 <= L ->
  let s := run update_status_v0 ex_s0 (ex_commit L :: ex_fails (S k)) in
  s = stuck_store L
  /\ (forall b, In b (brs s) -> b_attempts b = 1 /\ is_failed b = false)
  /\ reconcile update_status_v0 s 1 Fail = (s, RDone 2 false).
Proof. exact v0_retries_forever. Qed.
Print Assumptions C12_v0_retries_forever.

(** ... and proved for the code as it is under the weakest extra hypothesis:
    backoffLimit <= 1 (or no limit). *)
Theorem C12_bounded_retries_partial :
  bounded_retries_for (fun L => L <= 1) update_status_v0.
Proof. exact bounded_retries_v0_partial. Qed.
Print Assumptions C12_bounded_retries_partial.

(** The monitor that Run/C12.v evaluates on the REAL traces ([monitor_from]: clauses
    1 and 2 at every snapshot, clause 3 at every reconcile, in boolean form) accepts
    every history of the model under the repaired rule: the monitor demands nothing
    that the theorems above do not give. *)
Theorem C12_monitor_sound :
  forall (s0 : store) (tr : list event), wf s0 -> brs s0 = [] ->
  monitor_from s0 g_none (trace_of update_status_fixed s0 tr) = true.
Proof. exact monitor_sound_fixed. Qed.
Print Assumptions C12_monitor_sound.

(** Non-vacuity: a concrete history meets the hypotheses of 1 (in-flight pod,
    charged 100 millis on node 1), of 2 (node deleted: request stale, deleted by the
    snapshot, pod pending) and of 3 (repaired rule, limit 3, four failing
    reconciles: count 3, is_failed, ghost counter 4). *)
Theorem C12_nonvacuous :
  wf ex_s0
  /\ (let s := run update_status_v0 ex_s0 [ex_commit 3] in
      In ex_pod (pods s) /\ find_br (brs s) 1 = Some (with_status (stuck_br 3) BPending 0)
      /\ stale s (with_status (stuck_br 3) BPending 0) = false
      /\ charged_on (snapshot_view s) 1 = [1%positive]
      /\ lookup (v_used (snapshot_view s)) 1 = Some 100)
  /\ (let s := run update_status_v0 ex_s0 [ex_commit 3; EnvDeleteNode 1] in
      stale s (with_status (stuck_br 3) BPending 0) = true
      /\ brs (step update_status_v0 s Snapshot) = []
      /\ lookup (v_tasks (snapshot_view s)) 1 = Some (pending_task ex_pod))
  /\ (let s := run update_status_fixed ex_s0 (ex_commit 3 :: ex_fails 4) in
      exists b, brs s = [b] /\ b_attempts b = 3 /\ is_failed b = true
        /\ snd (run_g update_status_fixed ex_s0 g_none (ex_commit 3 :: ex_fails 4)) 1%positive = Some 4).
Proof. exact ex_nonvacuous. Qed.
Print Assumptions C12_nonvacuous.
