(** C01 — Node resources are never oversubscribed by scheduling decisions.
    Statements only; proofs in Proofs/Admissible.v, Proofs/Node.v, Proofs/CycleSafe.v, Proofs/Snapshot.v,
    Proofs/PodRequest.v and Proofs/PodRequestBind.v.
    The node model (Model/Node.v) is tied to the real NodeInfo by the C14
    correspondence check and to real scheduling cycles by the cycle-level
    refinement check (Run/Cycle.v: every real Bind / Evict / TaskPipelined is an
    admissible operation of the model and the real final books equal the
    model's). *)
From Coq Require Import List ZArith PArith Bool.
From KaiV Require Import Model.Res Model.Status Model.AMap Model.Node Model.NodeSpec Proofs.Node Proofs.Admissible
     Run.NodeObs Run.Cycle Run.C01 Proofs.CycleSafe Model.Snapshot Proofs.Snapshot
     Model.PodRequest Proofs.PodRequest Proofs.PodRequestBind Proofs.PodRequestSidecar.
Import ListNotations.
Open Scope Z_scope.

(** Along ANY history of node operations (placements, nominations, evictions,
    un-evictions, removals — as issued by snapshot construction, by every action
    and by every simulation step) in which each non-nominated placement passed
    the scheduler's own guard (IsTaskAllocatable), the node never believes a
    negative amount of CPU, memory, pod slots, MIG instances or extended
    resources idle. *)
Theorem C01_idle_never_negative :
  forall (ops : list nop) (n0 : node),
    Books n0 -> Wf n0 -> NonNegIdle n0 -> Forall wf_req (op_tasks ops) ->
    all_admissible n0 ops = true -> NonNegIdle (run n0 ops).
Proof. exact idle_never_negative. Qed.
Print Assumptions C01_idle_never_negative.

(** Hence the pods occupying the node — running, bound, being bound AND
    terminating or evicted in this cycle, i.e. everything that is not merely
    nominated — never ask for more than the allocatable amount: capacity held by
    terminating pods is never handed to a bind. *)
Theorem C01_occupying_within_allocatable :
  forall n : node,
    Books n -> NonNegIdle n ->
    cpu (occupying_demand n) <= cpu (n_alloc n) /\ mem (occupying_demand n) <= mem (n_alloc n)
    /\ pods (occupying_demand n) <= pods (n_alloc n) /\ mig (occupying_demand n) <= mig (n_alloc n)
    /\ ext (occupying_demand n) <= ext (n_alloc n).
Proof. exact occupying_within_allocatable. Qed.
Print Assumptions C01_occupying_within_allocatable.

(** Both invariants hold in every state reachable by admissible histories
    (combination of the two theorems above with C14_node_books). *)
Theorem C01_histories :
  forall (ops : list nop) (n0 : node),
    Books n0 -> Wf n0 -> NonNegIdle n0 -> Forall wf_req (op_tasks ops) ->
    all_admissible n0 ops = true ->
    let n := run n0 ops in
    cpu (occupying_demand n) <= cpu (n_alloc n) /\ mem (occupying_demand n) <= mem (n_alloc n)
    /\ pods (occupying_demand n) <= pods (n_alloc n) /\ mig (occupying_demand n) <= mig (n_alloc n)
    /\ ext (occupying_demand n) <= ext (n_alloc n).
Proof.
  intros ops n0 B W N WO A. apply occupying_within_allocatable.
  - apply node_books. exact B.
  - apply idle_never_negative; assumption.
Qed.
Print Assumptions C01_histories.

(** The same over whole cycles, stated on the very replay function the
    cycle-level correspondence check evaluates on the calls of the real scheduler
    (Run/Cycle.v): if every Bind / Evict / TaskPipelined of a cycle is admissible
    in the model state it is applied to ([replay] returns ok = true — this is what
    the check establishes for every real cycle it runs) and evictions hit pods
    that occupy their node, then no node ends the cycle with a negative idle
    amount, for any number of nodes, pods and calls. *)
Theorem C01_cycle_idle_never_negative :
  forall (ts : list tinfo) (cs : list call) (ns ns' : amap node),
    TasksWf ts -> NodesWf ns -> NodesNN ns ->
    all_evict_occupying ts ns cs = true ->
    replay ts ns cs = Some (ns', true) -> NodesNN ns'.
Proof. intros ts cs ns ns'. exact (cycle_idle_never_negative ts cs ns ns'). Qed.
Print Assumptions C01_cycle_idle_never_negative.

(** The snapshot accounts every pod that occupies a node.  "The pods already
    occupying the node (running, terminating, bound or being bound)": a pod with
    a node name or a BindRequest whose phase is Pending or Running - deleted or
    not, gated or not - is classified with a status that NodeInfo.AddTasksToNode
    charges (an active-used status), so the capacity it holds is never idle in
    the scheduler's books.  [task_status] (Run/C01.v) is the model of
    pod_info.getTaskStatus, compared with the real constructor on all 80
    combinations on every run. *)
Theorem C01_occupying_pods_are_accounted :
  forall (ph : phase) (deleting on_node has_br gated : bool),
    occupies ph on_node has_br = true ->
    active_used (task_status ph deleting on_node has_br gated) = true.
Proof.
  intros ph deleting on_node has_br gated H.
  destruct ph, deleting, on_node, has_br, gated; try reflexivity; discriminate H.
Qed.
Print Assumptions C01_occupying_pods_are_accounted.

(** ... and a terminating pod is accounted as terminating: its capacity is releasing, not idle. *)
Theorem C01_terminating_pods_are_releasing :
  forall (ph : phase) (on_node has_br gated : bool),
    occupies ph on_node has_br = true ->
    task_status ph true on_node has_br gated = Releasing.
Proof. intros ph on_node has_br gated H. destruct ph, on_node, has_br, gated; try reflexivity; discriminate H. Qed.
Print Assumptions C01_terminating_pods_are_releasing.

(** ** The snapshot charges every pod that occupies a node (Model/Snapshot.v, Proofs/Snapshot.v)

    The two theorems above speak about ONE pod built with a given BindRequest.  Which request a pod is built
    with, and which node it is then added to, is decided by the snapshot code: snapshotBindRequests (requests for
    nodes that are gone are set aside), GetBindRequestForPod (a terminally failed request counts as none: IsFailed,
    backoff rule), NewTaskInfoWithBindRequest (node name, else the request's node), AddTasksToNode.  The model of
    that pipeline is [snap_node] / [snapshot]; it is compared with the real ClusterInfo.Snapshot on generated API
    worlds (case kind FSnapshot, Run/C01.v).  The ground truth is stated on the API world alone: a pod
    [occupies_on] node n when it has not finished and sits on n, or has no node yet and a BindRequest that is not
    terminally failed - pending, failed with retries left, being deleted, or SERVED with the pod update still in
    flight - selects n.  [WorldWf]: pod names distinct, at most one request per pod, nodes start empty.
    For ALL such worlds (any number of nodes, pods and requests): *)

(** the books of every snapshot node are exactly the recomputation from its occupants: used, idle and releasing
    resources and the memory used / allocated / releasing on every shared GPU device *)
Theorem C01_snapshot_charges_occupying_pods :
  forall (w : world) (nid : positive) (n0 : node),
    WorldWf w -> alookup nid (w_nodes w) = Some n0 ->
    agrees (snap_node false w nid n0) (occupants w nid).
Proof. exact snapshot_books. Qed.
Print Assumptions C01_snapshot_charges_occupying_pods.

(** idle + what the occupying pods ask for = allocatable, for CPU, memory, pod slots, MIG and extended resources *)
Theorem C01_snapshot_idle_plus_occupying_is_allocatable :
  forall (w : world) (nid : positive) (n0 : node),
    WorldWf w -> alookup nid (w_nodes w) = Some n0 ->
    eq_nogpu (radd (n_idle (snap_node false w nid n0)) (rsum (map charge (occupants w nid)))) (n_alloc n0).
Proof. exact snapshot_idle_plus_occupants. Qed.
Print Assumptions C01_snapshot_idle_plus_occupying_is_allocatable.

(** ... and for whole GPUs as well when no pod of the world shares a GPU (shared devices: the per-device memory
    is in the first theorem, the device count is C02's) *)
Theorem C01_snapshot_idle_plus_occupying_is_allocatable_gpu :
  forall (w : world) (nid : positive) (n0 : node),
    WorldWf w -> NoSharing w -> alookup nid (w_nodes w) = Some n0 ->
    radd (n_idle (snap_node false w nid n0)) (rsum (map charge (occupants w nid))) = n_alloc n0.
Proof. exact snapshot_idle_plus_occupants_gpu. Qed.
Print Assumptions C01_snapshot_idle_plus_occupying_is_allocatable_gpu.

(** every occupying pod is held by its node in the snapshot, with a status the node accounts and its whole request
    charged ... *)
Theorem C01_occupying_pod_is_charged :
  forall (w : world) (p : wpod) (nid : positive) (n0 : node),
    WorldWf w -> alookup nid (w_nodes w) = Some n0 -> In p (w_pods w) -> occupies_on w p nid = true ->
    exists t, In t (tasks_of (snap_node false w nid n0)) /\ t_id t = wp_id p
              /\ active_used (t_status t) = true /\ charge t = charge (wp_task p).
Proof. exact occupying_pod_is_charged. Qed.
Print Assumptions C01_occupying_pod_is_charged.

(** ... and is never a pending pod that the cycle would place again *)
Theorem C01_occupying_pod_is_not_schedulable :
  forall (w : world) (p : wpod) (nid : positive),
    NoDup (map wb_pod (w_brs w)) -> amem nid (w_nodes w) = true -> occupies_on w p nid = true ->
    t_status (fst (snap_task false w p)) <> Pending /\ t_status (fst (snap_task false w p)) <> Gated.
Proof. exact occupying_pod_is_not_schedulable. Qed.
Print Assumptions C01_occupying_pod_is_not_schedulable.

(** Combined with the bind guard: if the occupying pods of a node fit on it, a Bind that passes the scheduler's
    guard on the snapshot node leaves occupying + bound within the allocatable amount ... *)
Theorem C01_bind_on_snapshot_within_allocatable :
  forall (w : world) (nid : positive) (n0 : node) (t : task) (gs : list positive),
    WorldWf w -> alookup nid (w_nodes w) = Some n0 -> wf_req t ->
    let n := snap_node false w nid n0 in
    NonNegIdle n -> bind_guard n t gs = true ->
    let d := radd (rsum (map charge (occupants w nid))) (charge t) in
    cpu d <= cpu (n_alloc n0) /\ mem d <= mem (n_alloc n0) /\ pods d <= pods (n_alloc n0)
    /\ mig d <= mig (n_alloc n0) /\ ext d <= ext (n_alloc n0).
Proof. exact bind_on_snapshot_within_allocatable. Qed.
Print Assumptions C01_bind_on_snapshot_within_allocatable.

(** ... whole GPUs included when no pod shares a GPU *)
Theorem C01_bind_on_snapshot_within_allocatable_gpu :
  forall (w : world) (nid : positive) (n0 : node) (t : task) (gs : list positive),
    WorldWf w -> NoSharing w -> alookup nid (w_nodes w) = Some n0 -> wf_req t ->
    is_shared t = false -> t_besteffort t = false ->
    bind_guard (snap_node false w nid n0) t gs = true ->
    gpu (rsum (map charge (occupants w nid))) + gpu (charge t) <= gpu (n_alloc n0).
Proof. exact bind_on_snapshot_within_allocatable_gpu. Qed.
Print Assumptions C01_bind_on_snapshot_within_allocatable_gpu.

(** ... and the same for a whole cycle of calls on the snapshot (C01_cycle_idle_never_negative started from the
    snapshot of any world whose occupying pods fit): no node ends with a negative idle amount *)
Theorem C01_cycle_on_snapshot_never_oversubscribes :
  forall (w : world) (cs : list call) (ns' : amap node),
    WorldWf w -> ReqsWf w -> NodesNN (snapshot w) ->
    all_evict_occupying (snap_tis w) (snapshot w) cs = true ->
    replay (snap_tis w) (snapshot w) cs = Some (ns', true) -> NodesNN ns'.
Proof. exact cycle_on_snapshot_never_negative. Qed.
Print Assumptions C01_cycle_on_snapshot_never_oversubscribes.

(** The variant of snapshotBindRequests that leaves served (Succeeded) requests out of the snapshot
    ([snapshot_gen true]; NOT the code: seeded/C01-4, seeded/C12-3) breaks all of this.  Witness: node 1 has one
    GPU, pod 1 was bound to it and its request is Succeeded while the pod update is still in flight, pod 2 wants a
    GPU.  Pod 1 occupies the node; the variant makes it a plain pending pod, the node looks idle, binding pod 2
    passes the guard and two GPUs are asked of one.  The code's snapshot has pod 1 Binding on node 1 and refuses. *)
Theorem C01_dropping_served_requests_refuted :
  exists (w : world) (nid : positive) (n0 : node) (p : wpod),
    WorldWf w /\ ReqsWf w /\ alookup nid (w_nodes w) = Some n0 /\ In p (w_pods w)
    /\ map t_id (occupants w nid) = [1%positive]
    /\ snap_pods true w = [(1%positive, (Pending, None)); (2%positive, (Pending, None))]
    /\ n_idle (snap_node true w nid n0) = n_alloc n0
    /\ guard_of (replay (snap_tis w) (snapshot_gen true w) [CBind (wp_id p) nid []]) = Some true
    /\ gpu (n_alloc n0) < gpu (rsum (map charge (occupants w nid))) + gpu (charge (wp_task p))
    /\ snap_pods false w = [(1%positive, (Binding, Some 1%positive)); (2%positive, (Pending, None))]
    /\ guard_of (replay (snap_tis w) (snapshot w) [CBind (wp_id p) nid []]) = Some false.
Proof. exact drop_succeeded_refuted. Qed.
Print Assumptions C01_dropping_served_requests_refuted.

(** non-vacuity of the snapshot theorems: the same world is well formed, shares no GPU, its occupying pods fit,
    and the code's snapshot of node 1 has no idle GPU *)
Theorem C01_snapshot_nonvacuous :
  WorldWf rd_world /\ NoSharing rd_world
  /\ gpu (n_idle (snap_node false rd_world 1 rd_node)) = 0
  /\ gpu (rsum (map charge (occupants rd_world 1))) = 1
  /\ NodesNN (snapshot rd_world).
Proof. exact snapshot_books_nonvacuous. Qed.
Print Assumptions C01_snapshot_nonvacuous.

(** Whole GPUs, for nodes without shared-GPU work: all six columns of the books
    are exact (C14_node_wholegpu_exact), so the same argument covers GPUs.
    With shared devices the whole-GPU count is C02's business and is partial
    (known finding C14-device-guard). *)

(** Non-vacuity: a concrete node and an admissible history with a terminating
    pod, a rejected over-commit and a nomination onto terminating capacity. *)
Definition ex_node : node :=
  mkNode (mkRes 4000 8000 2 3 0 0) (mkRes 4000 8000 2 3 0 0) rzero rzero 2 100 [] [] [] [] [].
Definition ex_t (id : positive) (st : status) (c g : Z) : task :=
  mkTask id id st KRegular (mkRes c 1000 g 1 0 0) 0 0 [] false false.
Definition ex_ops : list nop :=
  [OAdd (ex_t 1 Running 2000 1); OAdd (ex_t 2 Releasing 1000 1); OAdd (ex_t 3 Pipelined 1000 1);
   OUpdate (ex_t 1 Releasing 2000 1); OAdd (ex_t 4 Allocated 1000 0)].
Theorem C01_nonvacuous :
  all_admissible ex_node ex_ops = true
  /\ is_task_allocatable (run ex_node ex_ops) (ex_t 5 Allocated 1000 0) = false
  /\ pods (n_idle (run ex_node ex_ops)) = 0
  /\ cpu (occupying_demand (run ex_node ex_ops)) = 4000.
Proof. repeat split; vm_compute; reflexivity. Qed.
Print Assumptions C01_nonvacuous.

(** * What a pod requests (Model/PodRequest.v)

    "Requested by the pods" is the request Kubernetes holds the node to: per resource
    max (sum of the regular containers, largest init container) + overhead. [pod_request] is that rule and the model
    of pod_info.getPodResourceRequest (compared with the real NewTaskInfo and with the upstream
    k8s.io/component-helpers/resource.PodRequests on generated pod specs on every run, case kind FRequest).

    For ALL pods, resources and stages of the pod's life - the i-th init container running alone, or all regular
    containers running together, the sandbox overhead held throughout - booking [pod_request] covers what the pod
    holds: *)
Theorem C01_request_covers_every_stage :
  forall (p : podspec) (s : pstage) (k : rkind), proj k (demand_at p s) <= proj k (pod_request p).
Proof. exact request_covers_every_stage. Qed.
Print Assumptions C01_request_covers_every_stage.

(** spelled out: every init container alone plus the overhead, and all regular containers plus the overhead *)
Theorem C01_request_covers_init_and_run :
  forall (p : podspec) (k : rkind),
    (forall c, In c (ps_inits p) -> proj k c + proj k (ps_overhead p) <= proj k (pod_request p))
    /\ proj k (rsum (ps_conts p)) + proj k (ps_overhead p) <= proj k (pod_request p).
Proof. intros p k. split; [intros c; apply request_covers_init|apply request_covers_run]. Qed.
Print Assumptions C01_request_covers_init_and_run.

(** ... and it is the least booking that does: anything that covers every stage is at least [pod_request] *)
Theorem C01_request_is_least :
  forall (p : podspec) (r : res) (k : rkind),
    (forall s, proj k (demand_at p s) <= proj k r) -> proj k (pod_request p) <= proj k r.
Proof. exact request_is_least_over_stages. Qed.
Print Assumptions C01_request_is_least.

(** Adding the overhead to the containers BEFORE taking the maximum with the init containers
    ([early_overhead_request]) reads, per resource, exactly min (overhead, largest init - sum of containers) less,
    when that is positive: *)
Theorem C01_overhead_before_max_deficit :
  forall (p : podspec) (k : rkind),
    spec_nonneg p ->
    proj k (pod_request p) - proj k (early_overhead_request p)
    = Z.max 0 (Z.min (proj k (ps_overhead p)) (max_init k p - proj k (rsum (ps_conts p)))).
Proof. exact early_overhead_deficit. Qed.
Print Assumptions C01_overhead_before_max_deficit.

(** so it never reads more, and reads strictly less exactly for the pods with an overhead in the resource AND an init
    container above the sum of the regular containers *)
Theorem C01_overhead_before_max_never_above :
  forall (p : podspec) (k : rkind),
    spec_nonneg p -> proj k (early_overhead_request p) <= proj k (pod_request p).
Proof. exact early_overhead_never_above. Qed.
Print Assumptions C01_overhead_before_max_never_above.

Theorem C01_overhead_before_max_under_reads_iff :
  forall (p : podspec) (k : rkind),
    spec_nonneg p ->
    (proj k (early_overhead_request p) < proj k (pod_request p)
     <-> 0 < proj k (ps_overhead p) /\ proj k (rsum (ps_conts p)) < max_init k p).
Proof. exact early_overhead_under_reads_iff. Qed.
Print Assumptions C01_overhead_before_max_under_reads_iff.

(** witness (the pod of seeded/C01-5: container 500m / 512Mi, init container 1500m / 1536Mi, overhead 500m / 512Mi):
    requested 2000m / 2Gi, read as 1500m / 1.5Gi; on a 6-core / 6Gi node with three such pods booked in the smaller
    units the fourth still passes LessEqual on the idle amount, and the four request 8 cores / 8Gi; in [booked]
    units the fourth is refused *)
Theorem C01_overhead_before_max_readme_witness :
  pod_request readme_pod = mkRes 2000 2147483648 0 0 0 0
  /\ early_overhead_request readme_pod = mkRes 1500 1610612736 0 0 0 0
  /\ (let node := mkRes 6000 6442450944 0 110 0 0 in
      let idle3 := rsub node (rsum (repeat (radd (early_overhead_request readme_pod) one_pod_slot) 3)) in
      rle (radd (early_overhead_request readme_pod) one_pod_slot) idle3 = true
      /\ cpu node < cpu (rsum (repeat (booked readme_pod) 4))
      /\ mem node < mem (rsum (repeat (booked readme_pod) 4))
      /\ rle (booked readme_pod) (rsub node (rsum (repeat (booked readme_pod) 3))) = false).
Proof. exact readme_witness. Qed.
Print Assumptions C01_overhead_before_max_readme_witness.

(** The upstream aggregation with restartable init containers ([k8s_request]: AggregateContainerRequests, the
    reference side of the FRequest cases) is [pod_request] when the pod has no sidecar. With sidecars the scheduler's
    reading differed until the repair 21eb608 (it treated a sidecar as an ordinary init container); since then the
    correspondence of Run/C01.v ties the scheduler's reading to [k8s_request] for every pod. *)
Theorem C01_kubernetes_rule_without_sidecars :
  forall p : podspec,
    Forall res_nonneg (ps_conts p) ->
    k8s_request (ps_conts p) (map (pair false) (ps_inits p)) (ps_overhead p) = pod_request p.
Proof. exact k8s_request_no_sidecar. Qed.
Print Assumptions C01_kubernetes_rule_without_sidecars.

(** With restartable init containers: while an init container starts it runs next to the sidecars started before
    it (a sidecar: next to the earlier ones, and it stays); after the init phase the regular containers run next
    to all sidecars; the overhead is held throughout ([sidecar_stages]). For ALL pods - any containers, any init
    containers, restartable or not, in any order, any overhead - and every resource, [k8s_request] covers every
    stage ... *)
Theorem C01_request_with_sidecars_covers_every_stage :
  forall (conts : list res) (inits : list (bool * res)) (oh : res) (k : rkind) (d : res),
    In d (sidecar_stages conts inits oh) -> proj k d <= proj k (k8s_request conts inits oh).
Proof. exact k8s_request_covers_every_stage. Qed.
Print Assumptions C01_request_with_sidecars_covers_every_stage.

(** ... and is the least booking that does: some stage holds exactly that much. *)
Theorem C01_request_with_sidecars_is_attained :
  forall (conts : list res) (inits : list (bool * res)) (oh : res) (k : rkind),
    0 <= proj k (run_stage conts inits) ->
    exists d, In d (sidecar_stages conts inits oh) /\ proj k d = proj k (k8s_request conts inits oh).
Proof. exact k8s_request_is_attained. Qed.
Print Assumptions C01_request_with_sidecars_is_attained.

(** Non-vacuity, and the finding repaired by 21eb608: a 1000m / 1Gi container with a 1000m / 1Gi sidecar holds
    2000m / 2Gi while it runs; the rule says 2000m, the reading that treats the sidecar as an ordinary init
    container ([pod_request] on the spec with the flags dropped) says 1000m. *)
Theorem C01_sidecar_as_ordinary_init_refuted :
  cpu (k8s_request sidecar_pod_conts sidecar_pod_inits rzero) = 2000
  /\ cpu (pod_request (mkPS sidecar_pod_conts (map snd sidecar_pod_inits) rzero)) = 1000
  /\ In (mkRes 2000 2147483648 0 0 0 0) (sidecar_stages sidecar_pod_conts sidecar_pod_inits rzero).
Proof. exact sidecar_pod_witness. Qed.
Print Assumptions C01_sidecar_as_ordinary_init_refuted.

(** Link with the bind guard (C01_bind_on_snapshot_within_allocatable): when the books are kept in [booked] units -
    the charge of every occupying pod and of the pod being bound is its [pod_request] plus the pod slot - a Bind
    that passes the scheduler's guard on the snapshot node never oversubscribes the node in Kubernetes' terms:
    WHATEVER stage each pod on the node is in ([st] arbitrary), what the occupying pods and the bound pod hold
    together stays within the allocatable CPU, memory, MIG instances and extended resources. *)
Theorem C01_bind_in_request_units_covers_every_stage :
  forall (w : world) (nid : positive) (n0 : node) (t : task) (gs : list positive)
         (spec : task -> podspec) (st : task -> pstage),
    WorldWf w -> alookup nid (w_nodes w) = Some n0 -> wf_req t ->
    let n := snap_node false w nid n0 in
    NonNegIdle n -> bind_guard n t gs = true ->
    (forall x k, In x (t :: occupants w nid) -> In k [KCpu; KMem; KMig; KExt] ->
                 proj k (charge x) = proj k (booked (spec x))) ->
    let held := rsum (map (fun x => demand_at (spec x) (st x)) (t :: occupants w nid)) in
    forall k, In k [KCpu; KMem; KMig; KExt] -> proj k held <= proj k (n_alloc n0).
Proof. exact bind_in_request_units_covers_every_stage. Qed.
Print Assumptions C01_bind_in_request_units_covers_every_stage.
