(** C01 — Node resources are never oversubscribed by scheduling decisions.
    Statements only; proofs in Proofs/Admissible.v and Proofs/Node.v.
    The node model (Model/Node.v) is tied to the real NodeInfo by the C14
    correspondence check and to real scheduling cycles by the cycle-level
    refinement check (Run/Cycle.v: every real Bind / Evict / TaskPipelined is an
    admissible operation of the model and the real final books equal the
    model's). *)
From Coq Require Import List ZArith PArith Bool.
From KaiV Require Import Model.Res Model.Status Model.AMap Model.Node Model.NodeSpec Proofs.Node Proofs.Admissible
     Run.NodeObs Run.Cycle Run.C01 Proofs.CycleSafe.
Import ListNotations.
Open Scope Z_scope.

(** Along ANY history of node operations (placements, nominations, evictions,
    un-evictions, removals — as issued by snapshot construction, by every action
    and by every simulation step) in which each non-nominated placement passed
    the scheduler's own guard (IsTaskAllocatable), the node never believes a
    negative amount of CPU, memory, pod slots, MIG instances or extended
    resources idle. *)
Theorem C01_idle_never_negative :
  forall (ops : list nop) (n0 : node),
    Books n0 -> Wf n0 -> NonNegIdle n0 -> Forall wf_req (op_tasks ops) ->
    all_admissible n0 ops = true -> NonNegIdle (run n0 ops).
Proof. exact idle_never_negative. Qed.
Print Assumptions C01_idle_never_negative.

(** Hence the pods occupying the node — running, bound, being bound AND
    terminating or evicted in this cycle, i.e. everything that is not merely
    nominated — never ask for more than the allocatable amount: capacity held by
    terminating pods is never handed to a bind. *)
Theorem C01_occupying_within_allocatable :
  forall n : node,
    Books n -> NonNegIdle n ->
    cpu (occupying_demand n) <= cpu (n_alloc n) /\ mem (occupying_demand n) <= mem (n_alloc n)
    /\ pods (occupying_demand n) <= pods (n_alloc n) /\ mig (occupying_demand n) <= mig (n_alloc n)
    /\ ext (occupying_demand n) <= ext (n_alloc n).
Proof. exact occupying_within_allocatable. Qed.
Print Assumptions C01_occupying_within_allocatable.

(** Both invariants hold in every state reachable by admissible histories
    (combination of the two theorems above with C14_node_books). *)
Theorem C01_histories :
  forall (ops : list nop) (n0 : node),
    Books n0 -> Wf n0 -> NonNegIdle n0 -> Forall wf_req (op_tasks ops) ->
    all_admissible n0 ops = true ->
    let n := run n0 ops in
    cpu (occupying_demand n) <= cpu (n_alloc n) /\ mem (occupying_demand n) <= mem (n_alloc n)
    /\ pods (occupying_demand n) <= pods (n_alloc n) /\ mig (occupying_demand n) <= mig (n_alloc n)
    /\ ext (occupying_demand n) <= ext (n_alloc n).
Proof.
  intros ops n0 B W N WO A. apply occupying_within_allocatable.
  - apply node_books. exact B.
  - apply idle_never_negative; assumption.
Qed.
Print Assumptions C01_histories.

(** The same over whole cycles, stated on the very replay function the
    cycle-level correspondence check evaluates on the calls of the real scheduler
    (Run/Cycle.v): if every Bind / Evict / TaskPipelined of a cycle is admissible
    in the model state it is applied to ([replay] returns ok = true — this is what
    the check establishes for every real cycle it runs) and evictions hit pods
    that occupy their node, then no node ends the cycle with a negative idle
    amount, for any number of nodes, pods and calls. *)
Theorem C01_cycle_idle_never_negative :
  forall (ts : list tinfo) (cs : list call) (ns ns' : amap node),
    TasksWf ts -> NodesWf ns -> NodesNN ns ->
    all_evict_occupying ts ns cs = true ->
    replay ts ns cs = Some (ns', true) -> NodesNN ns'.
Proof. intros ts cs ns ns'. exact (cycle_idle_never_negative ts cs ns ns'). Qed.
Print Assumptions C01_cycle_idle_never_negative.

(** The snapshot accounts every pod that occupies a node.  "The pods already
    occupying the node (running, terminating, bound or being bound)": a pod with
    a node name or a BindRequest whose phase is Pending or Running - deleted or
    not, gated or not - is classified with a status that NodeInfo.AddTasksToNode
    charges (an active-used status), so the capacity it holds is never idle in
    the scheduler's books.  [task_status] (Run/C01.v) is the model of
    pod_info.getTaskStatus, compared with the real constructor on all 80
    combinations on every run. *)
Theorem C01_occupying_pods_are_accounted :
  forall (ph : phase) (deleting on_node has_br gated : bool),
    occupies ph on_node has_br = true ->
    active_used (task_status ph deleting on_node has_br gated) = true.
Proof.
  intros ph deleting on_node has_br gated H.
  destruct ph, deleting, on_node, has_br, gated; try reflexivity; discriminate H.
Qed.
Print Assumptions C01_occupying_pods_are_accounted.

(** ... and a terminating pod is accounted as terminating: its capacity is releasing, not idle. *)
Theorem C01_terminating_pods_are_releasing :
  forall (ph : phase) (on_node has_br gated : bool),
    occupies ph on_node has_br = true ->
    task_status ph true on_node has_br gated = Releasing.
Proof. intros ph on_node has_br gated H. destruct ph, on_node, has_br, gated; try reflexivity; discriminate H. Qed.
Print Assumptions C01_terminating_pods_are_releasing.

(** Whole GPUs, for nodes without shared-GPU work: all six columns of the books
    are exact (C14_node_wholegpu_exact), so the same argument covers GPUs.
    With shared devices the whole-GPU count is C02's business and is partial
    (known finding C14-device-guard). *)

(** Non-vacuity: a concrete node and an admissible history with a terminating
    pod, a rejected over-commit and a nomination onto terminating capacity. *)
Definition ex_node : node :=
  mkNode (mkRes 4000 8000 2 3 0 0) (mkRes 4000 8000 2 3 0 0) rzero rzero 2 100 [] [] [] [] [].
Definition ex_t (id : positive) (st : status) (c g : Z) : task :=
  mkTask id id st KRegular (mkRes c 1000 g 1 0 0) 0 0 [] false false.
Definition ex_ops : list nop :=
  [OAdd (ex_t 1 Running 2000 1); OAdd (ex_t 2 Releasing 1000 1); OAdd (ex_t 3 Pipelined 1000 1);
   OUpdate (ex_t 1 Releasing 2000 1); OAdd (ex_t 4 Allocated 1000 0)].
Theorem C01_nonvacuous :
  all_admissible ex_node ex_ops = true
  /\ is_task_allocatable (run ex_node ex_ops) (ex_t 5 Allocated 1000 0) = false
  /\ pods (n_idle (run ex_node ex_ops)) = 0
  /\ cpu (occupying_demand (run ex_node ex_ops)) = 4000.
Proof. repeat split; vm_compute; reflexivity. Qed.
Print Assumptions C01_nonvacuous.
