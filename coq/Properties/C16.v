(** C16 — Priority, then FIFO, decides between equal workloads of a queue.
    Statements only; proofs are in Proofs/JobOrder.v.

    [job_less] is Session.JobOrderFn with the comparators registered by the
    default configuration (priority plugin, elastic plugin, creation time, UID).
    The heap is Go's container/heap over a slice, modelled operation by
    operation and proved here (it is not an oracle). The queue order function
    [qord] (proportion plugin) and the placement oracle [attempt] are arbitrary. *)
From Coq Require Import List ZArith Bool Permutation.
From KaiV Require Import Model.JobOrder Model.JobOrderSpec Proofs.JobOrder.
Import ListNotations.
Open Scope Z_scope.

(** (1) The comparator chain is a strict total order on jobs with distinct UIDs. *)
Theorem C16_job_order_strict_total :
  (forall a, job_less a a = false)
  /\ (forall a b c, job_less a b = true -> job_less b c = true -> job_less a c = true)
  /\ (forall a b, j_uid a <> j_uid b ->
                  (job_less a b = true /\ job_less b a = false) \/ (job_less a b = false /\ job_less b a = true)).
Proof. exact job_order_strict_total_proof. Qed.
Print Assumptions C16_job_order_strict_total.

(** ... and it is "priority, then FIFO" on jobs in the same elastic state. *)
Theorem C16_job_order_is_priority_then_fifo :
  forall a b, min_available_state a = min_available_state b ->
    (j_prio b < j_prio a \/ (j_prio a = j_prio b /\ j_ctime a < j_ctime b)) -> job_less a b = true.
Proof. intros a b H. apply job_less_priority_fifo. unfold rank. now rewrite H. Qed.
Print Assumptions C16_job_order_is_priority_then_fifo.

(** (2) container/heap, for any strict weak order: Push keeps the heap invariant
    and adds exactly the pushed element; Pop returns the root, which is a least
    element, removes exactly it and keeps the invariant; Remove(i) removes exactly
    the element at index i and keeps the invariant. *)
Theorem C16_heap_push :
  forall (A : Type) (less : A -> A -> bool), strict_weak less ->
  forall l x, heap_ok less l ->
    exists l', h_push less l x = Ok l' /\ heap_ok less l' /\ Permutation (x :: l) l'.
Proof. exact (fun A less SW => h_push_spec less SW). Qed.
Print Assumptions C16_heap_push.

Theorem C16_heap_pop_min :
  forall (A : Type) (less : A -> A -> bool), strict_weak less ->
  forall l, heap_ok less l -> l <> [] ->
    exists x l', h_pop less l = Ok (x, l') /\ nth_error l 0 = Some x /\ heap_ok less l'
                 /\ Permutation l (x :: l') /\ (forall y, In y l -> less y x = false).
Proof. exact (fun A less SW => h_pop_spec less SW). Qed.
Print Assumptions C16_heap_pop_min.

Theorem C16_heap_remove :
  forall (A : Type) (less : A -> A -> bool), strict_weak less ->
  forall l i, heap_ok less l -> (i < length l)%nat ->
    exists x l', h_remove less l i = Ok (x, l') /\ nth_error l i = Some x /\ heap_ok less l'
                 /\ Permutation l (x :: l').
Proof. exact (fun A less SW => h_remove_spec less SW). Qed.
Print Assumptions C16_heap_remove.

(** Fix(i) restores the invariant when only the element at i is out of place. *)
Theorem C16_heap_fix :
  forall (A : Type) (less : A -> A -> bool), strict_weak less ->
  forall l i, (i < length l)%nat ->
    (forall k, (0 < k < length l)%nat -> k <> i -> ((k - 1) / 2)%nat <> i -> edge less l k) ->
    (forall c p x, (0 < i)%nat -> (c < length l)%nat -> ((c - 1) / 2)%nat = i -> (0 < c)%nat ->
                   nth_error l ((i - 1) / 2) = Some p -> nth_error l c = Some x -> less x p = false) ->
    exists l', h_fix less l i = Ok l' /\ heap_ok less l' /\ Permutation l l'.
Proof. exact (fun A less SW => h_fix_spec less SW). Qed.
Print Assumptions C16_heap_fix.

(** (3) Within one leaf queue, with unlimited depth: in every state reachable by any
    interleaving of PushJob (any queue, re-pushes included) and PopNextJob, for any
    queue hierarchy and any queue order function, a pop returns a least job of the
    leaf it pops (the least one when UIDs are distinct) and removes exactly that
    job; a push adds exactly the pushed job to its own leaf; no other leaf changes. *)
Theorem C16_pop_order_within_leaf :
  forall (qs : list qinfo) (qord : Z -> Z -> option job -> option job -> bool) (st : jo),
    reachable qs qord st ->
    (forall j st', pop_next_job qord st = Ok (Some j, st') ->
       In j (leaf_items st (j_queue j))
       /\ (forall j', In j' (leaf_items st (j_queue j)) -> job_less j' j = false)
       /\ (forall j', In j' (leaf_items st (j_queue j)) -> j_uid j' <> j_uid j -> job_less j j' = true)
       /\ Permutation (leaf_items st (j_queue j)) (j :: leaf_items st' (j_queue j))
       /\ (forall q', q' <> j_queue j -> leaf_items st' q' = leaf_items st q'))
    /\ (forall j st', push_job qs qord (-1) st j = Ok st' ->
          (st' = st /\ exists qi, lookup_q qs (j_queue j) = Some qi /\ qi_leaf qi = false)
          \/ (Permutation (j :: leaf_items st (j_queue j)) (leaf_items st' (j_queue j))
              /\ (forall q', q' <> j_queue j -> leaf_items st' q' = leaf_items st q'))).
Proof. exact pop_order_within_leaf_proof. Qed.
Print Assumptions C16_pop_order_within_leaf.

(** (4) The property, decision level, unlimited depth. For every queue hierarchy,
    queue order function, set of pending jobs in any initial order, abstract
    capacity that only shrinks, and placement oracle: if [a] and [b] are jobs of
    one leaf queue for which "fits" is the same monotone predicate of the remaining
    capacity, and the chain orders [a] before [b], then a completed allocate action
    that places [b] places [a]. This is [C16_finite_depth] restricted to depth -1. *)
Theorem C16_finite_depth_partial :
  forall (qs : list qinfo) (qord : Z -> Z -> option job -> option job -> bool)
         (C : Type) (attempt : job -> C -> option (C * option job)) (cle : C -> C -> Prop)
         (a b : job) (fuel : nat) (jobs : list job) (c0 : C) (out : list (job * bool)),
    (forall c, cle c c) ->
    (forall c1 c2 c3, cle c1 c2 -> cle c2 c3 -> cle c1 c3) ->
    (forall j c c' r, attempt j c = Some (c', r) -> cle c' c) ->
    (forall c c', cle c' c -> fits attempt a c' = true -> fits attempt a c = true) ->
    (forall c, fits attempt a c = fits attempt b c) ->
    j_queue a = j_queue b ->
    job_less a b = true ->
    In a jobs -> queue_ok qs (j_queue a) = true ->
    allocate qs qord (-1) attempt fuel jobs c0 = Ok out ->
    In (b, true) out -> In (a, true) out.
Proof. exact C16_decision_proof. Qed.
Print Assumptions C16_finite_depth_partial.

(** (5) The same statement for every MaxJobsQueueDepth ([C16_finite_depth] in
    Model/JobOrderSpec.v) is false in the faithful model: with depth 2 and jobs of
    priority 3, 1, 2 arriving in this order in one leaf queue, everything fitting,
    the priority-2 job is dropped by [heap.Remove(q, 2)] and the priority-1 job is
    placed. *)
Theorem C16_finite_depth_refuted :
  (exists depth, 0 <= depth /\ ~ C16_decision_stmt depth) /\ ~ C16_finite_depth.
Proof.
  split.
  - exists 2. split; [discriminate|exact finite_depth_refuted_proof].
  - intros H. apply finite_depth_refuted_proof. apply H. discriminate.
Qed.
Print Assumptions C16_finite_depth_refuted.

(** The finite queue still is a valid heap and loses exactly one element per
    overflowing push — only the choice of that element is wrong: *)
Theorem C16_finite_push_keeps_heap :
  forall (A : Type) (less : A -> A -> bool), strict_weak less ->
  forall d l x, heap_ok less l -> 0 <= d ->
    exists l', pq_push less d l x = Ok l' /\ heap_ok less l'
               /\ (Z.of_nat (length l) < d -> Permutation (x :: l) l')
               /\ (d <= Z.of_nat (length l) -> exists y, Permutation (x :: l) (y :: l')).
Proof. exact (fun A less SW => pq_push_finite_spec less SW). Qed.
Print Assumptions C16_finite_push_keeps_heap.

Theorem C16_finite_queue_drops_a_better_job :
  exists l, (l1 <- pq_push job_less 2 [] w_top ;; l2 <- pq_push job_less 2 l1 w_b ;; pq_push job_less 2 l2 w_a) = Ok l
            /\ ~ In w_a l /\ In w_b l /\ job_less w_a w_b = true
            /\ ideal_push job_less 2 (ideal_push job_less 2 (ideal_push job_less 2 [] w_top) w_b) w_a = [w_top; w_a].
Proof.
  destruct pq_finite_drops_non_worst as (l & H1 & H2 & H3 & H4).
  exists l. repeat split; auto.
Qed.
Print Assumptions C16_finite_queue_drops_a_better_job.

(** Non-vacuity: a two-level hierarchy with two leaf queues, three jobs and a
    capacity counter meets every hypothesis of (4); with capacity 3 everything is
    placed, with capacity 1 only the first job of the comparator order is. *)
Theorem C16_nonvacuous :
  (forall c, Z.le c c)
  /\ (forall j c c' r, ex_attempt j c = Some (c', r) -> c' <= c)
  /\ (forall c c', c' <= c -> fits ex_attempt ex_a c' = true -> fits ex_attempt ex_a c = true)
  /\ (forall c, fits ex_attempt ex_a c = fits ex_attempt ex_b c)
  /\ j_queue ex_a = j_queue ex_b /\ job_less ex_a ex_b = true
  /\ queue_ok ex_qs (j_queue ex_a) = true
  /\ allocate ex_qs ex_qord (-1) ex_attempt 10 [ex_b; ex_c; ex_a] 3
     = Ok [(ex_a, true); (ex_b, true); (ex_c, true)]
  /\ allocate ex_qs ex_qord (-1) ex_attempt 10 [ex_b; ex_c; ex_a] 1
     = Ok [(ex_a, true); (ex_b, false); (ex_c, false)].
Proof. exact nonvacuous_proof. Qed.
Print Assumptions C16_nonvacuous.
