(** C16 — Priority, then FIFO, decides between equal workloads of a queue.
    Statements only; proofs are in Proofs/JobOrder.v.

    [job_less] is Session.JobOrderFn with the comparators registered by the
    default configuration (priority plugin, elastic plugin, creation time, UID).
    The heap is Go's container/heap over a slice, modelled operation by
    operation and proved here (it is not an oracle). The queue order function
    [qord] (proportion plugin) and the placement oracle [attempt] are arbitrary.
    The capacity gate that allocate asks before it tries to place a popped job
    (proportion's capacity policy: queue limits, non-preemptible quota) is
    modelled in Model/QuotaGate.v; statements (7)-(9) are about it, proofs in
    Proofs/JobOrderGate.v. Statements (10)-(12) are about WHICH jobs a cycle
    collects (InitializeWithJobs; [eligible] / [eligible_of] / [ghost_free] in
    Model/JobOrderSpec.v), proofs in Proofs/JobOrderCollect.v. Statements (13)-(14)
    are about PodGroupInfo.LastStartTimestamp ([j_last_start]): the order does not
    read it; proofs in Proofs/JobOrderLastStart.v. *)
From Coq Require Import List ZArith Bool Permutation.
From KaiV Require Import Model.JobOrder Model.JobOrderSpec Model.QuotaGate Model.QuotaGateSpec
     Proofs.JobOrder Proofs.JobOrderGate Proofs.JobOrderCollect Proofs.JobOrderMonitor Proofs.JobOrderLastStart.
From KaiV Require Run.C16.
Import ListNotations.
Open Scope Z_scope.

(** (1) The comparator chain is a strict total order on jobs with distinct UIDs. *)
Theorem C16_job_order_strict_total :
  (forall a, job_less a a = false)
  /\ (forall a b c, job_less a b = true -> job_less b c = true -> job_less a c = true)
  /\ (forall a b, j_uid a <> j_uid b ->
                  (job_less a b = true /\ job_less b a = false) \/ (job_less a b = false /\ job_less b a = true)).
Proof. exact job_order_strict_total_proof. Qed.
Print Assumptions C16_job_order_strict_total.

(** ... and it is "priority, then FIFO" on jobs in the same elastic state. *)
Theorem C16_job_order_is_priority_then_fifo :
  forall a b, min_available_state a = min_available_state b ->
    (j_prio b < j_prio a \/ (j_prio a = j_prio b /\ j_ctime a < j_ctime b)) -> job_less a b = true.
Proof. intros a b H. apply job_less_priority_fifo. unfold rank. now rewrite H. Qed.
Print Assumptions C16_job_order_is_priority_then_fifo.

(** (2) container/heap, for any strict weak order: Push keeps the heap invariant
    and adds exactly the pushed element; Pop returns the root, which is a least
    element, removes exactly it and keeps the invariant; Remove(i) removes exactly
    the element at index i and keeps the invariant. *)
Theorem C16_heap_push :
  forall (A : Type) (less : A -> A -> bool), strict_weak less ->
  forall l x, heap_ok less l ->
    exists l', h_push less l x = Ok l' /\ heap_ok less l' /\ Permutation (x :: l) l'.
Proof. exact (fun A less SW => h_push_spec less SW). Qed.
Print Assumptions C16_heap_push.

Theorem C16_heap_pop_min :
  forall (A : Type) (less : A -> A -> bool), strict_weak less ->
  forall l, heap_ok less l -> l <> [] ->
    exists x l', h_pop less l = Ok (x, l') /\ nth_error l 0 = Some x /\ heap_ok less l'
                 /\ Permutation l (x :: l') /\ (forall y, In y l -> less y x = false).
Proof. exact (fun A less SW => h_pop_spec less SW). Qed.
Print Assumptions C16_heap_pop_min.

Theorem C16_heap_remove :
  forall (A : Type) (less : A -> A -> bool), strict_weak less ->
  forall l i, heap_ok less l -> (i < length l)%nat ->
    exists x l', h_remove less l i = Ok (x, l') /\ nth_error l i = Some x /\ heap_ok less l'
                 /\ Permutation l (x :: l').
Proof. exact (fun A less SW => h_remove_spec less SW). Qed.
Print Assumptions C16_heap_remove.

(** Fix(i) restores the invariant when only the element at i is out of place. *)
Theorem C16_heap_fix :
  forall (A : Type) (less : A -> A -> bool), strict_weak less ->
  forall l i, (i < length l)%nat ->
    (forall k, (0 < k < length l)%nat -> k <> i -> ((k - 1) / 2)%nat <> i -> edge less l k) ->
    (forall c p x, (0 < i)%nat -> (c < length l)%nat -> ((c - 1) / 2)%nat = i -> (0 < c)%nat ->
                   nth_error l ((i - 1) / 2) = Some p -> nth_error l c = Some x -> less x p = false) ->
    exists l', h_fix less l i = Ok l' /\ heap_ok less l' /\ Permutation l l'.
Proof. exact (fun A less SW => h_fix_spec less SW). Qed.
Print Assumptions C16_heap_fix.

(** (3) The bounded PriorityQueue, for any strict weak order.
    indexOfLast() of a non-empty heap is a valid index, and no element of the heap
    is ordered after the item it designates (it scans the leaves only; every
    element of a heap has a leaf below it). *)
Theorem C16_index_of_last_is_a_maximum :
  forall (A : Type) (less : A -> A -> bool), strict_weak less ->
  forall l, heap_ok less l -> l <> [] ->
    (index_of_last less l < length l)%nat
    /\ (forall m, nth_error l (index_of_last less l) = Some m -> forall y, In y l -> less m y = false).
Proof. exact (fun A less SW => index_of_last_spec less SW). Qed.
Print Assumptions C16_index_of_last_is_a_maximum.

(** PriorityQueue.Push with any size bound [d] never fails and keeps the heap
    invariant; without a bound or below it exactly the pushed element is added; at
    the bound exactly one element [y] is dropped, and nothing that was in the queue,
    nor the pushed element, is ordered after [y]. *)
Theorem C16_finite_push_keeps_heap_drops_a_maximum :
  forall (A : Type) (less : A -> A -> bool), strict_weak less ->
  forall d l x, heap_ok less l ->
    exists l', pq_push less d l x = Ok l' /\ heap_ok less l'
               /\ ((d = -1 \/ Z.of_nat (length l) < d) -> Permutation (x :: l) l')
               /\ ((d <> -1 /\ d <= Z.of_nat (length l)) ->
                   exists y, Permutation (x :: l) (y :: l') /\ forall z, In z (x :: l) -> less y z = false).
Proof. exact (fun A less SW => pq_push_spec less SW). Qed.
Print Assumptions C16_finite_push_keeps_heap_drops_a_maximum.

(** "Keeps the d best": after any sequence of pushes [xs] into an empty queue of
    depth [d] (-1 = unlimited), for an order that is strict weak and in which no
    two different pushed elements tie, the queue holds, as a multiset, exactly the
    [d] smallest elements of [xs] ([d_best]: the first [d] elements of the sorted
    list of everything pushed). *)
Theorem C16_bounded_queue_keeps_d_best :
  forall (A : Type) (less : A -> A -> bool), strict_weak less ->
  forall d xs, -1 <= d -> total_on less xs ->
    exists l, pq_push_all less d [] xs = Ok l /\ heap_ok less l /\ Permutation l (d_best less d xs).
Proof. exact (fun A less SW => pq_keeps_d_best less SW). Qed.
Print Assumptions C16_bounded_queue_keeps_d_best.

(** "b kept => a kept": if the queue still holds [b], it holds every pushed [a]
    that is ordered before [b]. *)
Theorem C16_bounded_queue_kept_is_downward_closed :
  forall (A : Type) (less : A -> A -> bool), strict_weak less ->
  forall d xs l a b, -1 <= d -> total_on less xs ->
    pq_push_all less d [] xs = Ok l -> In a xs -> In b l -> less a b = true -> In a l.
Proof. exact (fun A less SW => pq_kept_downward less SW). Qed.
Print Assumptions C16_bounded_queue_kept_is_downward_closed.

(** Both, for a leaf queue of the scheduler: jobs with distinct UIDs never tie, so
    which jobs a leaf queue of depth [d] keeps is determined by the comparator chain
    alone (not by the order in which InitializeWithJobs visits Go's map). *)
Theorem C16_leaf_queue_keeps_d_best :
  forall d xs, -1 <= d -> NoDup (map j_uid xs) ->
    exists l, pq_push_all job_less d [] xs = Ok l /\ heap_ok job_less l /\ Permutation l (d_best job_less d xs)
              /\ (forall a b, In a xs -> In b l -> job_less a b = true -> In a l).
Proof. exact leaf_queue_keeps_d_best_proof. Qed.
Print Assumptions C16_leaf_queue_keeps_d_best.

(** (4) Within one leaf queue, with unlimited depth: in every state reachable by any
    interleaving of PushJob (any queue, re-pushes included) and PopNextJob, for any
    queue hierarchy and any queue order function, a pop returns a least job of the
    leaf it pops (the least one when UIDs are distinct) and removes exactly that
    job; a push adds exactly the pushed job to its own leaf; no other leaf changes. *)
Theorem C16_pop_order_within_leaf :
  forall (qs : list qinfo) (qord : Z -> Z -> option job -> option job -> bool) (st : jo),
    reachable qs qord st ->
    (forall j st', pop_next_job qord st = Ok (Some j, st') ->
       In j (leaf_items st (j_queue j))
       /\ (forall j', In j' (leaf_items st (j_queue j)) -> job_less j' j = false)
       /\ (forall j', In j' (leaf_items st (j_queue j)) -> j_uid j' <> j_uid j -> job_less j j' = true)
       /\ Permutation (leaf_items st (j_queue j)) (j :: leaf_items st' (j_queue j))
       /\ (forall q', q' <> j_queue j -> leaf_items st' q' = leaf_items st q'))
    /\ (forall j st', push_job qs qord (-1) st j = Ok st' ->
          (st' = st /\ exists qi, lookup_q qs (j_queue j) = Some qi /\ qi_leaf qi = false)
          \/ (Permutation (j :: leaf_items st (j_queue j)) (leaf_items st' (j_queue j))
              /\ (forall q', q' <> j_queue j -> leaf_items st' q' = leaf_items st q'))).
Proof. exact pop_order_within_leaf_proof. Qed.
Print Assumptions C16_pop_order_within_leaf.

(** PushJob with any depth: the leaf invariant is kept; below the bound exactly the
    pushed job is added to its leaf; at the bound one job is dropped from that leaf
    and no job of the leaf, nor the pushed one, is ordered after it. *)
Theorem C16_push_job_any_depth :
  forall (qs : list qinfo) (qord : Z -> Z -> option job -> option job -> bool) depth st j st',
    leaf_inv st -> push_job qs qord depth st j = Ok st' ->
    (st' = st /\ exists qi, lookup_q qs (j_queue j) = Some qi /\ qi_leaf qi = false)
    \/ (leaf_inv st'
        /\ (forall q', q' <> j_queue j -> leaf_items st' q' = leaf_items st q')
        /\ ((depth = -1 \/ Z.of_nat (length (leaf_items st (j_queue j))) < depth) ->
            Permutation (j :: leaf_items st (j_queue j)) (leaf_items st' (j_queue j)))
        /\ ((depth <> -1 /\ depth <= Z.of_nat (length (leaf_items st (j_queue j)))) ->
            exists y, Permutation (j :: leaf_items st (j_queue j)) (y :: leaf_items st' (j_queue j))
                      /\ forall z, In z (j :: leaf_items st (j_queue j)) -> job_less y z = false)).
Proof. exact push_job_contents_d. Qed.
Print Assumptions C16_push_job_any_depth.

(** (5) The property, decision level, for every MaxJobsQueueDepth (-1 = unlimited).
    For every queue hierarchy, queue order function, set of pending jobs (distinct
    UIDs) in any initial order, abstract capacity that only shrinks, and placement
    oracle that pushes back the job it was given (same queue, same UID; priority
    and elastic state may change): if [a] and [b] are pending jobs of one leaf
    queue for which "fits" is the same monotone predicate of the remaining
    capacity, and the chain orders [a] before [b], then a completed allocate action
    that places [b] places [a]. (A leaf queue that is full keeps [a] whenever it
    keeps [b]; a re-push refills the slot of the job just popped, so nothing is
    dropped after InitializeWithJobs.) *)
Theorem C16_finite_depth : C16_finite_depth_stmt.
Proof. exact C16_decision_proof. Qed.
Print Assumptions C16_finite_depth.

(** With unlimited depth the statement holds for any oracle (whatever it pushes
    back) and [b] need not be one of the pending jobs. *)
Theorem C16_unlimited_depth_any_repush : C16_decision_stmt_any_repush (-1).
Proof. exact C16_decision_any_repush_unlimited_proof. Qed.
Print Assumptions C16_unlimited_depth_any_repush.

(** With a finite depth the hypothesis on the oracle is needed (this is about the
    oracle, not about the code: allocate pushes back the very *PodGroupInfo it
    popped): depth 1, pending priority 2 and priority 3; the oracle answers the
    priority-3 job by pushing back a foreign priority-1 job, which is placed while
    the pending priority-2 job, dropped by the full queue, is not. *)
Theorem C16_finite_depth_needs_repush_of_popped_job :
  ~ C16_decision_stmt_any_repush 1.
Proof. exact any_repush_refuted_proof. Qed.
Print Assumptions C16_finite_depth_needs_repush_of_popped_job.

(** (6) Documentation of the defect repaired by commit 4521da5. [pq_push_v0] is
    PriorityQueue.Push as it was (heap.Remove(q, maxQueueSize)): with depth 2 and
    jobs of priority 3, 1, 2 pushed in this order it drops the priority-2 job and
    keeps the priority-1 job, which the chain orders after it; [pq_push] on the same
    pushes keeps the two best. *)
Theorem C16_finite_depth_v0_refuted :
  (l1 <- pq_push_v0 job_less 2 [] w_top ;; l2 <- pq_push_v0 job_less 2 l1 w_b ;; pq_push_v0 job_less 2 l2 w_a)
  = Ok [w_top; w_b]
  /\ job_less w_a w_b = true
  /\ pq_push_all job_less 2 [] [w_top; w_b; w_a] = Ok [w_top; w_a]
  /\ d_best job_less 2 [w_top; w_b; w_a] = [w_top; w_a].
Proof. exact pq_v0_drops_non_worst. Qed.
Print Assumptions C16_finite_depth_v0_refuted.

(** Non-vacuity: a two-level hierarchy with two leaf queues, three pending jobs, a
    capacity counter and an oracle that pushes every fresh job back once meet every
    hypothesis of (5); with capacity 9 everything is placed (unlimited depth) or
    everything the depth-1 queues kept; with capacity 1 only the first job of the
    comparator order is. *)
Theorem C16_nonvacuous :
  (forall c, Z.le c c)
  /\ (forall j c c' r, ex_attempt j c = Some (c', r) -> c' <= c)
  /\ (forall c c', c' <= c -> fits ex_attempt ex_a c' = true -> fits ex_attempt ex_a c = true)
  /\ (forall c, fits ex_attempt ex_a c = fits ex_attempt ex_b c)
  /\ repush_same_job ex_attempt
  /\ j_queue ex_a = j_queue ex_b /\ job_less ex_a ex_b = true
  /\ NoDup (map j_uid [ex_b; ex_c; ex_a])
  /\ queue_ok ex_qs (j_queue ex_a) = true
  /\ allocate ex_qs ex_qord (-1) ex_attempt 20 [ex_b; ex_c; ex_a] 9
     = Ok [(ex_a, true); (progressed ex_a, true); (ex_b, true); (progressed ex_b, true);
           (ex_c, true); (progressed ex_c, true)]
  /\ allocate ex_qs ex_qord (-1) ex_attempt 20 [ex_b; ex_c; ex_a] 1
     = Ok [(ex_a, true); (progressed ex_a, false); (ex_b, false); (ex_c, false)]
  /\ allocate ex_qs ex_qord 1 ex_attempt 20 [ex_b; ex_c; ex_a] 9
     = Ok [(ex_a, true); (progressed ex_a, true); (ex_c, true); (progressed ex_c, true)]
  /\ allocate ex_qs ex_qord 1 ex_attempt 20 [ex_b; ex_c; ex_a] 1
     = Ok [(ex_a, true); (progressed ex_a, false); (ex_c, false)].
Proof. exact nonvacuous_proof. Qed.
Print Assumptions C16_nonvacuous.

(** (7) The capacity gate does not read the priority. [job_over_queue_capacity] is
    Session.IsJobOverQueueCapacityFn (what common.AllocateJob asks) and
    [np_job_over_quota] is Session.IsNonPreemptibleJobOverQueueQuotaFn, with
    PodGroupInfo.IsPreemptibleJob as it is: their verdict is a function of the
    queue state, the job's queue, what its pods ask for and its preemptibility;
    two jobs that agree on these get the same verdict whatever their priority,
    age, UID or progress - in particular changing only the priority of a job
    changes no verdict. *)
Theorem C16_gate_independent_of_priority :
  gate_independent_of_priority job_over_queue_capacity /\ gate_independent_of_priority np_job_over_quota.
Proof. exact gate_independent_of_priority_proof. Qed.
Print Assumptions C16_gate_independent_of_priority.

Theorem C16_gate_ignores_priority :
  forall st j p, job_over_queue_capacity st (with_prio j p) = job_over_queue_capacity st j
                 /\ np_job_over_quota st (with_prio j p) = np_job_over_quota st j.
Proof. exact gate_ignores_priority_proof. Qed.
Print Assumptions C16_gate_ignores_priority.

(** More usage in the queues never turns a refusal into an admission (for any
    reading of the preemptibility), and accounting an allocation with
    non-negative requests only adds usage: during the allocate action the gate
    can only close. *)
Theorem C16_gate_antitone :
  forall ispre : job -> bool, gate_antitone (job_over_queue_capacity_with ispre).
Proof. exact gate_with_antitone. Qed.
Print Assumptions C16_gate_antitone.

Theorem C16_accounting_only_adds_usage :
  forall (ispre : job -> bool) st j st',
    Forall (fun r => 0 <= r) (j_req j) -> account ispre st j = Ok st' -> qstate_le st st'.
Proof. exact account_le_proof. Qed.
Print Assumptions C16_accounting_only_adds_usage.

(** (8) The property with the gate made explicit, for every MaxJobsQueueDepth: the
    attempt of the allocate loop is "ask the gate [G] on the queue usage of the
    moment, then try to place". For EVERY gate that does not read the priority
    and that only closes as usage grows, any hierarchy, queue order function,
    pending jobs with distinct UIDs, session state whose queue usage only grows
    while capacity shrinks, and placement oracle that is monotone, equal on the
    two jobs and pushes back the job it was given: of two identical workloads of
    one leaf queue (same queue, shape, request and preemptibility) the one the
    chain orders first (higher priority, then older) is placed whenever the other
    one is. *)
Theorem C16_decision_from_gate_independence :
  forall G : gate, gate_independent_of_priority G -> gate_antitone G -> C16_gated_stmt G.
Proof. exact gated_decision_proof. Qed.
Print Assumptions C16_decision_from_gate_independence.

(** ... hence for the modelled gate, without any hypothesis on it. *)
Theorem C16 : C16_gated_stmt job_over_queue_capacity.
Proof. exact gated_decision_capacity_gate_proof. Qed.
Print Assumptions C16.

(** (9) Non-vacuity of (8), and what happens when the gate reads the priority.
    One leaf queue with a quota of one GPU that a non-preemptible allocation has
    taken, one GPU free; [gw_a] (priority 125) and [gw_b] (priority 50) are
    identical one-GPU workloads whose pod groups say "preemptible"; the placement
    oracle [gw_place] (place when the GPUs are free, account the usage) meets every
    hypothesis of (8) for any reading of the preemptibility. With the modelled
    gate the loop places [gw_a] and not [gw_b]. [gate_below_build] is the same gate
    with IsPreemptibleJob replaced by "preemptible and priority < 100"
    ([is_preemptible_job_below_build]; not in the code): it still only closes as
    usage grows, but it reads the priority - it refuses [gw_a]
    (NonPreemptibleOverQuota) and admits [gw_b] on the same state - the loop places
    [gw_b] and leaves [gw_a] unplaced, so (8) fails for it. *)
Theorem C16_gate_reading_priority_refuted :
  (forall ispre,
      (forall c, gw_cle c c)
      /\ (forall c1 c2 c3, gw_cle c1 c2 -> gw_cle c2 c3 -> gw_cle c1 c3)
      /\ (forall j c c' r, gw_place ispre j c = Some (c', r) -> gw_cle c' c)
      /\ (forall c c', gw_cle c' c -> qstate_le (fst c) (fst c'))
      /\ (forall c c', gw_cle c' c -> fits (gw_place ispre) gw_a c' = true -> fits (gw_place ispre) gw_a c = true)
      /\ (forall c, fits (gw_place ispre) gw_a c = fits (gw_place ispre) gw_b c)
      /\ repush_same_job (gw_place ispre))
  /\ same_workload gw_a gw_b /\ job_less gw_a gw_b = true
  /\ NoDup (map j_uid [gw_b; gw_a]) /\ queue_ok w_qs (j_queue gw_a) = true
  /\ allocate w_qs w_qord (-1) (gated_attempt job_over_queue_capacity fst (gw_place is_preemptible_job)) 10
              [gw_b; gw_a] (gw_st, 1000)
     = Ok [(gw_a, true); (gw_b, false)]
  /\ allocate w_qs w_qord (-1) (gated_attempt gate_below_build fst (gw_place is_preemptible_job_below_build)) 10
              [gw_b; gw_a] (gw_st, 1000)
     = Ok [(gw_a, false); (gw_b, true)]
  /\ gate_antitone gate_below_build
  /\ ~ gate_independent_of_priority gate_below_build
  /\ ~ C16_gated_stmt gate_below_build.
Proof. exact gated_nonvacuous_and_refuted. Qed.
Print Assumptions C16_gate_reading_priority_refuted.

(** the verdicts on the witness state *)
Theorem C16_gate_reading_priority_witness :
  gate_below_build gw_st gw_a = Ok NonPreemptibleOverQuota
  /\ gate_below_build gw_st gw_b = Ok Schedulable
  /\ job_over_queue_capacity gw_st gw_a = Ok Schedulable
  /\ job_over_queue_capacity gw_st gw_b = Ok Schedulable
  /\ calculate_preemptibility PPreemptible 125 = PPreemptible
  /\ calculate_preemptibility PUnset 125 = PNonPreemptible
  /\ calculate_preemptibility PUnset 99 = PPreemptible.
Proof. exact gate_witness_proof. Qed.
Print Assumptions C16_gate_reading_priority_witness.

(** (10) Which jobs a cycle collects. [jobs] is everything the status filters of
    InitializeWithJobs let through (ready pod groups with a pending pod), in the
    order of Go's map iteration - any list. A job is [eligible] when its queue
    exists, the queue's parent exists (or it is top level) and the queue is a leaf;
    any other job is a "ghost" (deleted or misspelt queue, orphaned queue, non-leaf
    queue). Ghosts are skipped one by one: the collection of [jobs] is, step by
    step, the collection of the ghost-free list, from any state. *)
Theorem C16_ghosts_are_skipped_individually :
  forall (qs : list qinfo) (qord : Z -> Z -> option job -> option job -> bool) depth jobs st,
    initialize qs qord depth st jobs = initialize qs qord depth st (ghost_free qs jobs).
Proof. exact initialize_ghost_free. Qed.
Print Assumptions C16_ghosts_are_skipped_individually.

(** Hence ghosts never disturb the cycle: for every hierarchy, queue order
    function, depth, placement oracle, capacity and fuel, the whole allocate action
    on [jobs] - every pop, every attempt, every decision, in this order - is the
    action on the ghost-free input; two inputs with the same eligible jobs in the
    same relative order run identically, whatever ghosts stand where; one ghost
    more or less, anywhere, changes nothing. *)
Theorem C16_ghosts_never_disturb_the_cycle :
  forall (qs : list qinfo) (qord : Z -> Z -> option job -> option job -> bool) depth
         (C : Type) (attempt : job -> C -> option (C * option job)) fuel (c : C),
    (forall jobs, allocate qs qord depth attempt fuel jobs c
                  = allocate qs qord depth attempt fuel (ghost_free qs jobs) c)
    /\ (forall l1 l2, ghost_free qs l1 = ghost_free qs l2 ->
                      allocate qs qord depth attempt fuel l1 c = allocate qs qord depth attempt fuel l2 c)
    /\ (forall l1 g l2, eligible qs g = false ->
                        allocate qs qord depth attempt fuel (l1 ++ g :: l2) c
                        = allocate qs qord depth attempt fuel (l1 ++ l2) c).
Proof. exact ghosts_never_disturb_proof. Qed.
Print Assumptions C16_ghosts_never_disturb_the_cycle.

(** (11) Collected set = eligible set, for every MaxJobsQueueDepth, every list of
    jobs with distinct UIDs in any order with any number of ghosts: after the
    collection, leaf queue [q] holds (as a heap) exactly the [depth] best of the
    eligible jobs of [q] - all of them when the depth is unlimited - and nothing
    else: no ghost, no job of another queue. *)
Theorem C16_collected_set_is_the_eligible_set :
  forall (qs : list qinfo) (qord : Z -> Z -> option job -> option job -> bool) depth,
    -1 <= depth ->
    forall jobs st, NoDup (map j_uid jobs) ->
      initialize qs qord depth jo_empty jobs = Ok st ->
      forall q, heap_ok job_less (leaf_items st q)
                /\ Permutation (leaf_items st q) (d_best job_less depth (eligible_of qs q jobs)).
Proof. exact collected_is_eligible. Qed.
Print Assumptions C16_collected_set_is_the_eligible_set.

Theorem C16_collected_iff_eligible_unlimited_depth :
  forall (qs : list qinfo) (qord : Z -> Z -> option job -> option job -> bool) jobs st,
    NoDup (map j_uid jobs) ->
    initialize qs qord (-1) jo_empty jobs = Ok st ->
    forall j q, In j (leaf_items st q) <-> (In j jobs /\ eligible qs j = true /\ j_queue j = q).
Proof. exact collected_iff_eligible_unlimited. Qed.
Print Assumptions C16_collected_iff_eligible_unlimited_depth.

(** Permutation invariance: for any two iteration orders of the same jobs (ghosts
    included), every leaf queue ends up holding the same jobs, and the sorted list
    it will hand out (priority, then FIFO: C16_pop_order_within_leaf) is the same
    list. Which jobs are collected does not depend on the order in which Go's map
    yields them, nor on any other job. *)
Theorem C16_collected_set_independent_of_iteration_order :
  forall (qs : list qinfo) (qord : Z -> Z -> option job -> option job -> bool) depth,
    -1 <= depth ->
    forall jobs jobs' st st', NoDup (map j_uid jobs) -> Permutation jobs jobs' ->
      initialize qs qord depth jo_empty jobs = Ok st ->
      initialize qs qord depth jo_empty jobs' = Ok st' ->
      forall q, Permutation (leaf_items st q) (leaf_items st' q)
                /\ d_best job_less depth (eligible_of qs q jobs) = d_best job_less depth (eligible_of qs q jobs').
Proof. exact collected_order_independent. Qed.
Print Assumptions C16_collected_set_independent_of_iteration_order.

(** The collection the monitor holds the real pops against (Run/C16.v
    [collect_ideal], evaluated on the jobs of every real allocate run: each real pop
    must hand out the head of one of these lists, and all of them must be drained at
    the end) is the right-hand side of (11): per leaf queue the [depth] best
    eligible jobs of that queue. *)
Theorem C16_monitor_collection_is_the_specified_one :
  forall (qs : list qinfo) depth jobs q,
    Run.C16.leaf_get (Run.C16.collect_ideal qs depth jobs) q = d_best job_less depth (eligible_of qs q jobs).
Proof. exact collect_ideal_is_d_best. Qed.
Print Assumptions C16_monitor_collection_is_the_specified_one.

(** (12) What happens when the collection stops at the first ghost
    ([initialize_stop_at_missing_queue]: the "queue does not exist" guard ends the
    loop instead of skipping the one job; NOT the code, it is the shape of seeded
    change C16-4). World: a node with one GPU, one department with leaf queue 2
    holding [g_low] (priority 50) and [g_high] (priority 60), resp. [g_young] and
    [g_old] at equal priority, identical otherwise; [g_ghost] names queue 9, which
    does not exist; the oracle gives the GPU to the first job attempted. The code,
    in all six iteration orders, attempts [g_high] (resp. [g_old]) first and places
    it. Stopping at the first ghost, on the order [low; ghost; high]: queue 2 holds
    [g_low] only, [g_low] is placed and the eligible, comparable, higher-priority
    [g_high] is never attempted (same for [young; ghost; old]); and (10) fails. *)
Theorem C16_stop_at_first_ghost_refuted :
  eligible g_qs g_low = true /\ eligible g_qs g_high = true /\ eligible g_qs g_ghost = false
  /\ j_queue g_low = j_queue g_high /\ j_shape g_low = j_shape g_high
  /\ job_less g_high g_low = true /\ job_less g_old g_young = true
  /\ forallb (fun l => match allocate g_qs g_qord (-1) g_attempt 10 l 1 with
                       | Ok [(a, true); (b, false)] => (j_uid a =? 2) && (j_uid b =? 1)
                       | _ => false
                       end) (all_orders3 g_low g_ghost g_high) = true
  /\ forallb (fun l => match allocate g_qs g_qord (-1) g_attempt 10 l 1 with
                       | Ok [(a, true); (b, false)] => (j_uid a =? 4) && (j_uid b =? 5)
                       | _ => false
                       end) (all_orders3 g_young g_ghost g_old) = true
  /\ (exists st, initialize_stop_at_missing_queue g_qs g_qord (-1) jo_empty [g_low; g_ghost; g_high] = Ok st
                 /\ leaf_items st 2 = [g_low])
  /\ allocate_stop_at_missing_queue g_qs g_qord (-1) g_attempt 10 [g_low; g_ghost; g_high] 1 = Ok [(g_low, true)]
  /\ allocate_stop_at_missing_queue g_qs g_qord (-1) g_attempt 10 [g_young; g_ghost; g_old] 1 = Ok [(g_young, true)]
  /\ initialize_stop_at_missing_queue g_qs g_qord (-1) jo_empty [g_low; g_ghost; g_high]
     <> initialize_stop_at_missing_queue g_qs g_qord (-1) jo_empty (ghost_free g_qs [g_low; g_ghost; g_high]).
Proof. exact stop_at_first_ghost_refuted_proof. Qed.
Print Assumptions C16_stop_at_first_ghost_refuted.

(** (13) Last-start stamps. [j_last_start] is PodGroupInfo.LastStartTimestamp, which
    SetPodGroup restores in every snapshot from the annotation
    kai.scheduler/last-start-timestamp - also for a workload that was started once,
    lost all its pods and is pending again. Session.JobOrderFn compares priority,
    elastic state, CreationTimestamp and UID: for ALL pairs of jobs the order is the
    same whatever the two stamps are changed to ([set_last_start] changes nothing
    else). *)
Theorem C16_order_ignores_last_start :
  forall a b x y, job_less (set_last_start a x) (set_last_start b y) = job_less a b.
Proof. exact job_less_ignores_last_start. Qed.
Print Assumptions C16_order_ignores_last_start.

Theorem C16_set_last_start_changes_nothing_else :
  forall j x,
    j_uid (set_last_start j x) = j_uid j /\ j_queue (set_last_start j x) = j_queue j
    /\ j_prio (set_last_start j x) = j_prio j /\ j_subgroups (set_last_start j x) = j_subgroups j
    /\ j_ctime (set_last_start j x) = j_ctime j /\ j_shape (set_last_start j x) = j_shape j
    /\ j_pre (set_last_start j x) = j_pre j /\ j_req (set_last_start j x) = j_req j
    /\ j_last_start (set_last_start j x) = x.
Proof. exact set_last_start_only_sets_last_start. Qed.
Print Assumptions C16_set_last_start_changes_nothing_else.

(** Extensionality of everything that only compares: for ANY element type, order
    [less] and relabelling [g] under which [less] is invariant, the declarative
    collection ([d_best]: what a leaf keeps, sorted) and the modelled PriorityQueue
    (container/heap up/down, bounded Push with indexOfLast + Remove, Pop, Fix) do
    on relabelled elements exactly what they do on the elements. *)
Theorem C16_comparison_extensionality :
  forall (A : Type) (less : A -> A -> bool) (g : A -> A),
    (forall a b, less (g a) (g b) = less a b) ->
    (forall d xs, d_best less d (map g xs) = map g (d_best less d xs))
    /\ (forall d l x, pq_push less d (map g l) (g x) = res_map (map g) (pq_push less d l x))
    /\ (forall l, pq_pop less (map g l) = res_map (fun r => (option_map g (fst r), map g (snd r))) (pq_pop less l))
    /\ (forall l i, pq_fix less (map g l) i = res_map (map g) (pq_fix less l i))
    /\ (forall d xs l, pq_push_all less d (map g l) (map g xs) = res_map (map g) (pq_push_all less d l xs)).
Proof.
  exact (fun A less g H => conj (d_best_map less g H) (conj (pq_push_map less g H) (conj (pq_pop_map less g H)
           (conj (pq_fix_map less g H) (pq_push_all_map less g H))))).
Qed.
Print Assumptions C16_comparison_extensionality.

(** Hence the pop sequence of a cycle does not depend on the stamps. [restamp f]
    gives every job the stamp [f] chooses for it (any function of the job). For
    every hierarchy, depth and job list (ghosts included): the list leaf queue [q]
    is specified to hold and to hand out, in order - which by (4), (10) and (11) is
    what the modelled InitializeWithJobs collects and PopNextJob pops, job by job,
    for any queue order function - is, on the re-stamped jobs, the re-stamped
    list: the same workloads (UIDs) in the same order; the same holds for the
    collection the monitor holds the real pops against. *)
Theorem C16_collection_ignores_last_start :
  forall (qs : list qinfo) depth q (f : job -> option Z) jobs,
    d_best job_less depth (eligible_of qs q (map (restamp f) jobs))
    = map (restamp f) (d_best job_less depth (eligible_of qs q jobs)).
Proof. exact collection_ignores_last_start. Qed.
Print Assumptions C16_collection_ignores_last_start.

Theorem C16_pop_sequence_ignores_last_start :
  forall (qs : list qinfo) depth (f : job -> option Z) jobs,
    (forall q, map j_uid (d_best job_less depth (eligible_of qs q (map (restamp f) jobs)))
               = map j_uid (d_best job_less depth (eligible_of qs q jobs)))
    /\ (forall q, map j_uid (Run.C16.leaf_get (Run.C16.collect_ideal qs depth (map (restamp f) jobs)) q)
                  = map j_uid (Run.C16.leaf_get (Run.C16.collect_ideal qs depth jobs) q)).
Proof. exact pop_sequence_ignores_last_start. Qed.
Print Assumptions C16_pop_sequence_ignores_last_start.

(** ... and the modelled leaf heap itself (every Push incl. the bounded one, Pop,
    Fix, and a whole collection of pushes) runs on re-stamped jobs as on the jobs. *)
Theorem C16_leaf_heap_ignores_last_start :
  forall f : job -> option Z,
    (forall d l x, pq_push job_less d (map (restamp f) l) (restamp f x) = res_map (map (restamp f)) (pq_push job_less d l x))
    /\ (forall l, pq_pop job_less (map (restamp f) l)
                  = res_map (fun r => (option_map (restamp f) (fst r), map (restamp f) (snd r))) (pq_pop job_less l))
    /\ (forall l i, pq_fix job_less (map (restamp f) l) i = res_map (map (restamp f)) (pq_fix job_less l i))
    /\ (forall d xs, pq_push_all job_less d [] (map (restamp f) xs) = res_map (map (restamp f)) (pq_push_all job_less d [] xs)).
Proof. exact leaf_heap_ignores_last_start. Qed.
Print Assumptions C16_leaf_heap_ignores_last_start.

(** (14) What happens when the FIFO clause reads "in line since"
    ([job_less_in_line_since]: the last start, for a job that was started after its
    creation and holds no active allocated pod; NOT the code, it is the shape of
    seeded change C16-5). README pair: [r_older] created at 0, started at 1800,
    pending again; [r_younger] created at 900, never started; same leaf queue,
    shape, priority, elastic state. The code orders the older one first and a leaf
    hands it out first; the variant orders the younger one first, a leaf of depth 1
    keeps only the younger one, and the variant is not invariant under re-stamping
    ((13) fails for it); on jobs that never started the two orders coincide - which
    is why a cluster in which workloads are only submitted and started never shows
    the difference. *)
Theorem C16_in_line_since_refuted :
  j_queue r_older = j_queue r_younger /\ j_shape r_older = j_shape r_younger /\ j_prio r_older = j_prio r_younger
  /\ min_available_state r_older = min_available_state r_younger /\ j_ctime r_older < j_ctime r_younger
  /\ job_less r_older r_younger = true /\ job_less r_younger r_older = false
  /\ d_best job_less (-1) [r_younger; r_older] = [r_older; r_younger]
  /\ pq_push_all job_less (-1) [] [r_younger; r_older] = Ok [r_older; r_younger]
  /\ job_less_in_line_since r_older r_younger = false /\ job_less_in_line_since r_younger r_older = true
  /\ d_best job_less_in_line_since (-1) [r_younger; r_older] = [r_younger; r_older]
  /\ pq_push_all job_less_in_line_since 1 [] [r_younger; r_older] = Ok [r_younger]
  /\ job_less_in_line_since (set_last_start r_older None) (set_last_start r_younger None) = true
  /\ (exists a b x y, job_less_in_line_since (set_last_start a x) (set_last_start b y) <> job_less_in_line_since a b)
  /\ (forall a b, j_last_start a = None -> j_last_start b = None -> job_less_in_line_since a b = job_less a b).
Proof. exact in_line_since_refuted_proof. Qed.
Print Assumptions C16_in_line_since_refuted.
