(** C02 — Shared (fractional) GPU devices are never oversubscribed.
    Statements only; proofs in Proofs/GroupsFit.v and Proofs/Node.v.
    Proved over the node model: the per-device memory clause, for all histories.
    Partial: the device-count clause (whole + shared devices in use never exceed
    the node's GPU count) is evaluated by the cycle monitor c02_ok on the real
    decisions and by the C14 ground-truth monitor on the real NodeInfo, but is
    not a theorem: the code's whole-device bookkeeping is history dependent in
    the presence of nominated pods (known finding C14-device-guard, refuted by
    C14_device_guard_refuted). *)
From Coq Require Import List ZArith PArith Bool.
From KaiV Require Import Model.Res Model.Status Model.AMap Model.Node Model.NodeSpec Model.GpuSharing Proofs.Node Proofs.GroupsFit Proofs.GpuSharing.
Import ListNotations.
Open Scope Z_scope.

(** A placement that passed the per-group guard (distinct groups, each with room
    for the portion: EnoughIdleResourcesOnGpu on a group in use, an empty device
    otherwise) keeps every device within its memory. *)
Theorem C02_fit_preserved_by_placement :
  forall (n : node) (t : task) (n' : node),
    GroupsFit n -> 0 <= t_gmem t -> group_guard n t = true -> add_task n t = Ok n' -> GroupsFit n'.
Proof. exact fit_add. Qed.
Print Assumptions C02_fit_preserved_by_placement.

(** Removing a pod (un-allocate, un-pipeline, deletion) never breaks it. *)
Theorem C02_fit_preserved_by_removal :
  forall (n : node) (id : positive) (n' : node),
    GroupsFit n -> (forall t0, alookup id (n_pods n) = Some t0 -> 0 <= t_gmem t0) ->
    remove_task n id = Ok n' -> GroupsFit n'.
Proof. exact fit_remove. Qed.
Print Assumptions C02_fit_preserved_by_removal.

(** With the books invariant (C14_node_books) the guarded quantity IS the memory
    recomputed from the pods: on every device the sharers that occupy it —
    running, bound, being bound and terminating ones, everything but nominated
    sharers — never add up to more than the device. *)
Theorem C02_occupying_sharers_fit :
  forall n : node, Books n -> GroupsFit n -> forall g, spec_galloc g (tasks_of n) <= n_gpumem n.
Proof. exact occupying_sharers_fit. Qed.
Print Assumptions C02_occupying_sharers_fit.

(** Decision level: for ANY order of the candidate devices (the GPU order plugins
    are an oracle), pipeline-only or not, when the choice of GPU groups for a
    fractional / multi-fraction / GPU-memory task does not ask to wait, every
    chosen group that is in use has idle room for the portion and no more fresh
    devices are taken than are idle right now. *)
Theorem C02_choice_is_safe :
  forall (n : node) (t : task) (pipeline_only : bool) (cands : list (option positive))
         (fresh gs : list positive),
    (forall f, In f fresh -> used_now n f = false) ->
    (forall g, In (Some g) cands -> used_now n g = true) ->
    prefer n t pipeline_only cands fresh = Some (gs, false) ->
    decision_safe n t gs = true.
Proof. exact prefer_safe. Qed.
Print Assumptions C02_choice_is_safe.

(** Non-vacuity: two sharers fill a device; a third one is refused by the guard. *)
Definition e_node : node :=
  mkNode (mkRes 4000 8000 1 10 0 0) (mkRes 4000 8000 1 10 0 0) rzero rzero 1 100 [] [] [] [] [].
Definition e_sh (id : positive) (st : status) (m : Z) : task :=
  mkTask id id st KFraction (mkRes 100 100 0 1 0 0) 1 m [1%positive] false false.
Theorem C02_nonvacuous :
  exists n1 n2,
    add_task e_node (e_sh 1 Running 50) = Ok n1 /\ group_guard n1 (e_sh 2 Allocated 50) = true
    /\ add_task n1 (e_sh 2 Allocated 50) = Ok n2 /\ group_guard n2 (e_sh 3 Allocated 25) = false
    /\ zget 1 (g_alloc n2) = 100.
Proof. eexists. eexists. repeat split; vm_compute; reflexivity. Qed.
Print Assumptions C02_nonvacuous.
