(** C02 — Shared (fractional) GPU devices are never oversubscribed.
    Statements only; proofs in Proofs/GroupsFit.v and Proofs/Node.v.
    Proved over the node model: the per-device memory clause, for all histories;
    the device-count clause (whole + shared devices in use never exceed the
    node's GPU count) for all histories of guarded binds, evictions, status
    updates, removals and nominations that hold no GPU (C02_devices_within_count,
    Proofs/NodeFull.v).
    Partial: with a nominated (Pipelined) pod holding GPUs on the node the
    device-count clause is not a theorem: the code's whole-device bookkeeping is
    history dependent there (known finding C14-device-guard, refuted by
    C14_device_guard_refuted) and the guards alone do not keep the devices
    within the count (C02_devices_needs_no_nominated).  On such nodes the clause
    is evaluated by the cycle monitor c02_ok on the real decisions and by the
    C14 ground-truth monitor on the real NodeInfo.
    What-if statements (last section): the scenario solvers try placements in
    statements that are rolled back or discarded when the scenario fails; such
    a what-if - including the move of an evicted shared pod to another GPU group
    of its own node - leaves the per-device books of every node as they were, so
    the guards of later binds in the session see the true devices
    (C02_discarded_whatif_keeps_device_books, C02_rolled_back_whatif_keeps_device_books,
    from C13's statement model); the variant whose undo record of such a move
    restores the NEW group gives out a third device on a 2-GPU node
    (C02_undo_restoring_new_group_refuted, the world of seeded/C02-4). *)
From Coq Require Import List ZArith PArith Bool.
From KaiV Require Import Model.Res Model.Status Model.AMap Model.Node Model.NodeSpec Model.GpuSharing Proofs.Node Proofs.GroupsFit Proofs.GpuSharing.
From KaiV Require Import Proofs.NodeFull.
From KaiV Require Run.Cycle.
From KaiV Require Model.Session Model.SessionMove Proofs.Session Proofs.SessionMove.
Import ListNotations.
Open Scope Z_scope.

(** A placement that passed the per-group guard (distinct groups, each with room
    for the portion: EnoughIdleResourcesOnGpu on a group in use, an empty device
    otherwise) keeps every device within its memory. *)
Theorem C02_fit_preserved_by_placement :
  forall (n : node) (t : task) (n' : node),
    GroupsFit n -> 0 <= t_gmem t -> group_guard n t = true -> add_task n t = Ok n' -> GroupsFit n'.
Proof. exact fit_add. Qed.
Print Assumptions C02_fit_preserved_by_placement.

(** Removing a pod (un-allocate, un-pipeline, deletion) never breaks it. *)
Theorem C02_fit_preserved_by_removal :
  forall (n : node) (id : positive) (n' : node),
    GroupsFit n -> (forall t0, alookup id (n_pods n) = Some t0 -> 0 <= t_gmem t0) ->
    remove_task n id = Ok n' -> GroupsFit n'.
Proof. exact fit_remove. Qed.
Print Assumptions C02_fit_preserved_by_removal.

(** With the books invariant (C14_node_books) the guarded quantity IS the memory
    recomputed from the pods: on every device the sharers that occupy it —
    running, bound, being bound and terminating ones, everything but nominated
    sharers — never add up to more than the device. *)
Theorem C02_occupying_sharers_fit :
  forall n : node, Books n -> GroupsFit n -> forall g, spec_galloc g (tasks_of n) <= n_gpumem n.
Proof. exact occupying_sharers_fit. Qed.
Print Assumptions C02_occupying_sharers_fit.

(** Decision level: for ANY order of the candidate devices (the GPU order plugins
    are an oracle), pipeline-only or not, when the choice of GPU groups for a
    fractional / multi-fraction / GPU-memory task does not ask to wait, every
    chosen group that is in use has idle room for the portion and no more fresh
    devices are taken than are idle right now. *)
Theorem C02_choice_is_safe :
  forall (n : node) (t : task) (pipeline_only : bool) (cands : list (option positive))
         (fresh gs : list positive),
    (forall f, In f fresh -> used_now n f = false) ->
    (forall g, In (Some g) cands -> used_now n g = true) ->
    prefer n t pipeline_only cands fresh = Some (gs, false) ->
    decision_safe n t gs = true.
Proof. exact prefer_safe. Qed.
Print Assumptions C02_choice_is_safe.

(** Non-vacuity: two sharers fill a device; a third one is refused by the guard. *)
Definition e_node : node :=
  mkNode (mkRes 4000 8000 1 10 0 0) (mkRes 4000 8000 1 10 0 0) rzero rzero 1 100 [] [] [] [] [].
Definition e_sh (id : positive) (st : status) (m : Z) : task :=
  mkTask id id st KFraction (mkRes 100 100 0 1 0 0) 1 m [1%positive] false false.
Theorem C02_nonvacuous :
  exists n1 n2,
    add_task e_node (e_sh 1 Running 50) = Ok n1 /\ group_guard n1 (e_sh 2 Allocated 50) = true
    /\ add_task n1 (e_sh 2 Allocated 50) = Ok n2 /\ group_guard n2 (e_sh 3 Allocated 25) = false
    /\ zget 1 (g_alloc n2) = 100.
Proof. eexists. eexists. repeat split; vm_compute; reflexivity. Qed.
Print Assumptions C02_nonvacuous.

(** ** The device-count clause (Proofs/NodeFull.v)

    [devices_in_use ts]: whole GPUs charged to the pods occupying the node
    (everything not merely nominated) plus [occupied_groups ts], the shared
    devices holding allocated memory.  [FullBooks] is spelled out in
    C14_full_books_meaning.  On a node whose books are full and whose idle
    whole-GPU count is not negative the devices in use are within the count. *)
Theorem C02_devices_within_count_state : forall n : node,
  FullBooks n -> 0 <= gpu (n_idle n) ->
  devices_in_use (tasks_of n) <= gpu (n_alloc n) /\ gpu (n_alloc n) = n_ngpu n.
Proof. exact devices_within_count_state. Qed.
Print Assumptions C02_devices_within_count_state.

(** A Bind admitted by the replay guard [bind_guard] (Run/Cycle.v) on such a
    node, free of nominated GPU holders, leads to such a node again. *)
Theorem C02_guarded_bind_keeps_count : forall (n : node) (t : task) (n' : node),
  FullBooks n -> forallb task_wf (tasks_of n) = true -> no_nominated_gpu (tasks_of n) = true ->
  0 <= gpu (n_idle n) -> bind_wf t = true -> is_st Pipelined t = false ->
  Run.Cycle.bind_guard n t (t_groups t) = true -> add_task n t = Ok n' ->
  FullBooks n' /\ no_nominated_gpu (tasks_of n') = true /\ 0 <= gpu (n_idle n')
  /\ devices_in_use (tasks_of n') <= gpu (n_alloc n').
Proof. exact guarded_bind_keeps_idle. Qed.
Print Assumptions C02_guarded_bind_keeps_count.

(** The clause as a theorem: along every history in which each placement passes
    [bind_guard], each nomination holds no GPU, each update keeps the pod's
    devices (eviction, un-eviction, status progress) — [guarded_run]: the guard
    [op_guard] evaluated in every state of the run; removals are free — the
    whole and shared devices in use never exceed the node's GPU count. *)
Theorem C02_devices_within_count : forall (n0 : node) (ops : list nop),
  FullBooks n0 -> forallb task_wf (tasks_of n0) = true -> no_nominated_gpu (tasks_of n0) = true ->
  0 <= gpu (n_idle n0) -> forallb bind_wf (op_tasks ops) = true -> guarded_run n0 ops = true ->
  let n := run n0 ops in
  FullBooks n /\ no_nominated_gpu (tasks_of n) = true /\ 0 <= gpu (n_idle n)
  /\ devices_in_use (tasks_of n) <= gpu (n_alloc n).
Proof. exact guarded_devices_within_count. Qed.
Print Assumptions C02_devices_within_count.

(** what the guard of a history asks of each operation *)
Theorem C02_op_guard_meaning : forall (n : node) (o : nop),
  op_guard n o =
  match o with
  | OAdd t => if is_st Pipelined t then negb (holds_gpu t) else Run.Cycle.bind_guard n t (t_groups t)
  | ORemove _ => true
  | OUpdate t =>
      negb (is_st Pipelined t && holds_gpu t)
      && match alookup (t_id t) (n_pods n) with
         | Some t0 => Bool.eqb (is_shared t0) (is_shared t) && (gpu (charge t0) =? gpu (charge t))
                      && (t_gmem t0 =? t_gmem t) && Run.NodeObs.list_eqb Pos.eqb (t_groups t0) (t_groups t)
         | None => true
         end
  end.
Proof. exact op_guard_unfold. Qed.
Print Assumptions C02_op_guard_meaning.

(** The GPU column of C01 on such nodes: the whole GPUs of the occupying pods
    (terminating ones included) never exceed the allocatable GPUs. *)
Theorem C02_occupying_gpus_within_allocatable : forall n : node,
  FullBooks n -> 0 <= gpu (n_idle n) ->
  gpu (rsum (map charge (filter (fun t => negb (is_st Pipelined t)) (tasks_of n)))) <= gpu (n_alloc n).
Proof. exact occupying_gpus_within_allocatable. Qed.
Print Assumptions C02_occupying_gpus_within_allocatable.

(** Non-vacuity: [nv_node] (two shared devices, a whole-GPU pod, a terminating
    sharer) meets every hypothesis; the guarded history [fv_ops] fills the
    node (4 devices in use of 4) and a further sharer on a fresh device is
    refused by the guard. *)
Theorem C02_devices_nonvacuous :
  FullBooks nv_node
  /\ forallb task_wf (tasks_of nv_node) = true /\ forallb bind_wf (op_tasks fv_ops) = true
  /\ no_nominated_gpu (tasks_of nv_node) = true /\ 0 <= gpu (n_idle nv_node)
  /\ nn_run nv_node fv_ops = true /\ guarded_run nv_node fv_ops = true
  /\ occupied_groups (tasks_of nv_node) = 2 /\ releasing_groups (tasks_of nv_node) = 1
  /\ devices_in_use (tasks_of nv_node) = 3
  /\ map t_id (tasks_of (run nv_node fv_ops)) = [2; 3; 5; 6; 8; 9]%positive
  /\ gpu (n_idle (run nv_node fv_ops)) = 0
  /\ devices_in_use (tasks_of (run nv_node fv_ops)) = 4
  /\ Run.Cycle.bind_guard (run nv_node (firstn 2 fv_ops)) (x_sh 7 Allocated 40 [4%positive]) [4%positive] = false.
Proof. exact full_books_nonvacuous. Qed.
Print Assumptions C02_devices_nonvacuous.

(** Where the clause is false in the model: with a nominated sharer holding a
    device.  [guarded_run_lax] = [guarded_run] without "a nomination holds no
    GPU".  1-GPU node: a sharer is allocated on fresh device 1 and turned into
    a nomination (the device counts as idle again; its key stays in the
    allocated-memory map with value 0); a second sharer is bound into device 1
    (EnoughIdleResourcesOnGpu and IsTaskAllocatable hold; the bookkeeping's
    first-user test does not fire, no idle GPU is taken); a whole-GPU pod is
    bound onto the GPU that still counts as idle: 2 devices in use, 1 GPU.
    Not a defect of the scheduler as it runs: replayed on the Go code, NodeInfo
    and GetNodePreferableGpuForSharing behave exactly so, but the allocate
    action also filters nodes by IsTaskAllocatableOnReleasingOrIdle; the
    nominated device stands as releasing = -1, idle + releasing = 0, and the
    last bind is refused.  [bind_guard] alone does not include that filter. *)
Theorem C02_devices_needs_no_nominated :
  FullBooks ov_node /\ forallb bind_wf (op_tasks ov_ops) = true /\ 0 <= gpu (n_idle ov_node)
  /\ guarded_run_lax ov_node ov_ops = true /\ guarded_run ov_node ov_ops = false
  /\ (let n := run ov_node (firstn 2 ov_ops) in
      enough_idle_on_gpu n 50 1 = true /\ is_task_allocatable n (x_sh 3 Allocated 50 [1%positive]) = true)
  /\ is_task_allocatable (run ov_node (firstn 3 ov_ops)) (x_wh 5 Allocated 1) = true
  /\ is_task_allocatable_on_releasing_or_idle (run ov_node (firstn 3 ov_ops)) (x_wh 5 Allocated 1) = false
  /\ gpu (n_rel (run ov_node (firstn 3 ov_ops))) = -1
  /\ gpu (n_idle (run ov_node ov_ops)) = 0
  /\ gpu (n_alloc (run ov_node ov_ops)) = 1
  /\ devices_in_use (tasks_of (run ov_node ov_ops)) = 2.
Proof. exact devices_within_count_needs_no_nominated. Qed.
Print Assumptions C02_devices_needs_no_nominated.

(** The same at the level the cycle check evaluates ([Run.Cycle.replay]: the
    Cache calls of a real cycle applied to the model nodes).  [NodeOK n]:
    [FullBooks n], well-formed tasks, no nominated GPU holder, idle GPUs >= 0.
    If every call of the cycle is admissible (replay returns [true]: every Bind
    passed [bind_guard]) and no nomination of the cycle holds a GPU
    ([nominations_hold_nothing]: evaluated along the replay), every node ends
    [NodeOK] and its devices in use are within its GPU count. *)
Theorem C02_cycle_devices_within_count :
  forall (ts : list Run.Cycle.tinfo) (cs : list Run.Cycle.call) (ns ns' : amap node),
    TasksBW ts -> NodesOK ns -> nominations_hold_nothing ts ns cs = true ->
    Run.Cycle.replay ts ns cs = Some (ns', true) ->
    NodesOK ns'
    /\ forall nid n, alookup nid ns' = Some n -> devices_in_use (tasks_of n) <= gpu (n_alloc n).
Proof. exact cycle_devices_within_count. Qed.
Print Assumptions C02_cycle_devices_within_count.

Theorem C02_cycle_hypotheses_meaning :
  (forall n, NodeOK n <->
     (FullBooks n /\ Forall (fun t => task_wf t = true) (tasks_of n)
      /\ Forall (fun t => (is_st Pipelined t && holds_gpu t) = false) (tasks_of n) /\ 0 <= gpu (n_idle n)))
  /\ (forall ns, NodesOK ns <-> Forall (fun kn => NodeOK (snd kn)) ns)
  /\ (forall ts, TasksBW ts <-> Forall (fun ti => bind_wf (Run.Cycle.ti_task ti) = true) ts).
Proof. exact cycle_hypotheses_unfold. Qed.
Print Assumptions C02_cycle_hypotheses_meaning.

(** Non-vacuity of the cycle statement: a cycle on [nv_node] that binds a
    sharer into device 1, evicts the whole-GPU pod, binds a whole-GPU pod onto
    the last idle GPU and nominates a CPU-only pod. *)
Theorem C02_cycle_devices_nonvacuous :
  TasksBW cy_tasks /\ NodesOK cy_nodes /\ nominations_hold_nothing cy_tasks cy_nodes cy_calls = true
  /\ exists ns', Run.Cycle.replay cy_tasks cy_nodes cy_calls = Some (ns', true)
       /\ exists n, alookup 1%positive ns' = Some n
            /\ map t_id (tasks_of n) = [2; 3; 4; 5; 8; 9]%positive
            /\ gpu (n_idle n) = 0 /\ devices_in_use (tasks_of n) = 4 /\ gpu (n_alloc n) = 4.
Proof. exact cycle_devices_nonvacuous. Qed.
Print Assumptions C02_cycle_devices_nonvacuous.

(** ** What-if statements of the scenario solvers (Proofs/SessionMove.v)

    Consolidation, reclaim and preempt try their scenarios in a Statement:
    victims are evicted, re-placed (possibly on another GPU group of the node
    they sit on: Statement.Pipeline's isSharedAndMoveToDifferentGPU branch), the
    pending job is nominated; when the scenario fails the statement is rolled
    back / discarded and the session goes on to the next job.  The statement
    model is C13's (Model/Session.v, tied to the real Statement by the C13
    check).  [sessions_device_books_kept x y], spelled out by
    [C02_device_books_kept_meaning]: every node has the same pod copies with the
    same GPU groups, the same GPU count and device memory, on every device the
    same used / allocated / releasing memory, hence the same memory recomputed
    from the pods, the same devices in use, the same answers of
    EnoughIdleResourcesOnGpu (on devices holding allocated memory) and
    IsTaskFitOnGpuGroup, and - when the idle whole-GPU count is the same (it is
    unless the node is exposed to the known finding C14-device-guard) - the same
    verdict of the replay guard [bind_guard] for every task and every choice of
    GPU groups. *)
Theorem C02_discarded_whatif_keeps_device_books :
  forall (fails : nat -> bool) (S : Session.sess) (prog : list Session.cmd),
    Session.s_log S = [] -> Session.s_stuck S = false -> forallb Proofs.Session.open_cmd prog = true ->
    Session.wf_from Proofs.Session.any_task fails [] false S (prog ++ [Session.Discard]) = true ->
    Proofs.SessionMove.sessions_device_books_kept S (Session.run fails S (prog ++ [Session.Discard])).
Proof. exact Proofs.SessionMove.discarded_whatif_keeps_device_books. Qed.
Print Assumptions C02_discarded_whatif_keeps_device_books.

Theorem C02_rolled_back_whatif_keeps_device_books :
  forall (fails : nat -> bool) (S : Session.sess) (prog : list Session.cmd) (cp : nat),
    Session.s_log S = [] -> Session.s_stuck S = false -> forallb Proofs.Session.open_cmd prog = true ->
    Session.wf_from Proofs.Session.any_task fails [] false S (prog ++ [Session.Rollback cp]) = true ->
    exists x, Proofs.Session.state_at fails S prog cp = Some x
              /\ Proofs.SessionMove.sessions_device_books_kept x (Session.run fails S (prog ++ [Session.Rollback cp])).
Proof. exact Proofs.SessionMove.rolled_back_whatif_keeps_device_books. Qed.
Print Assumptions C02_rolled_back_whatif_keeps_device_books.

Theorem C02_device_books_kept_meaning :
  (forall x y, Proofs.SessionMove.sessions_device_books_kept x y <->
     forall nid, match alookup nid (Session.s_nodes x), alookup nid (Session.s_nodes y) with
                 | Some a, Some b => Proofs.SessionMove.device_books_kept a b
                 | None, None => True
                 | _, _ => False
                 end)
  /\ forall a b : node,
  Proofs.SessionMove.device_books_kept a b <->
  (n_pods a = n_pods b /\ n_ngpu a = n_ngpu b /\ n_gpumem a = n_gpumem b /\ n_alloc a = n_alloc b
   /\ (forall g, zget g (g_used a) = zget g (g_used b) /\ zget g (g_alloc a) = zget g (g_alloc b)
                 /\ zget g (g_rel a) = zget g (g_rel b))
   /\ (forall g, spec_galloc g (tasks_of a) = spec_galloc g (tasks_of b))
   /\ devices_in_use (tasks_of a) = devices_in_use (tasks_of b)
   /\ (forall m g, zget g (g_alloc a) <> 0 -> enough_idle_on_gpu a m g = enough_idle_on_gpu b m g)
   /\ (forall m g, fits_gpu_group a m g = fits_gpu_group b m g)
   /\ (gpu (n_idle a) = gpu (n_idle b) ->
       forall t gs, Run.Cycle.bind_guard a t gs = Run.Cycle.bind_guard b t gs)).
Proof. split; [intros x y; reflexivity | exact Proofs.SessionMove.device_books_kept_meaning]. Qed.
Print Assumptions C02_device_books_kept_meaning.

(** Non-vacuity on the world of seeded/C02-4, as the harness builds it with the
    real constructors (2-GPU node 1; pod 3 = frac_t, 0.5, runs on device 14;
    pod 5 = frac_s, 0.5, runs on device 13; pod 7 = whole_w, one GPU, pending).
    The what-if [evict frac_s; nominate it onto device 14 of node 1; discard]
    is well formed and contains a same-node GPU-group move whose undo entry
    records device 13 (the node copy's group); after the discard the node has
    no idle GPU, both devices hold the 50 MiB of their running sharer, 2 devices
    are in use, and the guard refuses to bind whole_w. *)
Theorem C02_readme_whatif_restores_node :
  let pipeline := Session.pipeline in let evict := Session.evict in
  Session.wf_from Proofs.Session.any_task SessionMove.nofaults [] false SessionMove.rw_init
    (SessionMove.whatif_prog 5 1 [14%positive]) = true
  /\ (exists o, nth_error (Session.s_log (fst (pipeline (fst (evict SessionMove.rw_init 5%positive)) 5%positive 1%positive (Some [14%positive]) false))) 1 = Some o
                /\ o = Session.OPipe 5 Releasing (Some 1%positive) [13%positive] true 1 true)
  /\ Proofs.SessionMove.sessions_device_books_kept SessionMove.rw_init (SessionMove.whatif SessionMove.rw_init 5 1 [14%positive])
  /\ (let n := SessionMove.rw_node (SessionMove.whatif SessionMove.rw_init 5 1 [14%positive]) in
      gpu (n_idle n) = 0 /\ n_idle n = n_idle (SessionMove.rw_node SessionMove.rw_init)
      /\ zget 13 (g_alloc n) = 50 /\ zget 14 (g_alloc n) = 50
      /\ devices_in_use (tasks_of n) = 2 /\ n_ngpu n = 2
      /\ Run.Cycle.bind_guard n SessionMove.rw_whole [] = false).
Proof. exact Proofs.SessionMove.readme_whatif_restores_node. Qed.
Print Assumptions C02_readme_whatif_restores_node.

(** NOT the code (seeded/C02-4: Statement.Pipeline without
    `previousGpuGroup = taskOnNode.GPUGroups`): [pipeline_undo_new_group] records
    in the undo entry the groups the pod object carries, which gpu_sharing has
    already overwritten with the new group.  The same what-if on the same world
    then does not keep the device books: frac_t's device 14 is recorded with no
    allocated memory although frac_t runs on it (recomputed from the pods: 50),
    the node shows an idle GPU that does not exist, the guard admits whole_w,
    and after that bind 3 devices are in use on the 2-GPU node - a device is
    given both to a whole-GPU pod and to a fractional pod. *)
Theorem C02_undo_restoring_new_group_refuted :
  (exists o, nth_error (Session.s_log (fst (SessionMove.pipeline_undo_new_group (fst (Session.evict SessionMove.rw_init 5%positive)) 5%positive 1%positive (Some [14%positive]) false))) 1 = Some o
             /\ o = Session.OPipe 5 Releasing (Some 1%positive) [14%positive] true 1 true)
  /\ ~ Proofs.SessionMove.sessions_device_books_kept SessionMove.rw_init (SessionMove.whatif_undo_new_group SessionMove.rw_init 5 1 [14%positive])
  /\ (let n := SessionMove.rw_node (SessionMove.whatif_undo_new_group SessionMove.rw_init 5 1 [14%positive]) in
      n_pods n = n_pods (SessionMove.rw_node SessionMove.rw_init)
      /\ gpu (n_idle n) = 1 /\ zget 14 (g_alloc n) = 0 /\ spec_galloc 14 (tasks_of n) = 50
      /\ devices_in_use (tasks_of n) = 2 /\ n_ngpu n = 2
      /\ Run.Cycle.bind_guard n SessionMove.rw_whole [] = true
      /\ exists n', add_task n SessionMove.rw_whole = Ok n' /\ devices_in_use (tasks_of n') = 3 /\ n_ngpu n' = 2).
Proof. exact Proofs.SessionMove.undo_restoring_new_group_refuted. Qed.
Print Assumptions C02_undo_restoring_new_group_refuted.
