(* generated from /repo by harness/cmd/tables on every run; do not edit *)
From Coq Require Import List ZArith String.
From KaiV Require Import Model.Status.
Import ListNotations.
Open Scope string_scope.

Definition gen_active_used : list status := [Allocated; Pipelined; Binding; Bound; Running; Releasing].
Definition gen_active_allocated : list status := [Allocated; Pipelined; Binding; Bound; Running].
Definition gen_alive : list status := [Pending; Gated; Allocated; Pipelined; Binding; Bound; Running].
Definition gen_pod_bound : list status := [Allocated; Bound; Running; Releasing].
Definition gen_allocated_status : list status := [Allocated; Binding; Bound; Running].
Definition gen_default_gpu_memory : Z := 100%Z.
Definition gen_whole_gpu_indicator : string := "-2".
