(** Correspondence + monitor entry points for C13 (statements are transactional).
    [KProg]: a command program run on the real framework.Statement, with the
    full projection of the real session after every command.
    [KCycle]: one real scheduling cycle (Run/Cycle.v); the C13 clause on it is
    "every pod is bound / nominated / evicted at most once".
    The monitor of a program has two independent parts: the dump-based clauses
    (Rollback / Discard restore the checkpoint's dump, the calls of a Commit are
    the net status change between the dumps) and the log-level clauses of
    Model/SessionSpec.v (the calls of a Commit are the steps still valid
    according to the command history; a successful un-eviction that leaves the
    pod without a valid eviction is itself a rollback of that eviction).
    An Evict of a pod that the dump taken before it shows Releasing (evicted
    earlier, or terminating) is no step of the history: a Commit must not emit
    anything for it, a Rollback / Discard has nothing to undo for it.
    A third, metamorphic part ([erasure_ok]): every well-formed program with a
    Rollback or Discard was also run, on a second identically built real session
    and under the same failure oracle, WITHOUT the commands its rollbacks /
    discards undo ([k_erase]: the erased program, the Cache calls of every Commit
    of both runs with all their arguments, both final states with every pod's
    accepted resources and the queue usage the allocate / deallocate events
    carried).  The two runs must agree: abandoned what-if steps can neither
    influence what is emitted nor what the session ends with.
    A fourth part on sessions with DRA objects ([claims_monitor]): the restore and
    erasure clauses on the CLAIMS dump (every pod's ResourceClaimInfo, the
    plugin's view of every claim), and the correspondence of the claim model
    (Model/SessionClaims.v) with that dump after every command.
    [KSolve]: one run of the scenario solver the actions use (solvers.NewJobsSolver(...).Solve, constructed as
    preempt / reclaim / consolidation construct it) on a real session, with its RESULT: solved or not, the victims
    it reports, the projection of the session before Solve, after Solve and after the Commit of the statement it
    returned, the Cache calls of that Commit - and the same for the reported scenario applied by hand, through a
    fresh Statement, on a second identically built session ([solve_monitor], section "Solver level" below). *)
From KaiV Require Export Run.Cycle Model.Session Model.SessionSpec Model.SessionErase Model.SessionClaims.
Open Scope Z_scope.

(** DRA resource claims (worlds with claims only; elsewhere both tables are empty): every pod's
    ResourceClaimInfo (pod claim -> devices of the recorded allocation) and the plugin's view of every
    claim (the DRA manager's assume cache: devices, ReservedFor as a sorted set of pods) *)
Record cdump := mkCD { cd_pods : amap rci; cd_claims : amap (alloc * list positive) }.
(** the initial state of the claim model: per pod its claims, status, NodeName, the nodes holding a copy
    and its ResourceClaimInfo; the tracker's view; the node of every DRA device (ascending by node and
    index); the number of devices every claim asks for *)
Record ipod := mkIP { ip_claims : list positive; ip_stat : status; ip_node : option positive; ip_on : list positive; ip_rci : rci }.
Record cinit := mkCI { ci_pods : amap ipod; ci_claims : amap (alloc * list positive); ci_devnode : amap positive; ci_counts : amap positive }.

Record ojob := mkOJ { oj_alloc : res; oj_active : Z; oj_idx : list Z; oj_psets : amap psview }.
Record odump := mkOD { od_nodes : amap obs; od_pods : amap pview; od_jobs : amap ojob; od_queues : amap res }.
(** a section that did not change since the previous dump is sent as [None] *)
Record ostep := mkOS {
  os_cmd : cmd; os_err : bool; os_ret : nat; os_calls : list api_call;
  os_nodes : amap (option obs); os_pods : option (amap pview);
  os_jobs : option (amap ojob); os_queues : option (amap res); os_claims : option cdump;
  (* Session.QueueAllocatedResources as returned, when it is one whole GPU below the exact sum of what the pods were
     charged and the allocate / deallocate events carried (the plugin adds and subtracts in float64:
     2 + 0.3 - 0.3 = 1.9999999999999998, and the getter keeps whole GPUs only); [os_queues] then holds the getter's
     value for the exact sum *)
  os_qraw : option (amap res) }.
(** a Cache call as the recording cache saw it: kind (0 Bind, 1 Evict, 2 TaskPipelined), pod, node
    (hostname of Bind / NodeName of the nominated pod), GPU groups of the passed pod, and the other
    arguments as integers (Bind: received resource type, ReceivedGPU.Count, ReceivedGPU.Portion x 100,
    accepted GPU memory, accepted cpu / memory / GPUs x 1000 as the proportion plugin quantifies them,
    number of DRA claim allocations, number and fingerprint of the bind-request annotations; Evict:
    fingerprints of action / preemptor / message and the gang size; TaskPipelined: message fingerprint) *)
Record xcall := mkXC { xc_kind : nat; xc_pod : positive; xc_node : option positive; xc_groups : list positive; xc_args : list Z;
                       xc_claims : list Z (* Bind: the claim allocations handed to the cluster, (claim, device) pairs *) }.
(** the end of a run: the full dump, per pod what setAcceptedResources left in it (received type, devices,
    portion x 100, GPU memory, quantified cpu / memory / GPUs x 1000), per queue the net amount the
    allocate / deallocate events of the session carried (what the proportion plugin accumulated) *)
Record xfinal := mkXF { xf_dump : odump; xf_acc : amap (list Z); xf_charged : amap res; xf_claims : cdump }.
Record erun := mkER {
  er_cmds : list cmd;                 (* the erased program, as the harness computed it *)
  er_calls_p : list (list xcall);     (* per Commit of the program, the calls of the full run *)
  er_calls_e : list (list xcall);     (* the same for the erased run *)
  er_final_p : xfinal; er_final_e : xfinal }.
Record pcase := mkPC {
  k_init : sess; k_fails : list nat; k_wf : bool; k_dump0 : odump; k_steps : list ostep; k_erase : option erun;
  k_cinit : cinit; k_cdump0 : cdump }.
(** one run of the scenario solver on a real session.
    [sc_tries]: the Solve calls that reported no solution, in the action's job order (the action goes on to the next
    pending job): job, what the call returned as victim names, the session after the call.
    [sc_sol]: the first call that reported a solution: the pending job, the victims it reported; the session after
    Solve and before Commit ([sl_pre]), the Cache calls of the Commit, the session after it; then the REPORTED
    SCENARIO APPLIED BY HAND on a second session built from the same cluster: the commands (Evict of every reported
    victim, in the reported order; Pipeline of every pod the solver's statement left nominated, onto the node and GPU
    groups the solver chose, in the order of the statement), the session before Commit, the calls, the session after.
    [sl_stray]: pods that an abandoned simulation attempt of this call had evicted and that are no reported victims
    (read off the primitive events of the simulation; coverage only). *)
Record stry := mkST { st_job : positive; st_victims : list positive; st_dump : odump }.
Record ssol := mkSL {
  sl_job : positive; sl_victims : list positive;
  sl_pre : xfinal; sl_calls : list xcall; sl_post : odump;
  sl_hand : list cmd; sl_hpre : xfinal; sl_hcalls : list xcall; sl_hpost : odump;
  sl_stray : list positive }.
Record scase := mkSC { sc_k : pcase; sc_tries : list stry; sc_sol : option ssol }.
(** one run of a real action (preempt / reclaim / consolidation Execute) end to end: per Commit the projection of the
    session taken at its first Cache call (the session the whole statement left; nothing of the Commit applied yet)
    and its calls; the same for the committed operations - and only them - replayed by hand on a second session (per
    commit: Evict of every pod sent to Cache.Evict, Pipeline of every pod sent to TaskPipelined, in call order,
    Commit); the two final sessions *)
Record acommit := mkAC { ac_pre : odump; ac_calls : list xcall; ac_hand : list cmd; ac_hpre : odump; ac_hcalls : list xcall }.
Record acase := mkAK { ak_k : pcase; ak_commits : list acommit; ak_final : odump; ak_hfinal : odump }.
Inductive case := KProg (k : pcase) | KCycle (k : ccase) | KSolve (k : scase) | KAction (k : acase).

Definition resolve (prev : odump) (st : ostep) : odump :=
  mkOD (map (fun kv => (fst kv, match snd kv with
                                | Some o => o
                                | None => match alookup (fst kv) (od_nodes prev) with
                                          | Some o => o
                                          | None => mkObs rzero rzero rzero rzero rzero rzero [] [] [] [] []
                                          end
                                end)) (os_nodes st))
       (match os_pods st with Some x => x | None => od_pods prev end)
       (match os_jobs st with Some x => x | None => od_jobs prev end)
       (match os_queues st with Some x => x | None => od_queues prev end).

(** * Model vs real *)
Definition opt_pos_eqb (a b : option positive) : bool :=
  match a, b with Some x, Some y => Pos.eqb x y | None, None => true | _, _ => false end.
Definition pview_eqb (a b : pview) : bool :=
  status_eqb (v_status a) (v_status b) && opt_pos_eqb (v_node a) (v_node b)
  && list_eqb Pos.eqb (v_groups a) (v_groups b) && Bool.eqb (v_virt a) (v_virt b).
Definition psview_eqb (a b : psview) : bool :=
  (sv_aa a =? sv_aa b) && (sv_au a =? sv_au b) && (sv_alive a =? sv_alive b)
  && (sv_pending a =? sv_pending b) && (sv_gated a =? sv_gated b).
Definition ojob_eqb (a b : ojob) : bool :=
  req (oj_alloc a) (oj_alloc b) && (oj_active a =? oj_active b) && list_eqb Z.eqb (oj_idx a) (oj_idx b)
  && amap_eqb psview_eqb (oj_psets a) (oj_psets b).
Definition ojob_of (j : jview) : ojob := mkOJ (jv_alloc j) (jv_active j) (jv_idx j) (jv_psets j).

(** Session.QueueAllocatedResources: NewResourceRequirements keeps whole GPUs only once the amount reaches 1 *)
Definition qobs (r : res) : res :=
  mkRes (cpu r) (mem r) (if gpu r <? 0 then 0 else if 1000 <=? gpu r then gpu r / 1000 * 1000 else gpu r) 0 0 0.

Definition dump_matches (s : sess) (d : odump) : bool :=
  let p := project s in
  amap_eqb2 obs_matches (d_nodes p) (od_nodes d)
  && amap_eqb pview_eqb (d_pods p) (od_pods d)
  && amap_eqb ojob_eqb (amapv ojob_of (d_jobs p)) (od_jobs d)
  && amap_eqb req (amapv (fun ab => qobs (fst ab)) (d_queues p)) (od_queues d).

Definition call_eqb (a b : api_call) : bool :=
  match a, b with
  | ABind p n g, ABind p' n' g' => Pos.eqb p p' && Pos.eqb n n' && list_eqb Pos.eqb g g'
  | AEvict p, AEvict p' => Pos.eqb p p'
  | APipe p n g, APipe p' n' g' => Pos.eqb p p' && opt_pos_eqb n n' && list_eqb Pos.eqb g g'
  | _, _ => false
  end.

Definition fails_of (k : pcase) : nat -> bool := fun i => existsb (Nat.eqb i) (k_fails k).

Fixpoint steps_agree (fails : nat -> bool) (s : sess) (prev : odump) (ss : list ostep) : bool :=
  match ss with
  | [] => true
  | st :: r =>
      let d := resolve prev st in
      let '(s1, cs, ok) := step_full fails s (os_cmd st) in
      Bool.eqb (negb ok) (os_err st)
      && list_eqb call_eqb cs (os_calls st)
      && (match os_cmd st with Checkpoint => Nat.eqb (List.length (s_log s)) (os_ret st) | _ => true end)
      && negb (s_stuck s1)
      && dump_matches s1 d
      && steps_agree fails s1 d r
  end.

Definition prog_of (k : pcase) : list cmd := map os_cmd (k_steps k).

Definition opt_groups_eqb (a b : option (list positive)) : bool :=
  match a, b with Some x, Some y => list_eqb Pos.eqb x y | None, None => true | _, _ => false end.
Definition cmd_eqb (a b : cmd) : bool :=
  match a, b with
  | Evict p, Evict q | Unevict p, Unevict q | Convert p, Convert q => Pos.eqb p q
  | Pipeline p n g u, Pipeline q m h v => Pos.eqb p q && Pos.eqb n m && opt_groups_eqb g h && Bool.eqb u v
  | Allocate p n g, Allocate q m h => Pos.eqb p q && Pos.eqb n m && opt_groups_eqb g h
  | Checkpoint, Checkpoint | Discard, Discard | Commit, Commit => true
  | Rollback x, Rollback y => Nat.eqb x y
  | _, _ => false
  end.
Fixpoint list_match {A B} (e : A -> B -> bool) (a : list A) (b : list B) : bool :=
  match a, b with
  | [], [] => true
  | x :: r, y :: t => e x y && list_match e r t
  | _, _ => false
  end.
(** a call of the model against a recorded call: kind, pod, node, GPU groups *)
Definition xcall_matches (a : api_call) (x : xcall) : bool :=
  match a with
  | ABind p n g => Nat.eqb (xc_kind x) 0 && Pos.eqb p (xc_pod x) && opt_pos_eqb (Some n) (xc_node x) && list_eqb Pos.eqb g (xc_groups x)
  | AEvict p => Nat.eqb (xc_kind x) 1 && Pos.eqb p (xc_pod x)
  | APipe p n g => Nat.eqb (xc_kind x) 2 && Pos.eqb p (xc_pod x) && opt_pos_eqb n (xc_node x) && list_eqb Pos.eqb g (xc_groups x)
  end.

(** number of leading commands satisfying [wf_cmd] *)
Fixpoint wf_prefix (fails : nat -> bool) (stk : list nat) (conv : bool) (s : sess) (prog : list cmd) : nat :=
  match prog with
  | [] => O
  | c :: r => if wf_cmd (fun _ => true) stk conv s c
              then S (wf_prefix fails (stk_after stk s c) (conv_after conv c) (fst (step fails s c)) r)
              else O
  end.

Definition prog_agrees (k : pcase) : bool :=
  dump_matches (k_init k) (k_dump0 k)
  && steps_agree (fails_of k) (k_init k) (k_dump0 k)
       (if k_wf k then k_steps k
        else firstn (S (wf_prefix (fails_of k) [] false (k_init k) (prog_of k))) (k_steps k))
  (* programs generated from the status preconditions alone satisfy the full well-formedness predicate *)
  && (if k_wf k then wf_prog (fails_of k) (k_init k) (prog_of k) else true)
  (* hypothesis of C13_commit_log_spec: the pod map of the initial session is keyed by pod id *)
  && keyed_b (k_init k)
  (* the erased program is the model's [erase] of the program; run on the model it is well-formed and ends in the
     dump the second real session ended in, with the same calls *)
  && (match k_erase k with
      | None => true
      | Some e =>
          list_eqb cmd_eqb (erase (fails_of k) (k_init k) (prog_of k)) (er_cmds e)
          && wf_prog (fails_of k) (k_init k) (er_cmds e)
          && dump_matches (Session.run (fails_of k) (k_init k) (er_cmds e)) (xf_dump (er_final_e e))
          && list_match (list_match xcall_matches) (commit_calls (fails_of k) (k_init k) (er_cmds e)) (er_calls_e e)
      end).

(** * The property on the real dumps *)

(** static attributes of a pod (kind, request) come from the initial state; status and groups from the dump *)
Definition static_task (k : pcase) (pid : positive) : option task :=
  match alookup pid (s_pods (k_init k)) with Some p => Some (p_task p) | None => None end.
Definition copies (k : pcase) (o : obs) : list task :=
  flat_map (fun kv => match static_task k (fst kv) with
                      | Some t => [task_with t (fst (snd kv)) (snd (snd kv))]
                      | None => []
                      end) (o_pods o).
(** the node shows shared work next to a nominated pod that holds GPUs (Model/NodeSpec.v [exposed]) *)
Definition node_exposed_now (k : pcase) (o : obs) : bool :=
  let ts := copies k o in
  existsb is_shared ts && existsb (fun t => is_st Pipelined t && holds_gpu t) ts.
Definition exposed_nodes (k : pcase) (d : odump) : list positive :=
  map fst (filter (fun kv => node_exposed_now k (snd kv)) (od_nodes d)).

Definition obs_same_but_gpu (a b : obs) : bool :=
  req (with_gpu (o_idle a) 0) (with_gpu (o_idle b) 0) && req (o_used a) (o_used b)
  && req (with_gpu (o_rel a) 0) (with_gpu (o_rel b) 0)
  && amap_eqb (fun x y => status_eqb (fst x) (fst y) && list_eqb Pos.eqb (snd x) (snd y)) (o_pods a) (o_pods b)
  && zmap_ext_eqb (o_gused a) (o_gused b) && zmap_ext_eqb (o_galloc a) (o_galloc b) && zmap_ext_eqb (o_grel a) (o_grel b).
Definition obs_same (a b : obs) : bool :=
  obs_same_but_gpu a b && (gpu (o_idle a) =? gpu (o_idle b)) && (gpu (o_rel a) =? gpu (o_rel b))
  && list_eqb Pos.eqb (o_gmark a) (o_gmark b)
  && req (o_idle_v a) (o_idle_v b) && req (o_used_v a) (o_used_v b) && req (o_rel_v a) (o_rel_v b).

(** per-pod view; the GPU groups of a shared pod that holds nothing (Pending, or evicted in the
    simulation) are compared separately ([stale]) *)
Definition masked (k : pcase) (pid : positive) (v : pview) : bool :=
  match static_task k pid with
  | Some t => is_shared t && (status_eqb (v_status v) Pending || (status_eqb (v_status v) Releasing && v_virt v))
  | None => false
  end.
Definition pview_same (k : pcase) (strict : bool) (pid : positive) (a b : pview) : bool :=
  status_eqb (v_status a) (v_status b) && opt_pos_eqb (v_node a) (v_node b) && Bool.eqb (v_virt a) (v_virt b)
  && (list_eqb Pos.eqb (v_groups a) (v_groups b) || (negb strict && masked k pid a)).
Fixpoint pods_same (k : pcase) (strict : bool) (a b : amap pview) : bool :=
  match a, b with
  | [], [] => true
  | (p, x) :: r, (p', y) :: r' => Pos.eqb p p' && pview_same k strict p x y && pods_same k strict r r'
  | _, _ => false
  end.

(** (restored, restored except whole-GPU columns of exposed nodes) *)
Definition restored2 (k : pcase) (exp : list positive) (now was : odump) : bool * bool :=
  let rest := pods_same k false (od_pods now) (od_pods was)
              && amap_eqb ojob_eqb (od_jobs now) (od_jobs was)
              && amap_eqb req (od_queues now) (od_queues was) in
  (rest && amap_eqb obs_same (od_nodes now) (od_nodes was),
   rest && amap_eqb2 (fun a b => obs_same a b) (od_nodes now) (od_nodes was)
   || (rest && (fix go (a b : amap obs) : bool :=
                  match a, b with
                  | [], [] => true
                  | (n, x) :: r, (n', y) :: r' =>
                      Pos.eqb n n' && (obs_same x y || (obs_same_but_gpu x y && existsb (Pos.eqb n) exp)) && go r r'
                  | _, _ => false
                  end) (od_nodes now) (od_nodes was))).

(** net effect of a statement, from the dump at its start and the dump before Commit *)
Definition pstatus (d : odump) (p : positive) : option pview := alookup p (od_pods d).
Definition expect_bind (a b : pview) : bool := status_eqb (v_status a) Pending && status_eqb (v_status b) Allocated.
Definition touched (a b : pview) : bool :=
  negb (status_eqb (v_status a) (v_status b) && opt_pos_eqb (v_node a) (v_node b) && Bool.eqb (v_virt a) (v_virt b)).
Definition expect_pipe (a b : pview) : bool := status_eqb (v_status b) Pipelined && touched a b.
Definition expect_evict (a b : pview) : bool :=
  active_allocated (v_status a)
  && (status_eqb (v_status b) Releasing || (status_eqb (v_status b) Pipelined && touched a b)).
Definition expected (f : pview -> pview -> bool) (start pre : odump) : list positive :=
  flat_map (fun kv => match pstatus start (fst kv) with
                      | Some a => if f a (snd kv) then [fst kv] else []
                      | None => []
                      end) (od_pods pre).
Definition called (f : api_call -> option positive) (cs : list api_call) : list positive :=
  flat_map (fun c => match f c with Some p => [p] | None => [] end) cs.
Definition subset (a b : list positive) : bool := forallb (fun x => in_pos x b) a.
Definition bind_failed_in (fails : nat -> bool) (ncalls : nat) (cs : list api_call) : bool :=
  (fix go (cs : list api_call) (i : nat) : bool :=
     match cs with
     | [] => false
     | ABind _ _ _ :: r => fails i || go r (S i)
     | _ :: r => go r (S i)
     end) cs ncalls.
Definition commit_ok (fails : nat -> bool) (ncalls : nat) (start pre : odump) (cs : list api_call) : bool :=
  let binds := called (fun c => match c with ABind p _ _ => Some p | _ => None end) cs in
  let pipes := called (fun c => match c with APipe p _ _ => Some p | _ => None end) cs in
  let evs := called (fun c => match c with AEvict p => Some p | _ => None end) cs in
  let bind_failed := bind_failed_in fails ncalls cs in
  nodup_posb binds && nodup_posb pipes && nodup_posb evs
  && subset binds (expected expect_bind start pre)
  && subset pipes (expected expect_pipe start pre)
  && subset evs (expected expect_evict start pre)
  && (bind_failed
      || (subset (expected expect_bind start pre) binds && subset (expected expect_pipe start pre) pipes
          && subset (expected expect_evict start pre) evs)).

(** * The property on the command history (Model/SessionSpec.v) and the real outputs *)
Definition jobof_k (k : pcase) (p : positive) : option positive :=
  match static_task k p with Some t => Some (t_job t) | None => None end.
(** where the command's pod sits, and whether it is Releasing, according to the real dump taken before the command *)
Definition loc_obs (d : odump) (c : cmd) : place :=
  match cmd_pod c with
  | Some p => match pstatus d p with
              | Some v => mkPlace (v_node v) (v_groups v) (status_eqb (v_status v) Releasing)
              | None => nowhere
              end
  | None => nowhere
  end.

Definition xkey := (ckind * positive * option positive)%type.
Definition xkey_eqb (a b : xkey) : bool :=
  ckind_eqb (fst (fst a)) (fst (fst b)) && Pos.eqb (snd (fst a)) (snd (fst b)) && opt_pos_eqb (snd a) (snd b).
Definition key_eqb (a b : ckind * positive) : bool := ckind_eqb (fst a) (fst b) && Pos.eqb (snd a) (snd b).
Definition item_xkey (it : vitem) : xkey := (item_key it, item_node it).
Definition call_xkey (c : api_call) : xkey := (call_key c, call_node c).
Fixpoint nodup_keyb (l : list (ckind * positive)) : bool :=
  match l with
  | [] => true
  | x :: r => negb (existsb (key_eqb x) r) && nodup_keyb r
  end.
Definition xsub (a b : list xkey) : bool := forallb (fun x => existsb (xkey_eqb x) b) a.

(** Commit: one call per still-valid step (kind, pod, node), no call twice, nothing else; a failed
    Bind ends the commit early, the later steps are then not emitted *)
Definition log_commit_ok (bind_failed : bool) (V : vset) (cs : list api_call) : bool :=
  let got := map call_xkey cs in
  let want := map item_xkey V in
  nodup_keyb (map call_key cs) && xsub got want && (bind_failed || xsub want got).

(** component-wise sums of the job books (all counters are additive in the pods) *)
Definition psv_add (a b : psview) : psview :=
  mkPSV (sv_aa a + sv_aa b) (sv_au a + sv_au b) (sv_alive a + sv_alive b) (sv_pending a + sv_pending b) (sv_gated a + sv_gated b).
Fixpoint zip_amap {V} (f : V -> V -> V) (a b : amap V) : amap V :=
  match a, b with
  | (k, x) :: r, (_, y) :: r' => (k, f x y) :: zip_amap f r r'
  | _, _ => []
  end.
Fixpoint zip_z (a b : list Z) : list Z :=
  match a, b with x :: r, y :: r' => (x + y) :: zip_z r r' | _, _ => [] end.
Definition ojob_add (a b : ojob) : ojob :=
  mkOJ (radd (oj_alloc a) (oj_alloc b)) (oj_active a + oj_active b) (zip_z (oj_idx a) (oj_idx b))
       (zip_amap psv_add (oj_psets a) (oj_psets b)).
Definition same_keys {V} (a b : amap V) : bool := list_eqb Pos.eqb (map fst a) (map fst b).
(** x1 + y1 = x2 + y2 on every job / on the linear columns of every queue (the whole-GPU column of
    Session.QueueAllocatedResources is rounded) *)
Definition jobs_balance (x1 y1 x2 y2 : amap ojob) : bool :=
  same_keys x1 y1 && same_keys x1 x2 && same_keys x1 y2
  && amap_eqb ojob_eqb (zip_amap ojob_add x1 y1) (zip_amap ojob_add x2 y2).
Definition res_lin (a b : res) : res := mkRes (cpu a + cpu b) (mem a + mem b) 0 0 0 0.
Definition queues_balance (x1 y1 x2 y2 : amap res) : bool :=
  same_keys x1 y1 && same_keys x1 x2 && same_keys x1 y2
  && amap_eqb req (zip_amap res_lin x1 y1) (zip_amap res_lin x2 y2).

(** claims dumps: what a pod records, the whole view, the view of [claims_restored] (used by the claims part below) *)
Definition alloc_eqb_r (a b : alloc) : bool :=
  match a, b with
  | None, None => true
  | Some x, Some y => list_eqb Pos.eqb x y
  | _, _ => false
  end.
Definition claimv_eqb (a b : alloc * list positive) : bool :=
  alloc_eqb_r (fst a) (fst b) && list_eqb Pos.eqb (snd a) (snd b).
Definition rci_eqb (a b : rci) : bool := amap_eqb alloc_eqb_r a b.
Definition cdump_eqb (a b : cdump) : bool :=
  amap_eqb rci_eqb (cd_pods a) (cd_pods b) && amap_eqb claimv_eqb (cd_claims a) (cd_claims b).

(** pod [p] is in the ReservedFor of claim [c] *)
Definition holds_d (d : cdump) (p c : positive) : bool :=
  match alookup c (cd_claims d) with Some (_, rf) => existsb (Pos.eqb p) rf | None => false end.
(** the recorded allocations of the pods that hold the claim are equal; what a pod that does not hold a claim
    (pending, or evicted in the simulation) records for it is compared separately ([cdump_eqb]) *)
Definition rci_same_held (d : cdump) (p : positive) (a b : rci) : bool :=
  list_eqb Pos.eqb (map fst a) (map fst b)
  && forallb (fun ca => negb (holds_d d p (fst ca))
                        || match alookup (fst ca) b with Some y => alloc_eqb_r (snd ca) y | None => false end) a.
Fixpoint pods_rci_same (d : cdump) (a b : amap rci) : bool :=
  match a, b with
  | [], [] => true
  | (p, x) :: r, (p', y) :: r' => Pos.eqb p p' && rci_same_held d p x y && pods_rci_same d r r'
  | _, _ => false
  end.
(** the scheduler's view of the claims is the one of [was]: every claim's devices and ReservedFor set, and what
    every consumer of a claim has recorded for it *)
Definition claims_restored (now was : cdump) : bool :=
  amap_eqb claimv_eqb (cd_claims now) (cd_claims was) && pods_rci_same was (cd_pods now) (cd_pods was).

Definition pod_rci_same (p : positive) (a b : cdump) : bool :=
  match alookup p (cd_pods a), alookup p (cd_pods b) with
  | Some x, Some y => amap_eqb alloc_eqb_r x y
  | None, None => true
  | _, _ => false
  end.

(** A successful un-eviction of [p] (Unevict, or Pipeline onto the pod's own node and devices) that
    leaves [p] without a valid eviction is a rollback of that eviction:
      - [p] has the status, node, devices and virtual flag it had in the dump taken before the eviction;
      - when the steps still valid are those that were valid before the eviction, every pod, every
        job's books and every queue's usage are those of that dump;
      - otherwise the job books and the queue usage move back by exactly what the eviction moved them;
      - [p] records for its claims what it recorded in the dump taken before the eviction, and, when the steps
        still valid are those that were valid then, the whole claims dump is the one taken then.
    [pd]: for every recorded operation, the real dumps before and after the command that recorded it. *)
Definition unevict_clause (k : pcase) (hs : hstate) (pd : list (odump * odump * cdump)) (prev d : odump) (dc : cdump)
           (p : positive) (popped : vitem) (V' : vset) : bool :=
  match popped with
  | VEv _ _ pos =>
      if existsb (is_ev_of p) V' then true else
      match nth_error pd pos, nth_error hs pos with
      | Some (bef, aft, befc), Some V0 =>
          match pstatus d p, pstatus bef p with
          | Some a, Some b => pview_eqb a b
          | _, _ => false
          end
          && pod_rci_same p dc befc
          && (if list_eqb xkey_eqb (map item_xkey V') (map item_xkey V0)
              then pods_same k false (od_pods d) (od_pods bef) && amap_eqb ojob_eqb (od_jobs d) (od_jobs bef)
                   && amap_eqb req (od_queues d) (od_queues bef) && claims_restored dc befc
              else jobs_balance (od_jobs d) (od_jobs aft) (od_jobs prev) (od_jobs bef)
                   && queues_balance (od_queues d) (od_queues aft) (od_queues prev) (od_queues bef))
      | _, _ => false
      end
  | _ => true
  end.

Definition assoc_nat {A} (n : nat) (l : list (nat * A)) : option A :=
  match find (fun p => Nat.eqb (fst p) n) l with Some p => Some (snd p) | None => None end.

(** returns (ok, a restore held only modulo the whole-GPU columns of an exposed node) *)
Fixpoint mon (k : pcase) (ncalls : nat) (start : odump) (cps : list (nat * odump)) (exp : list positive)
         (hs : hstate) (pd : list (odump * odump * cdump)) (prev : odump) (prevc : cdump) (ss : list ostep) : bool * bool :=
  match ss with
  | [] => (true, false)
  | st :: r =>
      let d := resolve prev st in
      let dc := match os_claims st with Some x => x | None => prevc end in
      let exp1 := exposed_nodes k d ++ exp in
      let nc := (ncalls + List.length (os_calls st))%nat in
      let '(here, quirk, start1, cps1, exp2) :=
        match os_cmd st with
        | Checkpoint => (fst (restored2 k [] d prev), false, start, (os_ret st, prev) :: cps, exp1)
        | Rollback cp =>
            if os_err st then (true, false, start, cps, exp1) else
            match assoc_nat cp cps with
            | Some was => let '(a, b) := restored2 k exp1 d was in
                          (b, negb a && b, start, filter (fun p => Nat.leb (fst p) cp) cps, exp1)
            | None => (true, false, start, cps, exp1)
            end
        | Discard => let '(a, b) := restored2 k exp1 d start in (b, negb a && b, d, [], exp1)
        | Commit => (commit_ok (fails_of k) ncalls start prev (os_calls st), false, d, [], exp1)
        | _ => (match os_calls st with [] => true | _ => false end, false, start, cps, exp1)
        end in
      (* the log-level clauses *)
      let hs1 := if os_err st then hs else hstep (jobof_k k) hs (os_cmd st) (loc_obs prev (os_cmd st)) in
      let grew := Nat.ltb (List.length hs) (List.length hs1) in
      let pd1 := match os_cmd st with
                 | Rollback cp => if os_err st then pd else firstn cp pd
                 | Discard | Commit => []
                 | _ => if grew then pd ++ [(prev, d, prevc)] else pd
                 end in
      let logc :=
        match os_cmd st with
        | Commit => log_commit_ok (bind_failed_in (fails_of k) ncalls (os_calls st)) (hcur hs) (os_calls st)
        | Unevict p | Pipeline p _ _ _ =>
            if grew && Nat.ltb (List.length (hcur hs1)) (List.length (hcur hs)) then
              match pop_ev p (hcur hs) with
              | Some (it, V') => unevict_clause k hs pd prev d dc p it V'
              | None => true
              end
            else true
        | _ => true
        end in
      let '(ok, q) := mon k nc start1 cps1 exp2 hs1 pd1 d dc r in
      (here && logc && ok, quirk || q)
  end.

Definition prog_monitor (k : pcase) : bool * bool :=
  if k_wf k then mon k 0 (k_dump0 k) [] (exposed_nodes k (k_dump0 k)) [[]] [] (k_dump0 k) (k_cdump0 k) (k_steps k) else (true, false).

(** * Erasure: the run of the program against the run of the program without its abandoned parts

    Evaluated on the real outputs only.
    (a) every Commit emits the same Cache calls in the same order with the same arguments: for Bind the
        node, the GPU groups (both runs use one numbering of group names), the received resource type,
        device count, portion and GPU memory and the quantities the queue is charged; for Evict the pod
        and the eviction metadata; for TaskPipelined pod, node and groups;
    (b) the two sessions end in the same projection: every pod's status, node, virtual flag and GPU groups,
        the accepted resources of every pod that holds resources by a decision that stands (active
        allocated status), every job's books, every queue's usage (Session.QueueAllocatedResources and the
        exact amounts the allocate / deallocate events carried), every node.
    Exceptions, both already part of the rollback clause: the GPU groups recorded in a shared pod that
    holds nothing (Pending, or evicted: the callers assign GPUGroups before Pipeline / Allocate and
    unpipeline / unallocate restore the assigned value; Commit of the eviction only clears the virtual
    flag) and, for nodes that met the exposure condition of known finding C14-device-guard during the
    full run, the whole-GPU idle / releasing columns. *)
Definition xcall_eqb (a b : xcall) : bool :=
  Nat.eqb (xc_kind a) (xc_kind b) && Pos.eqb (xc_pod a) (xc_pod b) && opt_pos_eqb (xc_node a) (xc_node b)
  && list_eqb Pos.eqb (xc_groups a) (xc_groups b) && list_eqb Z.eqb (xc_args a) (xc_args b).

(** nodes that met the exposure condition in some dump of the full run *)
Fixpoint exposed_along (k : pcase) (prev : odump) (ss : list ostep) : list positive :=
  match ss with
  | [] => []
  | st :: r => let d := resolve prev st in exposed_nodes k d ++ exposed_along k d r
  end.

Definition masked_e (k : pcase) (pid : positive) (v : pview) : bool :=
  match static_task k pid with
  | Some t => is_shared t && (status_eqb (v_status v) Pending || status_eqb (v_status v) Releasing)
  | None => false
  end.
Fixpoint pods_same_e (k : pcase) (a b : amap pview) : bool :=
  match a, b with
  | [], [] => true
  | (p, x) :: r, (p', y) :: r' =>
      Pos.eqb p p' && status_eqb (v_status x) (v_status y) && opt_pos_eqb (v_node x) (v_node y)
      && Bool.eqb (v_virt x) (v_virt y) && (list_eqb Pos.eqb (v_groups x) (v_groups y) || masked_e k p x)
      && pods_same_e k r r'
  | _, _ => false
  end.
(** accepted resources: compared for the pods that are active allocated at the end *)
Definition acc_same (d : odump) (a b : amap (list Z)) : bool :=
  same_keys a b
  && forallb (fun kv => match pstatus d (fst kv), alookup (fst kv) b with
                        | Some v, Some y => negb (active_allocated (v_status v)) || list_eqb Z.eqb (snd kv) y
                        | _, _ => false
                        end) a.

(** a node of the two final states: 0 equal; 1 equal except the whole-GPU columns, and the node met the
    exposure condition of C14-device-guard during the full run; 3 different *)
Definition node_class (exp : list positive) (n : positive) (x y : obs) : nat :=
  if obs_same x y then 0%nat
  else if obs_same_but_gpu x y && existsb (Pos.eqb n) exp then 1%nat
  else 3%nat.
Fixpoint node_classes (exp : list positive) (a b : amap obs) : list nat :=
  match a, b with
  | [], [] => []
  | (n, x) :: r, (n', y) :: r' => (if Pos.eqb n n' then node_class exp n x y else 3%nat) :: node_classes exp r r'
  | _, _ => [3%nat]
  end.

Definition finals_same (k : pcase) (exp : list positive) (p e : xfinal) : bool * list nat :=
  (pods_same_e k (od_pods (xf_dump p)) (od_pods (xf_dump e))
   && acc_same (xf_dump p) (xf_acc p) (xf_acc e)
   && amap_eqb ojob_eqb (od_jobs (xf_dump p)) (od_jobs (xf_dump e))
   && amap_eqb req (od_queues (xf_dump p)) (od_queues (xf_dump e))
   && amap_eqb req (xf_charged p) (xf_charged e),
   node_classes exp (od_nodes (xf_dump p)) (od_nodes (xf_dump e))).

(** (ok, the two runs agree only modulo the whole-GPU columns of an exposed node) *)
Definition erasure_check (k : pcase) : bool * bool :=
  match k_erase k with
  | None => (true, false)
  | Some e =>
      if negb (k_wf k) then (true, false) else
      let exp := exposed_nodes k (k_dump0 k) ++ exposed_along k (k_dump0 k) (k_steps k) in
      let '(rest, cl) := finals_same k exp (er_final_p e) (er_final_e e) in
      let ok := list_eqb (list_eqb xcall_eqb) (er_calls_p e) (er_calls_e e) && rest && negb (existsb (Nat.eqb 3) cl) in
      (ok, ok && existsb (Nat.eqb 1) cl)
  end.
Definition erasure_ok (k : pcase) : bool := fst (erasure_check k).


(** * Resource claims

    [cstep_obs]: a command with what the claim clauses read of its outcome - the error flag, the value a
    Checkpoint returned, the claims dump after it - taken from the real run or from a run of the claim model. *)
Definition cobs := (cmd * bool * nat * cdump)%type.

(** the restore clauses over a run: (restored in the sense of [claims_restored] at every successful Rollback /
    Discard, restored exactly - pods that hold nothing included) *)
Fixpoint cmon (start : cdump) (cps : list (nat * cdump)) (prev : cdump) (ss : list cobs) : bool * bool :=
  match ss with
  | [] => (true, true)
  | (c, err, ret, d) :: r =>
      let '(here, exact, start1, cps1) :=
        match c with
        | Checkpoint => (cdump_eqb d prev, true, start, (ret, prev) :: cps)
        | Rollback cp =>
            if err then (true, true, start, cps) else
            match assoc_nat cp cps with
            | Some was => (claims_restored d was, cdump_eqb d was, start, filter (fun x => Nat.leb (fst x) cp) cps)
            | None => (true, true, start, cps)
            end
        | Discard => (claims_restored d start, cdump_eqb d start, d, [])
        | Commit => (true, true, d, [])
        | _ => (true, true, start, cps)
        end in
      let '(ok, ex) := cmon start1 cps1 d r in
      (here && ok, exact && ex)
  end.

Definition resolve_c (prev : cdump) (st : ostep) : cdump := match os_claims st with Some x => x | None => prev end.
Fixpoint real_cobs (prev : cdump) (ss : list ostep) : list cobs :=
  match ss with
  | [] => []
  | st :: r => let d := resolve_c prev st in (os_cmd st, os_err st, os_ret st, d) :: real_cobs d r
  end.

(** ** the claim model on the case *)
Definition has_claims (k : pcase) : bool := match ci_pods (k_cinit k) with [] => false | _ => true end.
Definition to_cpod (x : ipod) : cpod := mkCP (ip_claims x) (ip_stat x) (ip_node x) (ip_on x).
Definition vstore0 (ci : cinit) : vstore := amapv ip_rci (ci_pods ci).
Definition devs0 (ci : cinit) : list positive :=
  fold_left (fun acc kv => match fst (snd kv) with Some ds => fold_left (fun a d => pins d a) ds acc | None => acc end) (ci_claims ci) [].
Definition vinit (ci : cinit) : cst vstore rci := mkCS (vstore0 ci) (amapv to_cpod (ci_pods ci)) (ci_claims ci) (devs0 ci) [] [] 0%nat 0%nat false false.
Definition hinit (ci : cinit) : cst heap positive := mkCS (h_init (vstore0 ci)) (amapv to_cpod (ci_pods ci)) (ci_claims ci) (devs0 ci) [] [] 0%nat 0%nat false false.

(** the structured allocator on the generated worlds (one ExactCount request, every device selectable): the
    lowest free devices of the pod's node; compared with the real allocator through [claims_agree] *)
Definition first_free (ci : cinit) : oracle := fun _ used nd c =>
  match nd with
  | None => None
  | Some n =>
      let cnt := match alookup c (ci_counts ci) with Some x => Pos.to_nat x | None => 1%nat end in
      let free := filter (fun d => negb (pmem d used)) (map fst (filter (fun dn => Pos.eqb (snd dn) n) (ci_devnode ci))) in
      if Nat.leb cnt (List.length free) then Some (firstn cnt free) else None
  end.

Definition cd_of {ST SV} (SO : store_ops ST SV) (s : cst ST SV) : cdump := let v := cview SO s in mkCD (fst v) (snd v).

(** run of a machine over a program: per command the error flag, the log length before it (what Checkpoint
    returns) and the claims after it *)
Fixpoint model_cobs {ST SV} (SO : store_ops ST SV) (clears : bool) (orc : oracle) (fails : nat -> bool)
         (s : cst ST SV) (prog : list cmd) : list cobs * cst ST SV :=
  match prog with
  | [] => ([], s)
  | c :: r =>
      let '(s1, ok) := cstep_full SO clears orc fails s c in
      let '(rest, sf) := model_cobs SO clears orc fails s1 r in
      ((c, negb ok, List.length (c_log s), cd_of SO s1) :: rest, sf)
  end.

Fixpoint cobs_agree (m r : list cobs) : bool :=
  match m, r with
  | [], [] => true
  | (c, e, ret, d) :: m', (c', e', ret', d') :: r' =>
      Bool.eqb e (match c with Commit | Discard | Checkpoint => false | _ => e' end)
      && (match c with Checkpoint => Nat.eqb ret ret' | _ => true end)
      && cdump_eqb d d' && cobs_agree m' r'
  | _, _ => false
  end.

(** the model of the code as it is ([code_restore_alias], [code_dealloc_clears] of Model/SessionClaims.v) against
    the real run: claims dump after every command, error flags, checkpoint values; and, for the erased program,
    the final claims of the second real session *)
Definition claims_agree (k : pcase) : bool :=
  if negb (has_claims k) then true else
  let ci := k_cinit k in
  let SO := HS false code_restore_alias in
  cdump_eqb (cd_of SO (hinit ci)) (k_cdump0 k)
  && (let '(m, sf) := model_cobs SO code_dealloc_clears (first_free ci) (fails_of k) (hinit ci) (prog_of k) in
      cobs_agree m (real_cobs (k_cdump0 k) (k_steps k)) && negb (c_stuck sf))
  && match k_erase k with
     | None => true
     | Some e =>
         let '(_, sf) := model_cobs SO code_dealloc_clears (first_free ci) (fails_of k) (hinit ci) (er_cmds e) in
         cdump_eqb (cd_of SO sf) (xf_claims (er_final_e e)) && negb (c_stuck sf)
     end.

(** the store of values is the heap store in which every save and every restore copies *)
Definition stores_agree (k : pcase) : bool :=
  if negb (has_claims k) then true else
  let ci := k_cinit k in
  let '(mv, _) := model_cobs VS code_dealloc_clears (first_free ci) (fails_of k) (vinit ci) (prog_of k) in
  let '(mh, _) := model_cobs (HS false false) code_dealloc_clears (first_free ci) (fails_of k) (hinit ci) (prog_of k) in
  cobs_agree mv mh.

(** ** the property on the real claims dumps *)
(** Bind hands the cluster the same claim allocations in both runs *)
Definition xclaims_same (a b : list (list xcall)) : bool :=
  list_eqb (list_eqb (fun x y => list_eqb Z.eqb (xc_claims x) (xc_claims y))) a b.
Definition claims_erasure (k : pcase) : bool :=
  match k_erase k with
  | None => true
  | Some e => claims_restored (xf_claims (er_final_p e)) (xf_claims (er_final_e e)) && xclaims_same (er_calls_p e) (er_calls_e e)
  end.
(** (the claims clauses hold, they hold exactly) *)
Definition claims_monitor (k : pcase) : bool * bool :=
  if negb (has_claims k) || negb (k_wf k) then (true, true) else
  let '(ok, ex) := cmon (k_cdump0 k) [] (k_cdump0 k) (real_cobs (k_cdump0 k) (k_steps k)) in
  (ok && claims_erasure k, ex).

(** the allocate handler took an allocation from a stale record of the pod, in the run of the program or of the
    erased program on the model of the code as it is *)
Definition stale_record_used (k : pcase) : bool :=
  let ci := k_cinit k in
  let SO := HS false code_restore_alias in
  c_stale (snd (model_cobs SO code_dealloc_clears (first_free ci) (fails_of k) (hinit ci) (prog_of k)))
  || match k_erase k with
     | None => false
     | Some e => c_stale (snd (model_cobs SO code_dealloc_clears (first_free ci) (fails_of k) (hinit ci) (er_cmds e)))
     end.
(** A failure of the claims clauses on the real run is an instance of the listed finding C13-stale-claim-record
    (flag 2) when the model of the code as it is reproduces the real run command by command (and the final claims of
    the erased run), and on that run the allocate handler used a stale record: it took a claim's allocation from what
    the pod had recorded although the claim has another allocation now, or, outside an un-eviction, although the
    claim is unallocated now. *)
Definition claims_explained (k : pcase) : option (list nat) :=
  if negb (claims_agree k) then None
  else if stale_record_used k then Some [2%nat]
  else None.
Definition claims_flags (k : pcase) : list nat :=
  if fst (claims_monitor k) then [] else match claims_explained k with Some l => l | None => [] end.
Definition claims_ok (k : pcase) : bool :=
  fst (claims_monitor k) || match claims_explained k with Some _ => true | None => false end.

(** * Real cycles: at most one call of each kind per pod

    C13's "evicted at most once" is a statement about ONE Commit.  The calls of a cycle come
    without statement boundaries, so the clause evaluated here is the part of it that can be read
    off the call sequence: a pod is evicted at most once between two placements of it - after an
    Evict of p, another Evict of p is accepted only when a TaskPipelined or a Bind of p came in
    between (and a pod is nominated at most once between two evictions of it, bound at most once).  In every real run that means a later statement: a statement that evicted p and
    re-placed it elsewhere was committed, and a later statement of the same cycle chose the
    re-placed pod (status Pipelined, not Releasing) as a victim again; each of the two Commits
    evicts p once (Run/Cycle.v reports the event as observation flag 110).  Two Evicts of p with
    no placement of p in between - the shape the repair 83a0ca3 + bce7109 removed - fail the clause.  The
    strict per-Commit clause is evaluated on the program stream, where the statement boundaries
    are known ([commit_ok], [log_commit_ok]), and proved (Properties/C13.v). *)
Fixpoint evict_once_go (evd : list positive) (cs : list call) : bool :=
  match cs with
  | [] => true
  | CEvict p _ _ :: r => negb (existsb (Pos.eqb p) evd) && evict_once_go (p :: evd) r
  | CPipe p _ _ :: r | CBind p _ _ :: r => evict_once_go (filter (fun q => negb (Pos.eqb q p)) evd) r
  end.
(** nominations, by the same reasoning: after a TaskPipelined of p another one is accepted only when an
    Evict of p came in between (a later statement evicted the nominated pod and re-placed it; each
    of the two Commits nominates it once) *)
Fixpoint pipe_once_go (piped : list positive) (cs : list call) : bool :=
  match cs with
  | [] => true
  | CPipe p _ _ :: r => negb (existsb (Pos.eqb p) piped) && pipe_once_go (p :: piped) r
  | CEvict p _ _ :: r => pipe_once_go (filter (fun q => negb (Pos.eqb q p)) piped) r
  | CBind _ _ _ :: r => pipe_once_go piped r
  end.
Definition cycle_once (k : ccase) : bool :=
  evict_once_go [] (c_calls k) && nodup_posb (map (fun b => fst (fst b)) (bound_calls k))
  && pipe_once_go [] (c_calls k).

(** * Solver level: an abandoned attempt of the scenario solver leaves no trace

    The by-pod solver tries scenarios one after the other and, inside a scenario, the nodes of the latest
    potential victim job one at a time: [checkpoint; evict the potential victims that touch the node; simulate;
    on failure roll back]; a scenario without solution is discarded.  Statement can do all of that correctly and
    the solver can still use it wrongly (roll back to the wrong checkpoint, keep a statement it reports as
    abandoned).  What the solver hands to the action is a RESULT - solved?, a statement, the victims - and the
    clauses below are about that result, evaluated on the real outputs only:

    (0) no solution reported: the session is the session before the call (Discard clause, at solver level);
    (i) the pods sent to Cache.Evict by the Commit of the returned statement are reported victims, each once,
        and every reported victim is sent - except a victim that was terminating (Releasing) before the call:
        the solver reports it (its copy of the pod says Releasing), Statement.Evict leaves it alone;
    (ii) every pod whose status / node / virtual flag differs after Solve is a reported victim or a pod that was
        not holding resources and is nominated now (the pending job's pods, pending pods of a victim job):
        in particular every pod evicted in the session after Solve is a reported victim;
    (iii) ERASURE: the session after Solve, the calls of the Commit and the session after the Commit are those of
        the reported scenario applied by hand on a fresh session - whatever attempts were abandoned on the way.
        Compared: every pod's status, node, virtual flag and GPU groups, the accepted resources of every pod
        that holds resources, every job's books, every queue's usage and the net amount the allocate /
        deallocate events carried, every node.  Excluded (the exclusions of the statement-level erasure clause,
        [finals_same]): the GPU groups recorded in a shared pod that holds nothing (Pending or evicted), and the
        whole-GPU idle / releasing columns of a node that carries shared work (known finding C14-device-guard:
        the exposure condition can be met in the middle of a simulation, which no dump shows; flag 1).  The
        Cache calls are compared as sets of (kind, pod, node, GPU groups): the order of the operations in the
        solver's statement (potential victims in map order) is not part of the result, and the eviction
        metadata (message, gang size) of the hand-made evictions is not the solver's. *)
Definition spk (k : scase) : pcase := sc_k k.
Definition pods_of_kind (kind : nat) (cs : list xcall) : list positive :=
  map xc_pod (filter (fun c => Nat.eqb (xc_kind c) kind) cs).
Definition xcall_key_eqb (a b : xcall) : bool :=
  Nat.eqb (xc_kind a) (xc_kind b) && Pos.eqb (xc_pod a) (xc_pod b) && opt_pos_eqb (xc_node a) (xc_node b)
  && list_eqb Pos.eqb (xc_groups a) (xc_groups b).
Definition calls_same_set (a b : list xcall) : bool :=
  Nat.eqb (List.length a) (List.length b)
  && forallb (fun x => existsb (xcall_key_eqb x) b) a && forallb (fun y => existsb (xcall_key_eqb y) a) b.
(** nodes that carry shared work in a dump *)
Definition shared_nodes (k : pcase) (d : odump) : list positive :=
  map fst (filter (fun kv => existsb is_shared (copies k (snd kv))) (od_nodes d)).
Definition was_releasing (d : odump) (p : positive) : bool :=
  match pstatus d p with Some v => status_eqb (v_status v) Releasing | None => false end.

(** (0): (restored, restored only modulo the whole-GPU columns of a node with shared work, session after the tries) *)
Fixpoint tries_restored (k : pcase) (exp : list positive) (prev : odump) (ts : list stry) : bool * bool * odump :=
  match ts with
  | [] => (true, false, prev)
  | t :: r => let '(a, b) := restored2 k exp (st_dump t) prev in
              let '(ok, q, last) := tries_restored k exp (st_dump t) r in
              (b && ok, (negb a && b) || q, last)
  end.

Definition evictions_are_the_victims (base : odump) (sl : ssol) : bool :=
  let evs := pods_of_kind 1 (sl_calls sl) in
  nodup_posb evs && subset evs (sl_victims sl)
  && forallb (fun v => in_pos v evs || was_releasing base v) (sl_victims sl).

Definition only_the_scenario_changed (base : odump) (sl : ssol) : bool :=
  forallb (fun kv => match pstatus base (fst kv) with
                     | Some a => negb (touched a (snd kv)) || in_pos (fst kv) (sl_victims sl)
                                 || (status_eqb (v_status (snd kv)) Pipelined && negb (active_allocated (v_status a)))
                     | None => false
                     end) (od_pods (xf_dump (sl_pre sl))).

Definition odumps_same (k : pcase) (exp : list positive) (a b : odump) : bool * list nat :=
  (pods_same_e k (od_pods a) (od_pods b) && amap_eqb ojob_eqb (od_jobs a) (od_jobs b) && amap_eqb req (od_queues a) (od_queues b),
   node_classes exp (od_nodes a) (od_nodes b)).

(** (iii): (holds, holds only modulo the whole-GPU columns of a node with shared work) *)
Definition solver_erasure (k : pcase) (exp : list positive) (sl : ssol) : bool * bool :=
  let '(r1, c1) := finals_same k exp (sl_pre sl) (sl_hpre sl) in
  let '(r2, c2) := odumps_same k exp (sl_post sl) (sl_hpost sl) in
  let ok := r1 && r2 && negb (existsb (Nat.eqb 3) (c1 ++ c2)) && calls_same_set (sl_calls sl) (sl_hcalls sl) in
  (ok, ok && existsb (Nat.eqb 1) (c1 ++ c2)).

(** (all clauses hold, some restore / comparison held only modulo the whole-GPU columns: flag 1) *)
Definition solve_monitor (k : scase) : bool * bool :=
  let pk := spk k in
  let exp := shared_nodes pk (k_dump0 pk) ++ exposed_nodes pk (k_dump0 pk) in
  let '(ok0, q0, base) := tries_restored pk exp (k_dump0 pk) (sc_tries k) in
  match sc_sol k with
  | None => (ok0, q0)
  | Some sl =>
      let '(ok3, q3) := solver_erasure pk exp sl in
      (ok0 && evictions_are_the_victims base sl && only_the_scenario_changed base sl && ok3, q0 || q3)
  end.

(** the model on the reported scenario: when the hand-made program is well-formed, the model's run of it from the
    initial session ends in the dump of the second real session before its Commit, the Commit emits the calls that
    session emitted and ends in its final dump.  With clause (iii) this ties the session the real solver left to the
    model's run of the successful attempt alone (Properties/C13.v, [C13_solver_*]). *)
Definition nofail_r (_ : nat) : bool := false.
Definition hand_wf (k : scase) : bool :=
  match sc_sol k with
  | Some sl => wf_prog nofail_r (k_init (spk k)) (sl_hand sl ++ [Commit])
  | None => true
  end.
Definition solve_agrees (k : scase) : bool :=
  let pk := spk k in
  dump_matches (k_init pk) (k_dump0 pk) && keyed_b (k_init pk)
  && match sc_sol k with
     | None => true
     | Some sl =>
         if negb (hand_wf k) then true else
         let s1 := Session.run nofail_r (k_init pk) (sl_hand sl) in
         dump_matches s1 (xf_dump (sl_hpre sl))
         && (let '(s2, cs, _) := step_full nofail_r s1 Commit in
             list_match xcall_matches cs (sl_hcalls sl) && dump_matches s2 (sl_hpost sl))
     end.
(** flag 1: see above; observation flags (never an alarm): 130 an abandoned attempt of the solved call had evicted a
    pod that is no reported victim (the shape in which a wrong checkpoint shows); 131 the hand-made program is outside
    well-formedness (not compared with the model) *)
Definition solve_flags (k : scase) : list nat :=
  (if snd (solve_monitor k) then [1%nat] else [])
  ++ (match sc_sol k with Some sl => match sl_stray sl with [] => [] | _ => [130%nat] end | None => [] end)
  ++ (if hand_wf k then [] else [131%nat]).

(** ** the real actions end to end

    Whatever scenarios, partial solutions and per-node attempts the action abandoned before (for this pending job and
    for the ones it could not solve), the session at every Commit and at the end of the action is the session in
    which only the committed operations were applied - same comparison and exclusions as clause (iii).  The report
    of the solver is not visible from outside the action, so clauses (i) / (ii) are evaluated in the direct mode
    only. *)
Fixpoint commits_same (k : pcase) (exp : list positive) (cs : list acommit) : bool * bool :=
  match cs with
  | [] => (true, false)
  | c :: r =>
      let '(r1, cl) := odumps_same k exp (ac_pre c) (ac_hpre c) in
      let ok := r1 && negb (existsb (Nat.eqb 3) cl) && calls_same_set (ac_calls c) (ac_hcalls c) in
      let '(ok', q) := commits_same k exp r in
      (ok && ok', (ok && existsb (Nat.eqb 1) cl) || q)
  end.
Definition action_monitor (k : acase) : bool * bool :=
  let pk := ak_k k in
  let exp := shared_nodes pk (k_dump0 pk) ++ exposed_nodes pk (k_dump0 pk) in
  let '(ok, q) := commits_same pk exp (ak_commits k) in
  let '(rf, cf) := odumps_same pk exp (ak_final k) (ak_hfinal k) in
  (ok && rf && negb (existsb (Nat.eqb 3) cf), q || existsb (Nat.eqb 1) cf).
Definition action_prog (k : acase) : list cmd := flat_map (fun c => ac_hand c ++ [Commit]) (ak_commits k).
Definition action_wf (k : acase) : bool := wf_prog nofail_r (k_init (ak_k k)) (action_prog k).
(** the model on the hand-made programs (when well-formed): the dump before every Commit, its calls, the final dump *)
Fixpoint action_steps (s : sess) (cs : list acommit) (final : odump) : bool :=
  match cs with
  | [] => dump_matches s final
  | c :: r =>
      let s1 := Session.run nofail_r s (ac_hand c) in
      dump_matches s1 (ac_hpre c)
      && (let '(s2, calls, _) := step_full nofail_r s1 Commit in
          list_match xcall_matches calls (ac_hcalls c) && action_steps s2 r final)
  end.
Definition action_agrees (k : acase) : bool :=
  let pk := ak_k k in
  dump_matches (k_init pk) (k_dump0 pk) && keyed_b (k_init pk)
  && (if action_wf k then action_steps (k_init pk) (ak_commits k) (ak_hfinal k) else true).
Definition action_flags (k : acase) : list nat :=
  (if snd (action_monitor k) then [1%nat] else []) ++ (if action_wf k then [] else [131%nat]).

Definition model_agrees (c : case) : bool :=
  match c with
  | KProg k => prog_agrees k && claims_agree k && stores_agree k
  | KCycle k => cycle_agrees k
  | KSolve k => solve_agrees k
  | KAction k => action_agrees k
  end.
Definition monitor_ok (c : case) : bool :=
  match c with
  | KProg k => fst (prog_monitor k) && erasure_ok k && claims_ok k
  | KCycle k => cycle_once k
  | KSolve k => fst (solve_monitor k)
  | KAction k => fst (action_monitor k)
  end.
(** flag 1: known finding C14-device-guard manifested (a restore, or the two runs of the erasure clause, agree
    only modulo the whole-GPU columns of an exposed node) *)
Definition flags (c : case) : list nat :=
  match c with
  | KProg k => (if snd (prog_monitor k) || snd (erasure_check k) then [1%nat] else []) ++ claims_flags k
                (* flag 3: the queue usage the session reports drifted by float arithmetic (finding C13-queue-usage-float-drift) *)
                ++ (if existsb (fun st => match os_qraw st with Some _ => true | None => false end) (k_steps k) then [3%nat] else [])
                ++ (if snd (claims_monitor k) then [] else [120%nat])
  | KCycle k => cycle_flags k
  | KSolve k => solve_flags k
  | KAction k => action_flags k
  end.
Definition run_mismatches (cs : list (nat * case)) : list nat := failing (fun k => negb (model_agrees k)) cs.
Definition run_monitor (cs : list (nat * case)) : list nat := failing (fun k => negb (monitor_ok k)) cs.
Definition run_flags (cs : list (nat * case)) : list (nat * list nat) :=
  filter (fun p => negb (Nat.eqb (List.length (snd p)) 0)) (map (fun c => (fst c, flags (snd c))) cs).
