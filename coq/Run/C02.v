(** Cycle-level correspondence and monitor entry points for C02 (see Run/Cycle.v). *)
From KaiV Require Export Run.Cycle.
Definition model_agrees := cycle_agrees.
Definition monitor_ok := c02_ok.
Definition run_mismatches (cs : list (nat * ccase)) : list nat := failing (fun k => negb (model_agrees k)) cs.
Definition run_monitor (cs : list (nat * ccase)) : list nat := failing (fun k => negb (monitor_ok k)) cs.
Definition run_flags := cycle_run_flags.
