(** C02: cycle-level monitor (Run/Cycle.v) + function-level correspondence for
    the choice of GPU groups (Model/GpuSharing.v). *)
From KaiV Require Export Run.Cycle Model.GpuSharing.
Open Scope Z_scope.

Record dcase := mkD {
  d_node : node;                       (* the real node before the decision *)
  d_task : task;
  d_pipeline_only : bool;
  d_cands : list (option positive);    (* candidate list handed to the real function, in its order *)
  d_fresh : list positive;             (* names standing for the fresh groups, in creation order *)
  d_obs : option (list positive * bool);   (* observed: chosen groups, IsReleasing *)
}.

(** [PFault]: a cycle with injected Bind / Evict API failures; only the calls that succeeded are
    listed, no correspondence is claimed (see Run/C01.v), the device monitor must hold. *)
Inductive c02case := PCycle (k : ccase) | PDecision (d : dcase) | PFault (k : ccase).

Definition decision_eqb (a b : option (list positive * bool)) : bool :=
  match a, b with
  | None, None => true
  | Some (g1, r1), Some (g2, r2) => list_eqb Pos.eqb g1 g2 && Bool.eqb r1 r2
  | _, _ => false
  end.

Definition decision_agrees (d : dcase) : bool :=
  decision_eqb (prefer (d_node d) (d_task d) (d_pipeline_only d) (d_cands d) (d_fresh d)) (d_obs d).

(** A decision that is not marked as releasing leads to Statement.Allocate and then to a Bind:
    it must be safe for the devices. Flag 2: the unsafe decision is one where fresh devices were
    taken although fewer are idle (known finding C02-multidevice-fresh-groups). *)
Definition decision_monitor (d : dcase) : bool :=
  match d_obs d with
  | Some (gs, false) =>
      nodup_posb gs && (Z.of_nat (List.length gs) =? t_ndev (d_task d))
      && decision_safe (d_node d) (d_task d) gs
  | Some (gs, true) => nodup_posb gs && (Z.of_nat (List.length gs) =? t_ndev (d_task d))
  | None => true
  end.

Definition model_agrees (c : c02case) : bool :=
  match c with PCycle k => cycle_agrees k | PDecision d => decision_agrees d | PFault _ => true end.
Definition monitor_ok (c : c02case) : bool :=
  match c with PCycle k => c02_ok k | PDecision d => decision_monitor d | PFault k => c02_ok k end.
Definition run_mismatches (cs : list (nat * c02case)) : list nat := failing (fun k => negb (model_agrees k)) cs.
Definition run_monitor (cs : list (nat * c02case)) : list nat := failing (fun k => negb (monitor_ok k)) cs.
Definition run_flags (cs : list (nat * c02case)) : list (nat * list nat) :=
  filter (fun p => negb (Nat.eqb (List.length (snd p)) 0))
         (map (fun c => (fst c, match snd c with PCycle k => cycle_flags k | _ => [] end)) cs).
