(** C02: cycle-level monitor (Run/Cycle.v) + function-level correspondence for
    the choice of GPU groups (Model/GpuSharing.v). *)
From KaiV Require Export Run.Cycle Model.GpuSharing Run.Decision.
Open Scope Z_scope.

(** [PFault]: a cycle with injected Bind / Evict API failures; only the calls that succeeded are
    listed, no correspondence is claimed (see Run/C01.v), the device monitor must hold. *)
Inductive c02case := PCycle (k : ccase) | PDecision (d : dcase) | PFault (k : ccase).

Definition model_agrees (c : c02case) : bool :=
  match c with PCycle k => cycle_agrees k | PDecision d => decision_agrees d | PFault _ => true end.
Definition monitor_ok (c : c02case) : bool :=
  match c with PCycle k => c02_ok k | PDecision d => decision_monitor d | PFault k => c02_ok k end.
Definition run_mismatches (cs : list (nat * c02case)) : list nat := failing (fun k => negb (model_agrees k)) cs.
Definition run_monitor (cs : list (nat * c02case)) : list nat := failing (fun k => negb (monitor_ok k)) cs.
Definition run_flags (cs : list (nat * c02case)) : list (nat * list nat) :=
  filter (fun p => negb (Nat.eqb (List.length (snd p)) 0))
         (map (fun c => (fst c, match snd c with PCycle k => cycle_flags k | _ => [] end)) cs).
