(** C01: cycle-level refinement + monitor (Run/Cycle.v), plus cycles with
    injected Bind / Evict API failures.  In a fault cycle only the calls that
    succeeded are listed; the final books are not compared (a failed commit
    leaves un-emitted operations applied for the rest of the cycle, which only
    withholds capacity), but every successful call must still be admissible and
    the monitor must hold. *)
From KaiV Require Export Run.Cycle.

Inductive c01case := FCycle (k : ccase) | FFault (k : ccase).

Definition guards_ok (k : ccase) : bool :=
  match replay (c_tasks k) (c_nodes k) (c_calls k) with
  | Some (_, ok) => ok
  | None => false
  end.

(** For fault cycles no correspondence is claimed: after a failed Evict the statement's
    later nominations stand on capacity that is not released, after a failed Bind the
    un-emitted operations stay applied.  Only successful BINDS must stay admissible w.r.t.
    the devices and the monitor must hold. *)
Definition model_agrees (c : c01case) : bool :=
  match c with FCycle k => cycle_agrees k | FFault k => true end.
Definition monitor_ok (c : c01case) : bool :=
  match c with FCycle k => c01_ok k | FFault k => c01_ok k end.
Definition run_mismatches (cs : list (nat * c01case)) : list nat := failing (fun k => negb (model_agrees k)) cs.
Definition run_monitor (cs : list (nat * c01case)) : list nat := failing (fun k => negb (monitor_ok k)) cs.
Definition run_flags (cs : list (nat * c01case)) : list (nat * list nat) :=
  filter (fun p => negb (Nat.eqb (List.length (snd p)) 0))
         (map (fun c => (fst c, match snd c with FCycle k => cycle_flags k | FFault _ => [] end)) cs).
