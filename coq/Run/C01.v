(** C01: cycle-level refinement + monitor (Run/Cycle.v), plus cycles with
    injected Bind / Evict API failures.  In a fault cycle only the calls that
    succeeded are listed; the final books are not compared (a failed commit
    leaves un-emitted operations applied for the rest of the cycle, which only
    withholds capacity), but every successful call must still be admissible and
    the monitor must hold. *)
From KaiV Require Export Run.Cycle Run.Decision.

(** How the snapshot classifies a pod (pod_info.getTaskStatus) and whether
    NodeInfo.AddTasksToNode accounts it on the node it names. *)
Inductive phase := PhPending | PhRunning | PhSucceeded | PhFailed | PhUnknown.
Definition task_status (ph : phase) (deleting on_node has_br gated : bool) : status :=
  match ph with
  | PhRunning => if deleting then Releasing else Running
  | PhPending => if deleting then Releasing
                 else if on_node then Bound
                 else if has_br then Binding
                 else if gated then Gated else Pending
  | PhUnknown => Unknown
  | PhSucceeded => Succeeded
  | PhFailed => Failed
  end.
(** a pod that sits on a node, or is being bound to one, and has not finished *)
Definition occupies (ph : phase) (on_node has_br : bool) : bool :=
  (on_node || has_br) && match ph with PhPending | PhRunning => true | _ => false end.
Record scase := mkSC { sc_phase : phase; sc_del : bool; sc_node : bool; sc_br : bool; sc_gated : bool;
                       sc_status : status; sc_accounted : bool }.

(** [FDecision]: a GPU-group choice of the real GetNodePreferableGpuForSharing (Run/Decision.v): a choice
    that is not marked as releasing leads to a Bind, so it must not stand on devices or device memory
    that terminating pods still hold. *)
Inductive c01case := FCycle (k : ccase) | FFault (k : ccase) | FStatus (c : scase) | FDecision (d : dcase).

Definition guards_ok (k : ccase) : bool :=
  match replay (c_tasks k) (c_nodes k) (c_calls k) with
  | Some (_, ok) => ok
  | None => false
  end.

(** For fault cycles no correspondence is claimed: after a failed Evict the statement's
    later nominations stand on capacity that is not released, after a failed Bind the
    un-emitted operations stay applied.  Only successful BINDS must stay admissible w.r.t.
    the devices and the monitor must hold. *)
Definition model_agrees (c : c01case) : bool :=
  match c with
  | FCycle k => cycle_agrees k
  | FFault k => true
  | FStatus c => status_eqb (task_status (sc_phase c) (sc_del c) (sc_node c) (sc_br c) (sc_gated c)) (sc_status c)
                 && Bool.eqb (sc_accounted c) ((sc_node c || sc_br c) && active_used (sc_status c))
  | FDecision d => decision_agrees d
  end.
Definition monitor_ok (c : c01case) : bool :=
  match c with
  | FCycle k => c01_ok k
  | FFault k => c01_ok k
  | FStatus c => negb (occupies (sc_phase c) (sc_node c) (sc_br c)) || sc_accounted c
  | FDecision d => decision_monitor d
  end.
Definition run_mismatches (cs : list (nat * c01case)) : list nat := failing (fun k => negb (model_agrees k)) cs.
Definition run_monitor (cs : list (nat * c01case)) : list nat := failing (fun k => negb (monitor_ok k)) cs.
Definition run_flags (cs : list (nat * c01case)) : list (nat * list nat) :=
  filter (fun p => negb (Nat.eqb (List.length (snd p)) 0))
         (map (fun c => (fst c, match snd c with FCycle k => cycle_flags k | _ => [] end)) cs).
