(** C01: cycle-level refinement + monitor (Run/Cycle.v), plus cycles with
    injected Bind / Evict API failures.  In a fault cycle only the calls that
    succeeded are listed; the final books are not compared (a failed commit
    leaves un-emitted operations applied for the rest of the cycle, which only
    withholds capacity), but every successful call must still be admissible and
    the monitor must hold. *)
From KaiV Require Export Run.Cycle Run.Decision Model.Snapshot Model.PodRequest.

(** How the snapshot classifies a pod (pod_info.getTaskStatus: [task_status], Model/Snapshot.v) and whether
    NodeInfo.AddTasksToNode accounts it on the node it names. *)
(** a pod that sits on a node, or is being bound to one, and has not finished *)
Definition occupies (ph : phase) (on_node has_br : bool) : bool :=
  (on_node || has_br) && match ph with PhPending | PhRunning => true | _ => false end.
Record scase := mkSC { sc_phase : phase; sc_del : bool; sc_node : bool; sc_br : bool; sc_gated : bool;
                       sc_status : status; sc_accounted : bool }.

(** [FDecision]: a GPU-group choice of the real GetNodePreferableGpuForSharing (Run/Decision.v): a choice
    that is not marked as releasing leads to a Bind, so it must not stand on devices or device memory
    that terminating pods still hold. *)

(** [FSnapshot]: an API world (nodes, pods, BindRequests) handed to the real scheduler cache over fake clientsets.
    [sn_obs] / [sn_pods]: the books of every node and the status and node of every pod, read off the real
    ClusterInfo.Snapshot the moment the session took it; [sn_calls]: the Bind (those that the real Cache.Bind
    accepted) and TaskPipelined calls of one real allocate action on that session. *)
Record snapcase := mkSN {
  sn_world : world;
  sn_obs : amap obs;
  sn_pods : list (positive * (status * option positive));
  sn_calls : list call;
}.

Definition opt_pos_eqb (a b : option positive) : bool :=
  match a, b with Some x, Some y => Pos.eqb x y | None, None => true | _, _ => false end.

(** the pods of the world as the session holds them after the (model) snapshot *)
Definition snap_tis (w : world) : list tinfo :=
  map (fun p => let tn := snap_task false w p in mkTI (fst tn) 1%positive (snd tn)) (w_pods w).

(** correspondence: the model snapshot has the books and the pod classification of the real one, the struct and
    vector forms of the real books agree, and every Bind of the allocate action passes the model's guard in the
    model snapshot (replayed in order, Run/Cycle.v). *)
Definition snapshot_agrees (s : snapcase) : bool :=
  let w := sn_world s in
  amap_eqb2 obs_matches (snapshot w) (sn_obs s)
  && forallb (fun ko => let o := snd ko in req (o_idle o) (o_idle_v o) && req (o_used o) (o_used_v o) && req (o_rel o) (o_rel_v o)) (sn_obs s)
  && list_eqb (fun a b => Pos.eqb (fst a) (fst b) && status_eqb (fst (snd a)) (fst (snd b)) && opt_pos_eqb (snd (snd a)) (snd (snd b)))
              (snap_pods false w) (sn_pods s)
  && match replay (snap_tis w) (snapshot w) (sn_calls s) with
     | Some (_, ok) => ok
     | None => false
     end.

(** the books a real node reported, as a node *)
Definition node_of_obs (n0 : node) (o : obs) : node :=
  mkNode (n_alloc n0) (o_idle o) (o_used o) (o_rel o) (n_ngpu n0) (n_gpumem n0) [] (o_gused o) (o_galloc o) (o_grel o) [].

(** pods the allocate action bound to [nid], with the groups it bound them to *)
Definition snap_bound_on (s : snapcase) (nid : positive) : list task :=
  flat_map (fun c => match c with
                     | CBind p n gs =>
                         if Pos.eqb n nid then
                           match find (fun q => Pos.eqb (wp_id q) p) (w_pods (sn_world s)) with
                           | Some q => [set_status (wp_task q) Allocated gs]
                           | None => []
                           end
                         else []
                     | _ => []
                     end) (sn_calls s).
Definition snap_binds (s : snapcase) : list (positive * positive) :=
  flat_map (fun c => match c with CBind p n _ => [(p, n)] | _ => [] end) (sn_calls s).

(** The monitor reads the world (who occupies what: [occupants], Model/Snapshot.v, defined from the API objects
    alone), the real books and the real calls:
    (a) every occupying pod is charged to its node and nothing else is: the real books of every node equal the
        recomputation from its occupants (used, idle = allocatable - occupants, releasing = terminating occupants,
        memory per shared device, whole devices);
    (b) after the allocate action, on every node and for every resource, what the occupants ask for plus what was
        bound stays within the allocatable amount (whole devices and memory per shared device included);
    (c) every Bind names a pod and a node of the world, at most once per pod. *)
Definition snap_node_charged (s : snapcase) (nid : positive) (n0 : node) : bool :=
  match alookup nid (sn_obs s) with
  | Some o => books_ok true (node_of_obs n0 o) (occupants (sn_world s) nid)
  | None => false
  end.
Definition snap_node_within (s : snapcase) (nid : positive) (n0 : node) : bool :=
  let ts := occupants (sn_world s) nid ++ snap_bound_on s nid in
  let demand := rsum (map charge ts) in
  let gs := nodup_pos (all_groups ts) in
  (cpu demand <=? cpu (n_alloc n0)) && (mem demand <=? mem (n_alloc n0))
  && (gpu demand <=? gpu (n_alloc n0)) && (pods demand <=? pods (n_alloc n0))
  && (mig demand <=? mig (n_alloc n0)) && (ext demand <=? ext (n_alloc n0))
  && (gpu demand + Z.of_nat (List.length (filter (fun g => 0 <? spec_gused g ts) gs)) <=? n_ngpu n0)
  && forallb (fun g => spec_gused g ts <=? n_gpumem n0) gs.
Definition snapshot_monitor (s : snapcase) : bool :=
  let w := sn_world s in
  forallb (fun kn => snap_node_charged s (fst kn) (snd kn)) (w_nodes w)
  && forallb (fun kn => snap_node_within s (fst kn) (snd kn)) (w_nodes w)
  && forallb (fun pn => existsb (fun q => Pos.eqb (wp_id q) (fst pn)) (w_pods w) && amem (snd pn) (w_nodes w)) (snap_binds s)
  && nodup_posb (map fst (snap_binds s)).

(** [FRequest]: a generated pod spec (regular containers, init containers - flagged when restartable, i.e. sidecars -
    and overhead, in the model's units), the request the scheduler reads for it ([rq_reading]:
    pod_info.NewTaskInfo(pod).ResReq), the request by the upstream Kubernetes helper ([rq_reference]:
    k8s.io/component-helpers/resource.PodRequests, plus one pod slot) and, for some pods, a packing world
    ([rq_pack]: a node whose allocatable is a multiple of the reference request, [pk_pods] identical pending pods,
    [pk_bound] of them bound by one real allocate action). *)
Record packing := mkPK { pk_alloc : res; pk_bound : Z; pk_pods : Z }.
Record reqcase := mkRQ {
  rq_conts : list res; rq_inits : list (bool * res); rq_overhead : res;
  rq_reading : res; rq_reference : res; rq_pack : option packing;
}.
Definition rq_spec (r : reqcase) : podspec := mkPS (rq_conts r) (map snd (rq_inits r)) (rq_overhead r).
Definition rq_sidecar (r : reqcase) : bool := existsb fst (rq_inits r).
Definition rscale (k : Z) (r : res) : res := mkRes (k * cpu r) (k * mem r) (k * gpu r) (k * pods r) (k * mig r) (k * ext r).
Definition rle_all (a b : res) : bool :=
  (cpu a <=? cpu b) && (mem a <=? mem b) && (gpu a <=? gpu b) && (pods a <=? pods b) && (mig a <=? mig b) && (ext a <=? ext b).
(** the bound pods, each counted with [unit], fit the node *)
Definition packing_within (r : reqcase) (unit : res) : bool :=
  match rq_pack r with
  | Some k => rle_all (rscale (pk_bound k) unit) (pk_alloc k) && (0 <=? pk_bound k) && (pk_bound k <=? pk_pods k)
  | None => true
  end.
(** correspondence: the scheduler's reading is the model of the Kubernetes rule ([k8s_request]: a restartable init
    container - a sidecar - is added to the regular containers, and every later init container runs on top of the
    sidecars started before it; equal to [pod_request], i.e. [booked], without sidecars: k8s_request_no_sidecar) plus
    the pod slot, and so is the upstream helper's answer; the binds of the packing world fit the node in the
    scheduler's own units.  Before the repair of C01-sidecar-init-containers-under-read getPodResourceRequest
    treated every init container, restartable or not, as an ordinary one ([booked] of the spec with the flags
    dropped). *)
Definition request_agrees (r : reqcase) : bool :=
  req (radd (k8s_request (rq_conts r) (rq_inits r) (rq_overhead r)) one_pod_slot) (rq_reading r)
  && req (radd (k8s_request (rq_conts r) (rq_inits r) (rq_overhead r)) one_pod_slot) (rq_reference r)
  && packing_within r (rq_reading r).
(** monitor: the scheduler reads exactly the Kubernetes request, for every resource, and the pods bound in the
    packing world, counted with their Kubernetes request, fit the node - for every pod, with or without restartable
    init containers. *)
Definition request_holds (r : reqcase) : bool :=
  req (rq_reading r) (rq_reference r) && packing_within r (rq_reference r).
Definition request_monitor (r : reqcase) : bool := request_holds r.
Definition request_flags (r : reqcase) : list nat := [].

Inductive c01case := FCycle (k : ccase) | FFault (k : ccase) | FStatus (c : scase) | FDecision (d : dcase)
                   | FSnapshot (s : snapcase) | FRequest (r : reqcase).

Definition guards_ok (k : ccase) : bool :=
  match replay (c_tasks k) (c_nodes k) (c_calls k) with
  | Some (_, ok) => ok
  | None => false
  end.

(** For fault cycles no correspondence is claimed: after a failed Evict the statement's
    later nominations stand on capacity that is not released, after a failed Bind the
    un-emitted operations stay applied.  Only successful BINDS must stay admissible w.r.t.
    the devices and the monitor must hold. *)
Definition model_agrees (c : c01case) : bool :=
  match c with
  | FCycle k => cycle_agrees k
  | FFault k => true
  | FStatus c => status_eqb (task_status (sc_phase c) (sc_del c) (sc_node c) (sc_br c) (sc_gated c)) (sc_status c)
                 && Bool.eqb (sc_accounted c) ((sc_node c || sc_br c) && active_used (sc_status c))
  | FDecision d => decision_agrees d
  | FSnapshot s => snapshot_agrees s
  | FRequest r => request_agrees r
  end.
Definition monitor_ok (c : c01case) : bool :=
  match c with
  | FCycle k => c01_ok k
  | FFault k => c01_ok k
  | FStatus c => negb (occupies (sc_phase c) (sc_node c) (sc_br c)) || sc_accounted c
  | FDecision d => decision_monitor d
  | FSnapshot s => snapshot_monitor s
  | FRequest r => request_monitor r
  end.
Definition run_mismatches (cs : list (nat * c01case)) : list nat := failing (fun k => negb (model_agrees k)) cs.
Definition run_monitor (cs : list (nat * c01case)) : list nat := failing (fun k => negb (monitor_ok k)) cs.
Definition run_flags (cs : list (nat * c01case)) : list (nat * list nat) :=
  filter (fun p => negb (Nat.eqb (List.length (snd p)) 0))
         (map (fun c => (fst c, match snd c with FCycle k => cycle_flags k | FRequest r => request_flags r | _ => [] end)) cs).
