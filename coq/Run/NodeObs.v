(** Observables of a real NodeInfo and their comparison with a model node
    (shared by the node-level and cycle-level correspondence checks). *)
From KaiV Require Export Run.Prelude Model.Res Model.Status Model.AMap Model.Node Model.NodeSpec.
Open Scope Z_scope.

(** What the harness reads off a real NodeInfo after each operation. *)
Record obs := mkObs {
  o_idle : res; o_used : res; o_rel : res;
  o_idle_v : res; o_used_v : res; o_rel_v : res;       (* vector representation *)
  o_pods : amap (status * list positive);
  o_gused : amap Z; o_galloc : amap Z; o_grel : amap Z;
  o_gmark : list positive;
}.

Definition list_eqb {A} (e : A -> A -> bool) := fix go (a b : list A) : bool :=
  match a, b with
  | [], [] => true
  | x :: r, y :: s => e x y && go r s
  | _, _ => false
  end.

Definition zmap_ext_eqb (a b : amap Z) : bool :=
  forallb (fun k => zget k a =? zget k b) (akeys a ++ akeys b).
Definition zmap_keys_eqb (a b : amap Z) : bool := list_eqb Pos.eqb (akeys a) (akeys b).

Definition obs_matches_gen (seq : status -> status -> bool) (meq : amap Z -> amap Z -> bool) (n : node) (o : obs) : bool :=
  req (n_idle n) (o_idle o) && req (n_used n) (o_used o) && req (n_rel n) (o_rel o)
  && amap_eqb2 (fun t so => seq (t_status t) (fst so) && list_eqb Pos.eqb (t_groups t) (snd so))
              (n_pods n) (o_pods o)
  && meq (g_used n) (o_gused o) && meq (g_alloc n) (o_galloc o)
  && meq (g_rel n) (o_grel o)
  && list_eqb Pos.eqb (akeys (g_mark n)) (o_gmark o).


Definition obs_matches := obs_matches_gen status_eqb (amap_eqb Z.eqb).

(** Allocated and Binding are the same accounting class; a node's copy of a pod
    bound in this cycle carries one or the other depending on whether a later
    simulation touched it. *)
Definition bind_norm (s : status) : status := match s with Binding => Allocated | x => x end.
(** Discarded simulations leave zero-valued entries in the per-group maps (Go's
    [m[k] -= x] keeps the key); the cycle-level comparison is extensional. *)
Definition obs_matches_cycle :=
  obs_matches_gen (fun a b => status_eqb (bind_norm a) (bind_norm b)) zmap_ext_eqb.

(** the same comparison without the whole-GPU idle/releasing counts and the releasing marks *)
Definition obs_matches_cycle_nogpu (n : node) (o : obs) : bool :=
  let n' := mkNode (n_alloc n) (with_gpu (n_idle n) (gpu (o_idle o))) (n_used n) (with_gpu (n_rel n) (gpu (o_rel o)))
                   (n_ngpu n) (n_gpumem n) (n_pods n) (g_used n) (g_alloc n) (g_rel n)
                   (map (fun g => (g, tt)) (o_gmark o)) in
  obs_matches_cycle n' o.
