(** Correspondence + monitor entry points for C20 (used by generated cases).

    Three kinds of case:
    - [CasePG]  a history of one pod group on the real PodGroupReconciler
                (fake client): per step the inputs after the step's change and
                what two consecutive Reconcile calls left behind;
    - [CaseQ]   a queue forest with pod groups on the real QueueReconciler:
                reconcile passes in the generated order with the status seen
                after every single Reconcile, the stored queues after the
                passes, and one more pass;
    - [CaseOp]  the real DeployableOperands.Deploy run three times, either on a
                table-driven synthetic operand (model comparison) or on the
                real operands of the config controller (monitor only);
    - [CaseW]   a HISTORY on one store holding priority classes, pods, pod
                groups and a queue forest, driven through the real
                PodGroupReconciler and the real QueueReconciler: per step some
                changes (preemptibility flips by spec / priority class with no
                other change, pods, spec.queue, re-parenting, queues created
                and deleted), then targeted reconciles of the touched pod
                group, its queue and all ancestors in various orders, then
                full passes (every pod group and every queue) until a pass
                writes nothing; per Reconcile: the object's stored status
                afterwards and whether a stored object changed.

    WHAT "UNCHANGED" MEANS (clause 3, "reconciling again without change leaves
    every object unchanged").  The observable is the STORED OBJECT, not the API
    traffic: the harness reads the object (all objects of the kind, for queues)
    before and after every mutating client call, renders it without
    resourceVersion / managedFields, and counts a call as a write only when
    that rendering differs ([o_writes], [o_writes2], [e_wrote]; for the
    operator the calls themselves are the observable because every
    Create/Update/Delete of Deploy replaces an object).  Consequences, chosen
    on purpose:
    - ShouldUpdatePodGroupStatus compares resource.Quantity internals with
      reflect.DeepEqual (a quantity read back from the store and the same
      quantity just computed differ in their cached string / scale), so most
      idle second reconciles of a pod group still send a status PATCH whose
      merge patch is empty.  The stored object does not change, clause 3 as
      written holds, [o_writes2 = 0]: NO violation.  The number of such calls
      is only counted (stat "pg:second-reconcile-mutating-calls").
    - the queue controller patches the status unconditionally; an empty patch
      is likewise not a write ([e_wrote = false]).
    - a PATCH that does change the stored object on an idle second reconcile IS
      a violation ([o_writes2 > 0] / [e_wrote] on an immediate repeat or in the
      check pass).

    SCOPE OF THE QUEUE MONITOR.  C20 quantifies over queue TREES.  A queue that
    (transitively) names itself as parent is not a tree; such a queue grows by
    its own status on every reconcile (Properties/C20.v,
    C20_idempotent_queue_needs_acyclic) and no admission check rejects it.
    These inputs come only from the harness's stream labelled "malformed"
    (label "queue malformed ...", wellformed=false; the driver refuses to emit
    an ill-formed forest under any other origin).  [q_monitor] decides
    well-formedness itself ([wf_forest], independent of the label) and does not
    alarm outside it; [model_agrees] is still evaluated on them, so the model
    keeps describing what the controller does there. *)
From KaiV Require Export Run.Prelude Model.StatusAgg Model.StatusAggSpec Model.Operator.
Open Scope Z_scope.

(** vectors are compared up to trailing zeros *)
Definition vtrim (v : vec) : vec :=
  fold_right (fun x acc => match acc with [] => if x =? 0 then [] else [x] | _ => x :: acc end) [] v.
Definition veq (a b : vec) : bool := vec_eqb (vtrim a) (vtrim b).
Definition req (a b : rstatus) : bool :=
  veq (s_alloc a) (s_alloc b) && veq (s_anp a) (s_anp b) && veq (s_req a) (s_req b).

(** * Pod-group histories *)

Record pg_obs := {
  o_classes : list prioclass;
  o_pods : list pod;
  o_spec : pspec;
  o_prio : positive;
  o_err : bool; o_status : rstatus; o_writes : nat;     (* first Reconcile *)
  o_err2 : bool; o_status2 : rstatus; o_writes2 : nat;  (* second Reconcile, nothing changed in between *)
}.

Record pg_case := { pk_init : rstatus; pk_steps : list pg_obs }.

Definition expect_writes (new old : rstatus) : nat := if req new old then 0%nat else 1%nat.

Definition pg_step_agrees (prev : rstatus) (o : pg_obs) : bool :=
  let g := {| g_spec := o_spec o; g_prio_class := o_prio o; g_status := prev |} in
  match pg_reconcile (o_classes o) (o_pods o) g with
  | None =>
      o_err o && req (o_status o) prev && Nat.eqb (o_writes o) 0
      && o_err2 o && req (o_status2 o) prev && Nat.eqb (o_writes2 o) 0
  | Some st =>
      negb (o_err o) && req st (o_status o) && Nat.eqb (o_writes o) (expect_writes st prev)
      && match pg_reconcile (o_classes o) (o_pods o) (set_status g (o_status o)) with
         | None => false
         | Some st2 => negb (o_err2 o) && req st2 (o_status2 o)
                       && Nat.eqb (o_writes2 o) (expect_writes st2 (o_status o))
         end
  end.

Fixpoint pg_agrees (prev : rstatus) (steps : list pg_obs) : bool :=
  match steps with
  | [] => true
  | o :: r => pg_step_agrees prev o && pg_agrees (o_status2 o) r
  end.

(** clause 1 and clause 3 on what the real controller stored *)
Definition pg_step_monitor (o : pg_obs) : bool :=
  if o_err o then true
  else
    let pre := calc_preemptible (o_spec o) (get_priority (o_classes o) (o_prio o)) in
    req (o_status o) (true_pg_status pre (o_pods o))
    && negb (o_err2 o) && Nat.eqb (o_writes2 o) 0 && req (o_status2 o) (o_status o).

(** * Queue forests *)

Record q_event := {
  e_name : positive;
  e_found : bool;             (* a queue of that name exists *)
  e_status : rstatus;         (* its status after the Reconcile *)
  e_children : list positive; (* status.childQueues after the Reconcile, sorted *)
  e_wrote : bool;             (* the stored object changed *)
}.

Record q_case := {
  qk_cluster : cluster;
  qk_passes : list (list q_event);
  qk_final : list queue;      (* stored queues after the passes *)
  qk_check : list q_event;    (* one more pass afterwards *)
}.

Definition event_agrees (c : cluster) (e : q_event) : bool :=
  let c' := q_reconcile (e_name e) c in
  match find_queue (e_name e) (c_queues c') with
  | None => negb (e_found e) && negb (e_wrote e)
  | Some q => e_found e && req (q_status q) (e_status e)
              && pos_list_eqb (q_children q) (e_children e)
              && Bool.eqb (q_writes (e_name e) c) (e_wrote e)
  end.

Fixpoint events_agree (c : cluster) (evs : list q_event) : bool * cluster :=
  match evs with
  | [] => (true, c)
  | e :: r => let (ok, c') := events_agree (q_reconcile (e_name e) c) r in
              (event_agrees c e && ok, c')
  end.

Definition queue_same (a b : queue) : bool :=
  Pos.eqb (q_name a) (q_name b) && req (q_status a) (q_status b)
  && pos_list_eqb (q_children a) (q_children b).

Fixpoint queues_same (a b : list queue) : bool :=
  match a, b with
  | [], [] => true
  | x :: a', y :: b' => queue_same x y && queues_same a' b'
  | _, _ => false
  end.

Definition q_agrees (k : q_case) : bool :=
  let (ok1, c1) := events_agree (qk_cluster k) (List.concat (qk_passes k)) in
  let (ok2, _) := events_agree c1 (qk_check k) in
  ok1 && queues_same (c_queues c1) (qk_final k) && ok2.

Definition pass_is_full (qs : list queue) (pass : list q_event) : bool :=
  forallb (fun q => existsb (fun e => Pos.eqb (e_name e) (q_name q)) pass) qs.

Fixpoint no_write_on_repeat (pass : list q_event) : bool :=
  match pass with
  | e1 :: ((e2 :: _) as r) =>
      (if Pos.eqb (e_name e1) (e_name e2) then negb (e_wrote e2) else true) && no_write_on_repeat r
  | _ => true
  end.

(** clauses 2 and 3 on what the real controller stored: in a well-formed
    forest, after at least [height] full passes every queue reports the true
    aggregate and is locally consistent, and one more pass writes nothing;
    reconciling the same queue twice in a row writes nothing the second time *)
Definition q_monitor (k : q_case) : bool :=
  let c := qk_cluster k in
  let qs := c_queues c in
  if wf_forest qs then
    forallb no_write_on_repeat (qk_passes k)
    && (if forallb (pass_is_full qs) (qk_passes k) && Nat.leb (height qs) (List.length (qk_passes k)) then
          let cf := {| c_queues := qk_final k; c_pgs := c_pgs c |} in
          forallb (fun q => req (q_status q) (true_agg c (q_name q))
                            && req (q_status q) (radd (own_pgs_sum cf (q_name q)) (children_sum cf (q_name q)))
                            && pos_list_eqb (q_children q) (child_names (q_name q) (qk_final k)))
                  (qk_final k)
          && Nat.eqb (List.length (qk_final k)) (List.length qs)
          && forallb (fun e => negb (e_wrote e)) (qk_check k)
        else true)
  else true.

(** * Histories on one store (both status controllers) *)

Record w_obs := {
  wo_ev : wevent;              (* WRecGroup i / WRecQueue n *)
  wo_found : bool;             (* the object exists *)
  wo_err : bool;               (* Reconcile returned an error (or panicked) *)
  wo_status : rstatus;         (* the object's stored status after the Reconcile *)
  wo_children : list positive; (* queue: status.childQueues afterwards, sorted *)
  wo_wrote : bool;             (* a stored pod group / queue changed *)
}.

Record w_step_obs := { ws_changes : list wchange; ws_passes : list (list w_obs) }.

Record w_case := { wk_init : world; wk_steps : list w_step_obs }.

(** ** correspondence: the model threads its own store *)

Definition w_obs_agrees (w : world) (o : w_obs) : bool :=
  let w' := w_step (wo_ev o) w in
  match wo_ev o with
  | WChange _ => false
  | WRecGroup i =>
      match nth_error (w_groups w) i, nth_error (w_groups w') i with
      | Some g, Some g' =>
          wo_found o && Bool.eqb (w_event_errs anp_rule (wo_ev o) w) (wo_err o)
          && req (g_status (wg_pg g')) (wo_status o)
          && Bool.eqb (negb (req (g_status (wg_pg g')) (g_status (wg_pg g)))) (wo_wrote o)
      | _, _ => negb (wo_found o) && negb (wo_wrote o)
      end
  | WRecQueue n =>
      match find_queue n (w_queues w') with
      | None => negb (wo_found o) && negb (wo_wrote o)
      | Some q => wo_found o && negb (wo_err o) && req (q_status q) (wo_status o)
                  && pos_list_eqb (q_children q) (wo_children o)
                  && Bool.eqb (w_event_writes (wo_ev o) w) (wo_wrote o)
      end
  end.

Fixpoint w_pass_agrees (w : world) (pass : list w_obs) : bool * world :=
  match pass with
  | [] => (true, w)
  | o :: r => let (ok, w') := w_pass_agrees (w_step (wo_ev o) w) r in (w_obs_agrees w o && ok, w')
  end.

Fixpoint w_passes_agree (w : world) (passes : list (list w_obs)) : bool * world :=
  match passes with
  | [] => (true, w)
  | p :: r => let (ok1, w1) := w_pass_agrees w p in
              let (ok2, w2) := w_passes_agree w1 r in (ok1 && ok2, w2)
  end.

Definition apply_changes (chs : list wchange) (w : world) : world :=
  fold_left (fun w ch => w_apply ch w) chs w.

Fixpoint w_steps_agree (w : world) (steps : list w_step_obs) : bool :=
  match steps with
  | [] => true
  | s :: r => let (ok, w') := w_passes_agree (apply_changes (ws_changes s) w) (ws_passes s) in
              ok && w_steps_agree w' r
  end.

(** ** monitor: inputs from the changes, STORED VALUES FROM THE OBSERVATIONS *)

Definition obs_apply (o : w_obs) (w : world) : world :=
  match wo_ev o with
  | WChange _ => w
  | WRecGroup i =>
      with_groups w (upd_nth i (wg_set_pg (fun g => set_status g (wo_status o))) (w_groups w))
  | WRecQueue n =>
      with_queues w (map (fun q => if Pos.eqb (q_name q) n
                                   then {| q_name := q_name q; q_parent := q_parent q;
                                           q_status := wo_status o; q_children := wo_children o |}
                                   else q) (w_queues w))
  end.

(** EVERY field of a queue's status against the truth recomputed from the pods
    by phase and the pod groups' CURRENT preemptibility, at every level *)
Definition queue_truthful (w : world) (q : queue) : bool :=
  let t := w_truth w (q_name q) in
  veq (s_alloc (q_status q)) (s_alloc t)
  && veq (s_anp (q_status q)) (s_anp t)
  && veq (s_req (q_status q)) (s_req t)
  && pos_list_eqb (q_children q) (child_names (q_name q) (w_queues w)).

Definition group_truthful (w : world) (g : wgroup) : bool :=
  req (g_status (wg_pg g)) (wg_truth (w_classes w) g).

Definition queues_truthful (w : world) : bool := forallb (queue_truthful w) (w_queues w).
Definition world_truthful (w : world) : bool :=
  queues_truthful w && forallb (group_truthful w) (w_groups w).

(** one Reconcile against the stored state before it: the object afterwards
    holds what it is locally supposed to (pod group: the truth; queue: Σ own pod
    groups + Σ children as stored, and the list of its children), and a stored
    object changed iff it differed from that in ANY field *)
Definition w_obs_ok (w : world) (o : w_obs) : bool :=
  match wo_ev o with
  | WChange _ => false
  | WRecGroup i =>
      match nth_error (w_groups w) i with
      | None => negb (wo_wrote o)
      | Some g =>
          if wo_err o then negb (wo_wrote o) && req (wo_status o) (g_status (wg_pg g))
          else let t := wg_truth (w_classes w) g in
               req (wo_status o) t && Bool.eqb (wo_wrote o) (negb (req (g_status (wg_pg g)) t))
      end
  | WRecQueue n =>
      match find_queue n (w_queues w) with
      | None => negb (wo_wrote o)
      | Some q =>
          let cl := w_cluster w in
          let loc := radd (own_pgs_sum cl n) (children_sum cl n) in
          let kids := child_names n (w_queues w) in
          let differs := negb (veq (s_alloc (q_status q)) (s_alloc loc))
                         || negb (veq (s_anp (q_status q)) (s_anp loc))
                         || negb (veq (s_req (q_status q)) (s_req loc))
                         || negb (pos_list_eqb (q_children q) kids) in
          negb (wo_err o) && req (wo_status o) loc && pos_list_eqb (wo_children o) kids
          && Bool.eqb (wo_wrote o) differs
      end
  end.

Fixpoint w_pass_monitor (w : world) (pass : list w_obs) : bool * world :=
  match pass with
  | [] => (true, w)
  | o :: r => let (ok, w') := w_pass_monitor (obs_apply o w) r in (w_obs_ok w o && ok, w')
  end.

Definition w_pass_is_full (w : world) (pass : list w_obs) : bool :=
  forallb (fun i => existsb (fun o => match wo_ev o with WRecGroup j => Nat.eqb i j | _ => false end) pass)
          (seq 0 (List.length (w_groups w)))
  && forallb (fun q => existsb (fun o => match wo_ev o with WRecQueue n => Pos.eqb n (q_name q) | _ => false end) pass)
             (w_queues w).

Definition pass_quiet (pass : list w_obs) : bool := forallb (fun o => negb (wo_wrote o) && negb (wo_err o)) pass.

(** a full pass that starts while some queue reports a stale field must write
    (C20_queue_stale_forces_write) *)
Fixpoint w_passes_monitor (w : world) (passes : list (list w_obs)) : bool * world :=
  match passes with
  | [] => (true, w)
  | p :: r =>
      let c_ok := if w_pass_is_full w p && negb (queues_truthful w) then negb (pass_quiet p) else true in
      let (d_ok, w1) := w_pass_monitor w p in
      let (rest_ok, w2) := w_passes_monitor w1 r in
      (c_ok && d_ok && rest_ok, w2)
  end.

(** per step, in a well-formed forest: every Reconcile is locally right; the
    step's last pass is a full pass that writes nothing (the driver runs full
    passes until one is quiet, at most height + 3: C20_queue_passes_le_height),
    and after it every pod group and every queue reports the truth in every
    field.  Steps with a failing pod-group Reconcile are outside the theorems'
    hypotheses: only the per-Reconcile clause applies to them *)
Definition w_step_monitor (w : world) (s : w_step_obs) : bool * world :=
  let w0 := apply_changes (ws_changes s) w in
  let (ok, w1) := w_passes_monitor w0 (ws_passes s) in
  let errs := existsb (existsb wo_err) (ws_passes s) in
  let lastp := last (ws_passes s) [] in
  let settled := w_pass_is_full w0 lastp && pass_quiet lastp && world_truthful w1 in
  (if wf_forest (w_queues w0) then ok && (errs || settled) else true, w1).

Fixpoint w_steps_monitor (w : world) (steps : list w_step_obs) : bool :=
  match steps with
  | [] => true
  | s :: r => let (ok, w') := w_step_monitor w s in ok && w_steps_monitor w' r
  end.

(** * Operator Deploy *)

Record op_case := {
  ok_real : bool;                              (* real operands: monitor only *)
  ok_render : list (positive * list (option Z * Z));  (* per key: stored object -> rendered object *)
  ok_written : list (Z * Z);                   (* written object -> object read back *)
  ok_owned : list Z;                           (* objects the collectables return *)
  ok_store0 : list (positive * Z);
  ok_calls : list (list call);                 (* calls of the 1st, 2nd, 3rd Deploy *)
  ok_final : list (positive * Z);              (* store after the last Deploy *)
}.

Definition oz_eqb (a b : option Z) : bool :=
  match a, b with Some x, Some y => x =? y | None, None => true | _, _ => false end.

Fixpoint assoc_z (x : Z) (t : list (Z * Z)) : option Z :=
  match t with [] => None | (a, b) :: r => if a =? x then Some b else assoc_z x r end.

Fixpoint assoc_oz (x : option Z) (t : list (option Z * Z)) : option Z :=
  match t with [] => None | (a, b) :: r => if oz_eqb a x then Some b else assoc_oz x r end.

(** unknown table entries evaluate to objects that equal nothing the harness emits *)
Definition tbl_norm (t : list (Z * Z)) (x : Z) : Z := match assoc_z x t with Some y => y | None => -1 end.
Definition tbl_renderer (t : list (option Z * Z)) : renderer Z :=
  fun b => match assoc_oz b t with Some y => y | None => -2 end.

Definition op_renderers (k : op_case) : list (positive * renderer Z) :=
  map (fun kt => (fst kt, tbl_renderer (snd kt))) (ok_render k).

Definition op_deploy (k : op_case) (s : store Z) : list call * store Z :=
  deploy_rendered Z Z.eqb (fun o => o) (tbl_norm (ok_written k)) (fun _ o => o)
                  (fun _ c => existsb (Z.eqb c) (ok_owned k)) (fun _ => false)
                  (op_renderers k) s.

Definition call_eqb (a b : call) : bool :=
  match a, b with
  | CCreate x, CCreate y | CUpdate x, CUpdate y | CDelete x, CDelete y => Pos.eqb x y
  | _, _ => false
  end.
Definition count_call (c : call) (l : list call) : nat := List.length (filter (call_eqb c) l).
Definition same_calls (a b : list call) : bool :=
  Nat.eqb (List.length a) (List.length b) && forallb (fun c => Nat.eqb (count_call c a) (count_call c b)) a.

Fixpoint op_run (k : op_case) (n : nat) (s : store Z) : list (list call) * store Z :=
  match n with
  | O => ([], s)
  | S m => let (cs, s') := op_deploy k s in
           let (rest, sf) := op_run k m s' in (cs :: rest, sf)
  end.

Fixpoint calls_agree (a b : list (list call)) : bool :=
  match a, b with
  | [], [] => true
  | x :: a', y :: b' => same_calls x y && calls_agree a' b'
  | _, _ => false
  end.

(** stores are compared by their key sets: the resource version makes the
    read-back of an object depend on how often it was written *)
Definition keys_sub (a b : store Z) : bool :=
  forallb (fun kv => match lookup Z (fst kv) b with Some _ => true | None => false end) a.
Definition same_store (a b : store Z) : bool :=
  Nat.eqb (List.length a) (List.length b) && keys_sub a b && keys_sub b a.

Definition op_agrees (k : op_case) : bool :=
  if ok_real k then true
  else let (cs, sf) := op_run k (List.length (ok_calls k)) (ok_store0 k) in
       calls_agree cs (ok_calls k) && same_store sf (ok_final k).

Definition is_nil {A} (l : list A) : bool := match l with [] => true | _ => false end.

(** the right-hand side of C20_operator_fixpoint evaluated on the recorded
    tables: per key, the rendering was already in place, or re-rendering on top
    of the read-back of what was written reproduces the read-back *)
Definition all_normal (k : op_case) : bool :=
  forallb (fun kt =>
             let r := tbl_renderer (snd kt) in
             let b := lookup Z (fst kt) (ok_store0 k) in
             let x := r b in
             match b with
             | Some c => existsb (Z.eqb c) (ok_owned k) && (c =? x)
             | None => false
             end
             || match assoc_z x (ok_written k) with
                | Some y => r (Some y) =? y
                | None => false
                end)
          (ok_render k).

(** the store after the Deploys holds every rendered key and nothing else that
    the operator owns (the result is determined by the configuration) *)
Definition op_converged (k : op_case) : bool :=
  forallb (fun kt => match lookup Z (fst kt) (ok_final k) with Some _ => true | None => false end) (ok_render k)
  && forallb (fun kv => negb (existsb (Z.eqb (snd kv)) (ok_owned k))
                        || existsb (fun kt => Pos.eqb (fst kt) (fst kv)) (ok_render k))
             (ok_final k).

(** clause 4 on the real calls: the real operands must be silent from the second
    Deploy on; for the synthetic operand the proved equivalence must hold and
    the store must have converged to the rendered set *)
Definition op_monitor (k : op_case) : bool :=
  match ok_calls k with
  | _ :: c2 :: rest =>
      if ok_real k then is_nil c2 && forallb is_nil rest
      else Bool.eqb (is_nil c2) (all_normal k) && op_converged k
  | _ => true
  end.

(** * Cases *)

Inductive case :=
| CasePG (k : pg_case)
| CaseQ (k : q_case)
| CaseOp (k : op_case)
| CaseW (k : w_case).

Definition model_agrees (k : case) : bool :=
  match k with
  | CasePG p => pg_agrees (pk_init p) (pk_steps p)
  | CaseQ q => q_agrees q
  | CaseOp o => op_agrees o
  | CaseW k => w_steps_agree (wk_init k) (wk_steps k)
  end.

Definition monitor_ok (k : case) : bool :=
  match k with
  | CasePG p => forallb pg_step_monitor (pk_steps p)
  | CaseQ q => q_monitor q
  | CaseOp o => op_monitor o
  | CaseW k => w_steps_monitor (wk_init k) (wk_steps k)
  end.

Definition run_mismatches (cs : list (nat * case)) : list nat := failing (fun k => negb (model_agrees k)) cs.
Definition run_monitor (cs : list (nat * case)) : list nat := failing (fun k => negb (monitor_ok k)) cs.
