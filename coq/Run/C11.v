(** Correspondence + monitor entry points for C11 (used by generated cases). *)
From KaiV Require Export Run.Prelude Model.Binder Model.BinderSpec.

Record case := {
  k_sc : scen;                       (* the request's spec + the pod's immutable parts + oracles *)
  k_init : store;                    (* projection of the real store before the reconcile *)
  k_faults : list (nat * fault);     (* injected: call number -> Fail / Crash (everything else Ok) *)
  k_dp : list (option nat);          (* the device plugin's answer to the k-th wait *)
  k_orders : list (list gid);        (* observed group order of the k-th SyncForNode *)
  (* observed on the real code *)
  k_log : list (cobs * outcome);     (* ordered API-call log *)
  k_final : store;                   (* projection of the real store after the reconcile *)
  k_requeue : nat;                   (* returned result: RequeueAfter (s) *)
  k_err : bool;                      (* returned error != nil *)
  k_hist : list nat;                 (* the consumer's server-side node after every call *)
  k_mark : option (nat * nat);       (* call numbers at which Binder.Rollback was entered / returned *)
  k_panicked : bool;
  (* a second, fault-free reconcile from the observed final store *)
  k_rec : option (store * bool)      (* its final store and returned error *)
}.

Fixpoint lookup_fault (l : list (nat * fault)) (k : nat) : fault :=
  match l with
  | [] => Ok
  | (i, f) :: r => if i =? k then f else lookup_fault r k
  end.
Fixpoint nth_opt {A} (l : list A) (k : nat) : option A :=
  match l, k with
  | [], _ => None
  | x :: _, O => Some x
  | _ :: r, S j => nth_opt r j
  end.
Definition dp_of (l : list (option nat)) (k : nat) : option nat :=
  match nth_opt l k with Some a => a | None => None end.
Definition ord_of (l : list (list gid)) (k : nat) : list gid :=
  match nth_opt l k with Some a => a | None => [] end.

Definition outcome_eqb (a b : outcome) : bool :=
  match a, b with OkO, OkO | ErrO, ErrO | FailO, FailO | CrashO, CrashO => true | _, _ => false end.
Definition lsel_eqb (a b : lsel) : bool :=
  match a, b with
  | LNode, LNode | LScaling, LScaling | LOther, LOther => true
  | LRsv x, LRsv y | LGroup x, LGroup y | LMulti x, LMulti y => x =? y
  | _, _ => false
  end.
Definition kop_eqb (a b : kop) : bool :=
  match a, b with
  | KSet x, KSet y | KDel x, KDel y => envkey_eqb x y
  | _, _ => false
  end.
Definition brphase_opt_att_eqb (a b : option nat) : bool := opt_nat_eqb a b.
Definition cobs_eqb (a b : cobs) : bool :=
  match a, b with
  | CGetBR, CGetBR | CGetNode, CGetNode | CDeleteBR, CDeleteBR => true
  | CGetPod x, CGetPod y | CDeletePod x, CDeletePod y => pref_eqb x y
  | CGetCM x, CGetCM y | CDeleteCM x, CDeleteCM y => cmref_eqb x y
  | CList x, CList y => lsel_eqb x y
  | CCreateRsv x, CCreateRsv y | CWatchRsv x, CWatchRsv y => x =? y
  | CCreateCM x o, CCreateCM y o' => cmref_eqb x y && Bool.eqb o o'
  | CPatchLabels p m, CPatchLabels p' m' => opt_nat_eqb p p' && list_nat_eqb m m'
  | CRemoveLabels p m, CRemoveLabels p' m' => Bool.eqb p p' && list_nat_eqb m m'
  | CPatchRecv t, CPatchRecv t' => rtype_eqb t t'
  | CPatchCM x o c ks, CPatchCM x' o' c' ks' =>
      cmref_eqb x x' && Bool.eqb o o' && Bool.eqb c c' && list_eqb kop_eqb ks ks'
  | CBind s, CBind s' => Bool.eqb s s'
  | CPatchBRStatus ph a, CPatchBRStatus ph' a' =>
      match ph, ph' with Some x, Some y => brphase_eqb x y | None, None => true | _, _ => false end && opt_nat_eqb a a'
  | CPatchPodCond x, CPatchPodCond y => Bool.eqb x y
  | _, _ => false
  end.
Definition entry_eqb (a b : cobs * outcome) : bool := cobs_eqb (fst a) (fst b) && outcome_eqb (snd a) (snd b).

(** canonical form of a store for comparison: pods by name, multi labels sorted *)
Fixpoint insert_pod (p : pod) (l : list pod) : list pod :=
  match l with
  | [] => [p]
  | q :: r => if p_name p <=? p_name q then p :: l else q :: insert_pod p r
  end.
Definition canon_pod (p : pod) : pod := with_labels p (p_plain p) (sort_nat (p_multi p)).
Definition canon (st : store) : store :=
  mkStore (canon_pod (self st)) (self_alive st) (fold_right insert_pod [] (map canon_pod (others st)))
          (cm_cap st) (cm_evar st) (br st) (node_ok st).

Definition run_case (k : case) : state * (nat * bool) :=
  run (k_sc k) (lookup_fault (k_faults k)) (dp_of (k_dp k)) (ord_of (k_orders k)) (k_init k).

Definition mark_eqb (s : state) (m : option (nat * nat)) : bool :=
  match s_mark s, m with
  | Some (a, _), Some (a', _) => a =? a'
  | None, None => true
  | _, _ => false
  end.

Definition model_agrees (k : case) : bool :=
  if k_panicked k then false else
  let '(s, (rq, e)) := run_case k in
  list_eqb entry_eqb (rev (s_log s)) (k_log k)
  && store_eqb (canon (s_store s)) (canon (k_final k))
  && (rq =? k_requeue k) && Bool.eqb e (k_err k)
  && list_nat_eqb (rev (s_hist s)) (k_hist k)
  && mark_eqb s (k_mark k).

(** ** The property evaluated on what the real code did *)
Definition is_injected (e : cobs * outcome) : bool :=
  match snd e with FailO | CrashO => true | _ => false end.
Definition has_crash (l : list (nat * fault)) (log : list (cobs * outcome)) : bool :=
  existsb (fun e => match snd e with CrashO => true | _ => false end) log.
Fixpoint slice {A} (l : list A) (from to : nat) : list A :=
  match l, from, to with
  | _, _, O => []
  | [], _, _ => []
  | x :: r, O, S t => x :: slice r O t
  | _ :: r, S f, S t => slice r f t
  end.
(** no injected failure among the calls issued inside Binder.Rollback *)
Definition obs_cleanup_unfaulted (k : case) : bool :=
  match k_mark k with
  | None => true
  | Some (a, b) => negb (existsb is_injected (slice (k_log k) a b))
  end.

(** could a fault-free attempt succeed at all (static oracles, well-formed request)? *)
Definition attemptable (k : case) : bool :=
  wf_shape (k_sc k) && sc_k8s_ok (k_sc k) && (if sc_fraction (k_sc k) then sc_cmann (k_sc k) else true)
  && node_ok (k_init k) && opt_is_some (br (k_init k)) && self_alive (k_init k)
  && pphase_eqb (p_phase (self (k_init k))) PhPending.

Definition init_succeeded (k : case) : bool :=
  match br (k_init k) with Some b => brphase_eqb (b_phase b) BSucceeded | None => false end.

Definition monitor_ok (k : case) : bool :=
  let init := canon (k_init k) in
  let fin := canon (k_final k) in
  let crashed := has_crash (k_faults k) (k_log k) in
  negb (k_panicked k)
  (* 1. all or nothing *)
  && (if attemptable k && unbound init && negb (init_succeeded k) then
        (bound fin && side_ok (k_sc k) fin)
        || (unbound fin && reported fin crashed (k_err k)
            && (if obs_cleanup_unfaulted k then clean init fin else true))
      else true)
  (* 2. never elsewhere, never twice *)
  && (if unbound init then forallb (fun n => (n =? 0) || (n =? 1)) (k_hist k) else true)
  && (binds (k_log k) <=? 1) && negb (existsb is_bind_elsewhere (k_log k))
  (* 3. no-op *)
  && (if init_succeeded k then store_eqb init fin && (List.length (k_log k) =? 1) else true)
  && (if self_alive init && negb (p_node (self init) =? 0)
      then same_binding_state init fin && (binds (k_log k) =? 0) else true)
  (* 4. recovery *)
  && match k_rec k with
     | Some (st2, e2) =>
         if attemptable k && unbound init && negb (init_succeeded k) && opt_is_some (br (k_final k))
         then bound (canon st2) && side_ok (k_sc k) (canon st2)
         else true
     | None => true
     end.

Definition run_mismatches (cs : list (nat * case)) : list nat := failing (fun k => negb (model_agrees k)) cs.
Definition run_monitor (cs : list (nat * case)) : list nat := failing (fun k => negb (monitor_ok k)) cs.
