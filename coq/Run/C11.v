(** Correspondence + monitor entry points for C11 (used by generated cases). *)
From KaiV Require Export Run.Prelude Model.Binder Model.BinderSpec.

Record case := {
  k_sc : scen;                       (* the request's spec + the pod's immutable parts + oracles *)
  k_init : store;                    (* projection of the real store before the reconcile *)
  k_faults : list (nat * fault);     (* injected: call number -> Fail <kind> / Crash (everything else Ok) *)
  k_env : list (nat * list estep);   (* other actors: call number -> what they did to the store right before that call *)
  k_dp : list (option nat);          (* the device plugin's answer to the k-th wait *)
  k_orders : list (list gid);        (* observed group order of the k-th SyncForNode *)
  (* observed on the real code *)
  k_log : list (cobs * outcome);     (* ordered API-call log *)
  k_final : store;                   (* projection of the real store after the reconcile *)
  k_requeue : nat;                   (* returned result: RequeueAfter (s) *)
  k_err : bool;                      (* returned error != nil *)
  k_hist : list nat;                 (* the consumer's server-side node after every call *)
  k_mark : option (nat * nat);       (* call numbers at which Binder.Rollback was entered / returned *)
  k_panicked : bool;
  (* afterwards, on the real store: bare reservation pods report their device, one fault-free
     resourcereservation Sync, then a fault-free second reconcile *)
  k_rec : option (store * bool)      (* the final store of that and the error the second reconcile returned *)
}.

Fixpoint lookup_fault (l : list (nat * fault)) (k : nat) : fault :=
  match l with
  | [] => Ok
  | (i, f) :: r => if i =? k then f else lookup_fault r k
  end.
Fixpoint nth_opt {A} (l : list A) (k : nat) : option A :=
  match l, k with
  | [], _ => None
  | x :: _, O => Some x
  | _ :: r, S j => nth_opt r j
  end.
Fixpoint env_of (l : list (nat * list estep)) (k : nat) : list estep :=
  match l with
  | [] => []
  | (i, e) :: r => if i =? k then e ++ env_of r k else env_of r k
  end.
Definition dp_of (l : list (option nat)) (k : nat) : option nat :=
  match nth_opt l k with Some a => a | None => None end.
Definition ord_of (l : list (list gid)) (k : nat) : list gid :=
  match nth_opt l k with Some a => a | None => [] end.

Definition outcome_eqb (a b : outcome) : bool :=
  match a, b with OkO, OkO | ErrO, ErrO | FailO, FailO | CrashO, CrashO => true | _, _ => false end.
Definition lsel_eqb (a b : lsel) : bool :=
  match a, b with
  | LNode, LNode | LScaling, LScaling | LOther, LOther => true
  | LRsv x, LRsv y | LGroup x, LGroup y | LMulti x, LMulti y => x =? y
  | _, _ => false
  end.
Definition kop_eqb (a b : kop) : bool :=
  match a, b with
  | KSet x, KSet y | KDel x, KDel y => envkey_eqb x y
  | _, _ => false
  end.
Definition brphase_opt_att_eqb (a b : option nat) : bool := opt_nat_eqb a b.
Definition cobs_eqb (a b : cobs) : bool :=
  match a, b with
  | CGetBR, CGetBR | CGetNode, CGetNode | CDeleteBR, CDeleteBR => true
  | CGetPod x, CGetPod y | CDeletePod x, CDeletePod y => pref_eqb x y
  | CGetCM x, CGetCM y | CDeleteCM x, CDeleteCM y => cmref_eqb x y
  | CList x, CList y => lsel_eqb x y
  | CCreateRsv x, CCreateRsv y | CWatchRsv x, CWatchRsv y => x =? y
  | CCreateCM x o, CCreateCM y o' => cmref_eqb x y && (o =? o')
  | CPatchLabels p m, CPatchLabels p' m' => opt_nat_eqb p p' && list_nat_eqb m m'
  | CRemoveLabels p m, CRemoveLabels p' m' => Bool.eqb p p' && list_nat_eqb m m'
  | CPatchRecv t, CPatchRecv t' => rtype_eqb t t'
  | CPatchCM x o c ks, CPatchCM x' o' c' ks' =>
      cmref_eqb x x' && Bool.eqb o o' && Bool.eqb c c' && list_eqb kop_eqb ks ks'
  | CBind s, CBind s' => Bool.eqb s s'
  | CPatchBRStatus ph a, CPatchBRStatus ph' a' =>
      match ph, ph' with Some x, Some y => brphase_eqb x y | None, None => true | _, _ => false end && opt_nat_eqb a a'
  | CPatchPodCond x, CPatchPodCond y => Bool.eqb x y
  | _, _ => false
  end.
Definition entry_eqb (a b : cobs * outcome) : bool := cobs_eqb (fst a) (fst b) && outcome_eqb (snd a) (snd b).

(** canonical form of a store for comparison: pods by name, multi labels sorted *)
Fixpoint insert_pod (p : pod) (l : list pod) : list pod :=
  match l with
  | [] => [p]
  | q :: r => if p_name p <=? p_name q then p :: l else q :: insert_pod p r
  end.
Definition canon_pod (p : pod) : pod := with_labels p (p_plain p) (sort_nat (p_multi p)).
Definition canon (st : store) : store :=
  mkStore (canon_pod (self st)) (self_alive st) (fold_right insert_pod [] (map canon_pod (others st)))
          (cm_cap st) (cm_evar st) (br st) (node_ok st).

Definition run_case (k : case) : state * (nat * bool) :=
  run (k_sc k) (lookup_fault (k_faults k)) (env_of (k_env k)) (dp_of (k_dp k)) (ord_of (k_orders k)) (k_init k).

Definition mark_eqb (s : state) (m : option (nat * nat)) : bool :=
  match s_mark s, m with
  | Some (a, _), Some (a', _) => a =? a'
  | None, None => true
  | _, _ => false
  end.

Definition model_agrees (k : case) : bool :=
  if k_panicked k then false else
  let '(s, (rq, e)) := run_case k in
  list_eqb entry_eqb (rev (s_log s)) (k_log k)
  && store_eqb (canon (s_store s)) (canon (k_final k))
  && (rq =? k_requeue k) && Bool.eqb e (k_err k)
  && list_nat_eqb (rev (s_hist s)) (k_hist k)
  && mark_eqb s (k_mark k).

(** ** The property evaluated on what the real code did *)
Definition is_injected (e : cobs * outcome) : bool :=
  match snd e with FailO | CrashO => true | _ => false end.
Definition has_crash (l : list (nat * fault)) (log : list (cobs * outcome)) : bool :=
  existsb (fun e => match snd e with CrashO => true | _ => false end) log.
Fixpoint slice {A} (l : list A) (from to : nat) : list A :=
  match l, from, to with
  | _, _, O => []
  | [], _, _ => []
  | x :: r, O, S t => x :: slice r O t
  | _ :: r, S f, S t => slice r f t
  end.
(** no injected failure among the calls issued inside Binder.Rollback *)
Definition obs_cleanup_unfaulted (k : case) : bool :=
  match k_mark k with
  | None => true
  | Some (a, b) => negb (existsb is_injected (slice (k_log k) a b))
  end.

(** could a fault-free attempt succeed at all (static oracles, well-formed request)? *)
Definition attemptable (k : case) : bool :=
  wf_shape (k_sc k) && sc_k8s_ok (k_sc k) && (if sc_fraction (k_sc k) then sc_cmann (k_sc k) else true)
  && node_ok (k_init k) && opt_is_some (br (k_init k)) && self_alive (k_init k)
  && pphase_eqb (p_phase (self (k_init k))) PhPending && negb (p_term (self (k_init k))).

Definition init_succeeded (k : case) : bool := br_succeeded (k_init k).

(** *** what the other actors did, and when *)
Definition env_has (f : estep -> bool) (k : case) : bool :=
  existsb (fun ie => existsb f (snd ie)) (k_env k).
(** ... at a call number > p (an entry at number i happens right BEFORE call i) *)
Definition env_has_after (p : nat) (f : estep -> bool) (k : case) : bool :=
  existsb (fun ie => (p <? fst ie) && existsb f (snd ie)) (k_env k).
Definition env_has_upto (p : nat) (f : estep -> bool) (k : case) : bool :=
  existsb (fun ie => (fst ie <=? p) && existsb f (snd ie)) (k_env k).
Definition env_none (k : case) : bool := negb (env_has (fun _ => true) k).
Definition is_replace (e : estep) : bool := match e with EvRemove | EvRecreate => true | _ => false end.
Definition is_recreate (e : estep) : bool := match e with EvRecreate => true | _ => false end.
Definition is_bind_else (e : estep) : bool := match e with EvBindElsewhere => true | _ => false end.
Definition is_del_rsv (e : estep) : bool := match e with EvDeleteRsv _ => true | _ => false end.

Fixpoint index_of {A} (f : A -> bool) (l : list A) (i : nat) : option nat :=
  match l with
  | [] => None
  | x :: r => if f x then Some i else index_of f r (S i)
  end.
(** the call number of this reconcile's successful binding call *)
Definition bind_pos (k : case) : option nat := index_of is_bind_ok (k_log k) 0.
(** the node the reconciler's own Get of the pod showed (0 if it saw no pod) *)
Definition saw_node (k : case) : nat :=
  match index_of (fun e => match e with (CGetPod PSelf, OkO) => true | _ => false end) (k_log k) 0 with
  | Some j => match nth_opt (k_hist k) j with Some n => if n =? 3 then 0 else n | None => 0 end
  | None => 0
  end.
Definition wrote_cond_true (k : case) : bool :=
  existsb (fun e => match e with (CPatchPodCond true, OkO) => true | _ => false end) (k_log k).

(** the side objects as far as nobody else deleted them: with a reservation pod
    deleted by another actor the device indices cannot be checked any more *)
Definition side_ok_env (k : case) (st : store) : bool :=
  if env_has is_del_rsv k then
    opt_rtype_eqb (p_recv (self st)) (Some (recv_type (k_sc k)))
    && (if sc_fraction (k_sc k) then labels_ok (k_sc k) (self st) && opt_is_some (cm_cap st) && opt_is_some (cm_evar st)
        else true)
  else side_ok (k_sc k) st.

Definition eligible (k : case) : bool :=
  attemptable k && unbound (canon (k_init k)) && negb (init_succeeded k).

(** *** behaviours of the code as it is that the clauses below do not accept;
    they are reported by [run_flags] (flags 1-2, each a listed finding) and left
    out of [monitor_ok] *)
(** 1: the reconciler read the pod as already bound to ANOTHER node and reported success for the request's
    node (request Succeeded and / or PodBound=True "Pod bound successfully to node <selected>") *)
Definition flag_bound_elsewhere_succeeded (k : case) : bool :=
  negb (init_succeeded k) && (saw_node k =? 2) && (binds (k_log k) =? 0)
  && (br_succeeded (k_final k) || wrote_cond_true k).
(** 2: the request is invalid (a shared-GPU request without SelectedGPUGroups), the reconciler deleted it -
    and wrote PodBound=True ("Pod bound successfully") on the pod it did not bind: the Delete's nil error
    is taken for the outcome of the bind *)
Definition deleted_invalid (k : case) : bool :=
  existsb (fun e => match e with (CDeleteBR, OkO) => true | _ => false end) (k_log k).
Definition flag_cond_true_deleted_invalid (k : case) : bool :=
  wrote_cond_true k && (binds (k_log k) =? 0) && (saw_node k =? 0) && negb (br_succeeded (k_final k))
  && deleted_invalid k.

(** somebody deleted / replaced the pod after this reconcile's binding call went through *)
Definition replaced_after_bind (k : case) : bool :=
  match bind_pos k with Some p => env_has_after p is_replace k | None => false end.


(** [hist] entries allowed when nobody else binds / removes the pod *)
Definition hist_ok_entry (k : case) (n : nat) : bool :=
  (n =? 0) || (n =? 1)
  || ((n =? 2) && env_has is_bind_else k)
  || ((n =? 3) && env_has is_replace k).

(** 1. all or nothing *)
Definition m_all_or_nothing (k : case) : bool :=
  let init := canon (k_init k) in
  let fin := canon (k_final k) in
  let crashed := has_crash (k_faults k) (k_log k) in
  if eligible k then
    match bind_pos k with
    | Some p =>
        (* this reconcile's binding call went through: the pod sits on the request's node with its side
           objects, unless somebody deleted / replaced it afterwards *)
        env_has_after p is_replace k
        || (bound fin && side_ok_env k fin)
    | None =>
        (* it did not: unless the reconciler read the pod as already bound (clause 3), the request is not
           Succeeded, the failure is visible, and nothing of the attempt is left *)
        negb (saw_node k =? 0)
        || (negb (br_succeeded fin)
            && (reported fin crashed (k_err k) || nothing_done (k_log k))
            && (if obs_cleanup_unfaulted k then clean init fin else true))
    end
  else true.

(** 1b. request Succeeded (by this reconcile) => the stored pod has the request's node *)
Definition m_succeeded_bound_here (k : case) : bool :=
  let fin := canon (k_final k) in
  if negb (init_succeeded k) && br_succeeded fin then
    (self_alive fin && (p_node (self fin) =? 1))
    || replaced_after_bind k || flag_bound_elsewhere_succeeded k
  else true.

(** 1c. PodBound=True (written by this reconcile) => the stored pod has the request's node *)
Definition m_cond_true_bound (k : case) : bool :=
  let fin := canon (k_final k) in
  if wrote_cond_true k && opt_bool_eqb (p_cond (self fin)) (Some true) && self_alive fin then
    (p_node (self fin) =? 1) || replaced_after_bind k
    || flag_bound_elsewhere_succeeded k || flag_cond_true_deleted_invalid k
  else true.

(** 2. never elsewhere, never twice *)
Definition m_never_elsewhere (k : case) : bool :=
  (if unbound (canon (k_init k)) then forallb (hist_ok_entry k) (k_hist k) else true)
  && (binds (k_log k) <=? 1) && negb (existsb is_bind_elsewhere (k_log k)).

(** 3. no-op *)
Definition m_noop (k : case) : bool :=
  let init := canon (k_init k) in
  let fin := canon (k_final k) in
  (if init_succeeded k then (if env_none k then store_eqb init fin else true) && (List.length (k_log k) =? 1) else true)
  && (if self_alive init && negb (p_node (self init) =? 0)
      then (if env_none k then same_binding_state init fin else true)
           && ((binds (k_log k) =? 0) || env_has is_recreate k) else true).

(** 4. recovery: after one fault-free sync and a fault-free retry *)
Definition m_recovery (k : case) : bool :=
  let init := canon (k_init k) in
  let fin := canon (k_final k) in
  match k_rec k with
  | Some (st2, e2) =>
      let f2 := canon st2 in
      (* a pod that can still be bound is bound, with its side objects *)
      (if eligible k && unbound fin && negb (p_term (self fin)) && opt_is_some (br fin) && negb (br_succeeded fin)
          && node_ok fin
       then bound f2 && side_ok (k_sc k) f2 else true)
      (* a pod that is not on the request's node keeps nothing of the failed attempt *)
      && (if eligible k && (binds (k_log k) =? 0) && negb (bound f2) && obs_cleanup_unfaulted k && (saw_node k =? 0)
          then clean init f2 else true)
      (* no reservation pod without a live consumer carrying its group *)
      && forallb (fun r => negb (wf_shape (k_sc k)) || negb (p_rsv r) ||
                   match p_plain r with
                   | Some g => existsb (fun q => negb (p_rsv q) && active_phase q
                                                 && (opt_nat_eqb (p_plain q) (Some g) || mem_nat g (p_multi q)))
                                       (all_pods f2)
                   | None => true
                   end) (others f2)
  | None => true
  end.

Definition clauses (k : case) : list bool :=
  [negb (k_panicked k); m_all_or_nothing k; m_succeeded_bound_here k; m_cond_true_bound k;
   m_never_elsewhere k; m_noop k; m_recovery k].
Definition monitor_ok (k : case) : bool := forallb (fun b => b) (clauses k).

Definition flags_of (k : case) : list nat :=
  (if flag_bound_elsewhere_succeeded k then [1] else [])
  ++ (if flag_cond_true_deleted_invalid k then [2] else []).

Definition run_mismatches (cs : list (nat * case)) : list nat := failing (fun k => negb (model_agrees k)) cs.
Definition run_monitor (cs : list (nat * case)) : list nat := failing (fun k => negb (monitor_ok k)) cs.
(** every flag is reported for the first case of the batch that shows it (the flags are listed findings:
    one witness per batch is enough; [monitor_ok] is what judges every case) *)
Fixpoint first_flags (seen : list nat) (cs : list (nat * case)) : list (nat * list nat) :=
  match cs with
  | [] => []
  | (i, k) :: r =>
      let fresh := filter (fun f => negb (mem_nat f seen)) (flags_of k) in
      match fresh with
      | [] => first_flags seen r
      | _ => (i, fresh) :: first_flags (fresh ++ seen) r
      end
  end.
Definition run_flags (cs : list (nat * case)) : list (nat * list nat) := first_flags [] cs.
