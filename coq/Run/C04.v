(** Correspondence + monitor entry points for C04 (used by generated cases).

    Three kinds of cases:
    - [KPred]: T2(a) - the real snapshot membership (node pool) and the real
      PrePredicateFn + FittingNode verdicts of one pod on every node of a
      generated cluster, vs [in_pool] / [pre_predicate] / [fitting_node];
      monitor: whatever the real filter accepts satisfies [hard_ok];
    - [KSub]: T2(b) - the real SubsetNodesFn of the topology plugin vs
      [subset_cands]: every real node set must lie inside a model candidate;
      monitor: every real node set lies in one domain of the required level
      (by label-vector prefixes, not by ids) together with an ACTIVE pod of the
      group; the case carries every pod of the job that sits on a node WITH its
      status: which of them pin the domain is decided on the model side
      ([pinning pin_rule]), and the monitor's "active" is [active_pods]
      (Allocated / Pipelined / Binding / Bound / Running) - a Releasing,
      Succeeded or Failed pod neither pins a domain nor counts as a violation;
    - [KCycle]: T3 - the Bind / TaskPipelined / Evict calls of whole real
      cycles; monitor: every placement call satisfies the hard constraints
      w.r.t. the pods on the nodes at that moment (placements earlier in the
      cycle included) and the topology clauses of every (sub-)group the pod
      belongs to.  Pods on the nodes at the start come with their status:
      the active-used ones are on the nodes (affinity), the active-allocated ones
      are the active pods of their groups; an evicted pod stops being active. *)
From KaiV Require Export Run.Prelude Model.Status Model.Placement Model.Topology.
Open Scope string_scope.
Open Scope list_scope.

Inductive ccall :=
| CBind (p : positive) (n : string)
| CPipe (p : positive) (n : string)
| CEvict (p : positive).

(** a (sub-)group that carries a topology constraint, with all its pods *)
Record ginfo := mkGI { gi_tc : tcons; gi_members : list positive }.

Inductive case :=
| KPred (cl : cluster)
        (pre : option placed_t)            (* pods on the nodes at an earlier PrePredicate call for the same pod *)
        (placed : placed_t)                (* pods on the nodes when the verdicts were taken *)
        (p : ppod)
        (snap : list string)               (* observed: nodes that entered the real snapshot *)
        (verdicts : list (string * bool))  (* observed: node in the session and FittingNode = true *)
| KSub (topos : list topo) (nodes : list pnode)
       (tc : option tcons) (ms : list positive) (ntasks : nat)
       (allowed : list string)
       (ps : spods)                        (* every pod of the job on a node: id, node, status *)
       (sets : list (list string))         (* observed: node sets returned (none on error) *)
| KCycle (cl : cluster) (topos : list topo)
         (pods : list ppod)
         (init : spods)                     (* pods with a node of the session at the start: id, node, status *)
         (groups : list ginfo)
         (calls : list ccall).

(** * T2(a) *)

Definition set_eqb (a b : list string) : bool :=
  forallb (fun x => mem_str x b) a && forallb (fun x => mem_str x a) b.

Definition subset_b (a b : list string) : bool := forallb (fun x => mem_str x b) a.

Definition pred_agrees (cl : cluster) (pre : option placed_t) (placed : placed_t) (p : ppod)
           (snap : list string) (verdicts : list (string * bool)) : bool :=
  let skip1 := match pre with Some pl0 => pre_predicate cl pl0 [] p | None => [] end in
  let skip2 := pre_predicate cl placed skip1 p in
  forallb (fun n => Bool.eqb (in_pool cl n) (mem_str (nd_name n) snap)) (cl_nodes cl)
  && forallb (fun nv => Bool.eqb (fitting_node cl placed skip2 p (fst nv)) (snd nv)) verdicts.

Definition pred_monitor (cl : cluster) (placed : placed_t) (p : ppod) (verdicts : list (string * bool)) : bool :=
  forallb (fun nv => negb (snd nv) || hard_ok cl placed (p, fst nv)) verdicts.

(** * T2(b) *)

Definition sub_agrees (topos : list topo) (nodes : list pnode) (tc : option tcons) (ms : list positive)
           (ntasks : nat) (allowed : list string) (ps : spods) (sets : list (list string)) : bool :=
  match subset_cands topos nodes tc ms ntasks allowed (pinning pin_rule ps) with
  | SNPass => match sets with [s] => set_eqb s allowed | _ => false end
  | SNSets cands => forallb (fun s => existsb (fun c => subset_b s c) cands) sets
  end.

Definition prefix_of (T : topo) (nodes : list pnode) (l : nat) (nm : string) : option (list string) :=
  match vec_of_node T nodes nm with Some v => Some (firstn (S l) v) | None => None end.

Definition in_one_domain_b (T : topo) (nodes : list pnode) (l : nat) (names : list string) : bool :=
  match names with
  | [] => true
  | nm :: r =>
      match prefix_of T nodes l nm with
      | Some pre => forallb (fun x => match prefix_of T nodes l x with Some q => list_str_eqb q pre | None => false end) r
      | None => false
      end
  end.

Definition nil_b {A} (l : list A) : bool := match l with [] => true | _ => false end.

Definition sub_monitor (topos : list topo) (nodes : list pnode) (tc : option tcons) (ms : list positive)
           (ntasks : nat) (ps : spods) (sets : list (list string)) : bool :=
  let act := active_pods ps in
  match tc, ntasks with
  | None, _ => true
  | Some c, O => if String.eqb (tc_topo c) "" then true
                 else match find_topo topos (tc_topo c) with None => nil_b sets | Some _ => true end
  | Some c, _ =>
      if String.eqb (tc_topo c) "" then true
      else match find_topo topos (tc_topo c) with
           | None => nil_b sets
           | Some T =>
               if String.eqb (tc_req c) "" then true
               else match idx_of (tc_req c) (tp_levels T) with
                    | None => String.eqb (tc_req c) "root" || nil_b sets
                    | Some l =>
                        let an := map snd (entries ms act) in
                        forallb (fun s => in_one_domain_b T nodes l s
                                          && (nil_b an || nil_b s || existsb (fun a => in_one_domain_b T nodes l (a :: s)) an)) sets
                    end
           end
  end.

(** * T3 *)

Definition find_pod (pods : list ppod) (id : positive) : option ppod :=
  find (fun p => Pos.eqb (pd_id p) id) pods.

Definition session_nodes (cl : cluster) : list pnode := filter (in_pool cl) (cl_nodes cl).

(** the topology clause of one constrained group for placing a member on node [nn],
    given the nodes of the group's currently active pods *)
Definition topo_clause (topos : list topo) (nodes : list pnode) (c : tcons) (active_nodes : list string) (nn : string) : bool :=
  if String.eqb (tc_topo c) "" then true
  else match find_topo topos (tc_topo c) with
       | None => false                                   (* a missing topology: nothing may be placed *)
       | Some T =>
           if String.eqb (tc_req c) "" then true
           else match idx_of (tc_req c) (tp_levels T) with
                | None => String.eqb (tc_req c) "root"   (* a required level the topology lacks: nothing may be placed *)
                | Some l =>
                    in_one_domain_b T nodes l [nn]
                    && (nil_b active_nodes || existsb (fun a => in_one_domain_b T nodes l [a; nn]) active_nodes)
                end
       end.

Record mstate := mkMS { m_placed : placed_t; m_active : active_t; m_ok : bool }.

Definition without (id : positive) (pl : placed_t) : placed_t := filter (fun qm => negb (Pos.eqb (pd_id (fst qm)) id)) pl.

Definition place_ok (cl : cluster) (topos : list topo) (groups : list ginfo) (st : mstate) (p : ppod) (nn : string) : bool :=
  match find_node cl nn with
  | None => false
  | Some n =>
      let others := without (pd_id p) (m_placed st) in
      node_level_ok cl p n
      && affinity_ok cl (m_placed st) p n && anti_ok cl others p n && existing_anti_ok cl others p n
      && forallb (fun g => negb (mem_pos (pd_id p) (gi_members g))
                           || topo_clause topos (session_nodes cl) (gi_tc g)
                                (map snd (filter (fun e => negb (Pos.eqb (fst e) (pd_id p))) (entries (gi_members g) (m_active st)))) nn)
                 groups
  end.

Definition step (cl : cluster) (topos : list topo) (pods : list ppod) (groups : list ginfo) (st : mstate) (c : ccall) : mstate :=
  let place := fun (id : positive) (nn : string) =>
    match find_pod pods id with
    | None => mkMS (m_placed st) (m_active st) false
    | Some p =>
        mkMS ((p, nn) :: m_placed st)
             ((id, nn) :: filter (fun e => negb (Pos.eqb (fst e) id)) (m_active st))
             (m_ok st && place_ok cl topos groups st p nn)
    end in
  match c with
  | CBind id nn => place id nn
  | CPipe id nn => place id nn
  | CEvict id => mkMS (m_placed st) (filter (fun e => negb (Pos.eqb (fst e) id)) (m_active st)) (m_ok st)
  end.

Definition init_state (pods : list ppod) (init : spods) : mstate :=
  mkMS (flat_map (fun e : positive * string * status =>
                    if active_used (snd e)
                    then match find_pod pods (fst (fst e)) with Some p => [(p, snd (fst e))] | None => [] end
                    else []) init)
       (active_pods init)
       true.

Definition cycle_monitor (cl : cluster) (topos : list topo) (pods : list ppod)
           (init : spods) (groups : list ginfo) (calls : list ccall) : bool :=
  m_ok (fold_left (step cl topos pods groups) calls (init_state pods init)).

(** * Entry points *)

Definition model_agrees (k : case) : bool :=
  match k with
  | KPred cl pre placed p snap verdicts => pred_agrees cl pre placed p snap verdicts
  | KSub topos nodes tc ms ntasks allowed ps sets => sub_agrees topos nodes tc ms ntasks allowed ps sets
  | KCycle _ _ _ _ _ _ => true
  end.

(** The property itself, evaluated on what the real code returned. *)
Definition monitor_ok (k : case) : bool :=
  match k with
  | KPred cl _ placed p _ verdicts => pred_monitor cl placed p verdicts
  | KSub topos nodes tc ms ntasks _ ps sets => sub_monitor topos nodes tc ms ntasks ps sets
  | KCycle cl topos pods init groups calls => cycle_monitor cl topos pods init groups calls
  end.

Definition run_mismatches (cs : list (nat * case)) : list nat := failing (fun k => negb (model_agrees k)) cs.
Definition run_monitor (cs : list (nat * case)) : list nat := failing (fun k => negb (monitor_ok k)) cs.
