(** Shared helpers for the generated case files (correspondence check). *)
From Coq Require Export List ZArith NArith String Ascii Bool.
Export ListNotations.

Fixpoint bs (l : list N) : string :=
  match l with
  | [] => EmptyString
  | n :: r => String (ascii_of_N n) (bs r)
  end.

(** indices of the cases on which [bad] holds *)
Definition failing {A} (bad : A -> bool) (cases : list (nat * A)) : list nat :=
  map fst (filter (fun c => bad (snd c)) cases).
