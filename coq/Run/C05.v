(** C05: cycle-level correspondence and monitors.

    Three kinds of cases:
    - [KAlloc]: ONLY the allocate action ran on a generated cluster.  The
      harness recorded, through Session hooks (PreJobAllocationFn,
      PrePredicateFn, a PredicateFn registered last), every attempt of the
      loop: the job, its tasks to allocate, per task the nodes on which the
      real FittingNode passed (in visiting order), and the Cache calls the
      commit made.
        [model_agrees]: (1) the calls replay through the node model of
        Run/Cycle.v and reach the real final node books; (2) the allocate loop of
        Model/Progress.v, run with the real pop order and the real node
        visiting order as its oracles, the capacity gates of Model/Capacity.v
        on the generated queues, refuses and places exactly the same attempts
        on the same nodes, and its queue is empty at the end (every job that
        still has pods to allocate was refused).
        [monitor_ok]: work conservation on the real outputs: no remaining
        ready job whose pods to allocate are identical regular pods fits as a
        whole on the capacity recomputed from the real final node books
        (min(idle, idle + releasing) per node, first fit) while its queue
        chain has headroom.  For the witness stream ([a_full]) the same for
        heterogeneous units (exhaustive assignment search).
    - [KProg]: allocate, then reclaim or preempt, on clusters of the
      interchangeable class (identical nodes, 1-GPU single-pod jobs; preempt
      clusters with one or several leaf queues holding pending jobs, the
      pending jobs in the pop order of the real JobsOrderByQueues; reclaim
      clusters with the leaf queues in a queue tree of any depth, leaves at
      different depths: [p_queues] lists EVERY queue of the hierarchy with its
      parent, Model/ProgressTree.v).
        [monitor_ok]: every pending job for which the hypotheses of
        C05_reclaim_progress / C05_preempt_progress hold by the numbers of the
        generated cluster got an Evict (with it as preemptor) and a
        TaskPipelined within the cycle.  Reclaim: the numbers are read on the
        actual tree: the job keeps its queue and every ancestor within the
        deserved quota, and for every queue that runs pods the queue of ITS
        side on the level where the two root-to-leaf paths diverge stays above
        its deserved quota (C05_reclaim_accepted_on_tree: then
        CanReclaimResources and Reclaimable say yes).
        [model_agrees]: the model's action (Model/Signatures.v), run with the
        victims in the observed order, CanReclaimResources / Reclaimable of
        Model/Reclaim.v on the numbers of the tree (deserved quota, observed
        fair share, allocation updated by the model's own commits), serves
        exactly the jobs the real action served, on the same nodes.
    - [KSig]: function-level correspondence for
      MinimalJobRepresentatives.IsEasierToSchedule / UpdateRepresentative.
    - [KFault]: ONLY the allocate action on an in-class cluster (identical
      non-shared pods per job) while the session's cache refuses some Bind
      calls (none / the k-th call of the action / every call for a pod of one
      job).  Recorded: what KAlloc records, every Bind / TaskPipelined call in
      order WITH ITS OUTCOME, the final session status of every pod that was
      pending, and per attempt the operations a refused Bind cut off (pods that
      keep their placement in the session without a Cache call; they are listed
      in [at_placed] next to the accepted calls: they sit on the final books).
        [model_agrees]: the faulty loop of Model/ProgressFaults.v (a refused
        Bind un-allocates that pod, drops the remaining operations of the
        statement, the job is not pushed back, the loop goes on), run with the
        real pop / node visiting order and the failure oracle read off the
        recorded outcomes, issues exactly the recorded Bind calls in the recorded
        order with the recorded outcomes, the same nominations, ends with the
        same placements in the session, the same final status of every pod,
        an empty queue, and its calls replay to the real final node books.
        [monitor_ok]: the work-conservation clause of
        C05_every_pending_workload_accounted_under_bind_faults on the real
        dumps: a ready job with pending pods after the action whose unit fits
        the real final books and passes its queues' gates and none of whose
        Bind calls was refused is a violation.
        flag 5: a job that is refused on the session's books but would fit on
        the capacity the API server knows (the books plus what the dropped
        operations hold, which no Bind was issued for).
    - [KRFault]: allocate, then reclaim, on interchangeable-class clusters with
      at least two eligible reclaimers in different queues while the session's
      cache refuses some Evict calls (none / the k-th call of the action /
      every call for one preemptor).  Recorded: what KProg records (pending
      jobs in the REAL pop order, read off CanReclaimResources), every Evict
      call in order WITH ITS OUTCOME, the final status of every pod.
        [model_agrees]: the faulty reclaim of Model/ReclaimFaults.v (a refused
        Evict un-evicts that pod, Commit carries on, the loop goes on), run with
        the failure oracle read off the recorded outcomes, issues the recorded
        Evict calls with the recorded outcomes for the same preemptors in the
        same order, the same nominations on the same nodes, and leaves every
        pod with the recorded status.
        [monitor_ok]: the clause of C05_reclaim_progress_under_evict_faults on
        the real dumps: a pending job that is eligible by the numbers, none of
        whose OWN evictions was refused, for which an eligible victim is still
        available (on a node without refused evictions, not evicted for a job
        popped before it), and that was not served is a violation.
      The same for the preempt action ([p_kind = 2]: clusters with at least two
      eligible preemptors, pending jobs of higher priority in queues that run
      lower-priority preemptible pods on at least two nodes; model:
      [preempt_action_f]; monitor: [preempt_expected] plus a victim of the job's
      own queue still available; clause of C05_preempt_progress_under_evict_faults). *)
From KaiV Require Export Run.Cycle Model.Progress Model.Signatures Model.ProgressTree Model.ProgressFaults Model.ReclaimFaults.
From KaiV Require Model.Capacity.
From Coq Require Import QArith.
Open Scope Z_scope.

(** * KAlloc *)

Record xtask := mkXT { x_task : task; x_portion : Z (* GPU portion per device, 1/100 *) }.
Record xqueue := mkXQ { xq_id : positive; xq_parent : positive; xq_limit : Z; xq_deserved : Z }. (* 1/100 GPU; -1 = unlimited *)
Record xjob := mkXJ { xj_id : positive; xj_queue : positive; xj_preempt : bool }.
Record placed := mkPlaced { pc_task : positive; pc_node : positive; pc_piped : bool; pc_groups : list positive }.
Record attempt_obs := mkAt {
  at_job : positive;
  at_tasks : list xtask;
  at_visits : list (positive * list positive);   (* task -> nodes that passed FittingNode, in order *)
  at_placed : list placed;                        (* Cache calls of the commit; [] = the attempt was discarded *)
}.

Record acase := mkAC {
  a_nodes : amap node;
  a_tasks : list tinfo;
  a_jobs : list xjob;
  a_queues : list xqueue;
  a_running : list xtask;            (* pods holding queue quota in the snapshot *)
  a_attempts : list attempt_obs;
  a_final : amap obs;
  a_remaining : list (positive * list xtask);   (* ready jobs with pending pods after the action, with GetTasksToAllocate *)
  a_full : bool;
}.

(** ** queue gates (Model/Capacity.v) on the generated queues *)
Definition qv (z : Z) : Q := if z <? 0 then (-1)%Q else (z # 100)%Q.
Definition rq_gpu (g : Q) : Capacity.rq := {| Capacity.r_cpu := (-1)%Q; Capacity.r_mem := (-1)%Q; Capacity.r_gpu := g |}.
Definition mk_queue (x : xqueue) : Capacity.queue :=
  {| Capacity.q_id := xq_id x; Capacity.q_parent := xq_parent x;
     Capacity.q_limit := rq_gpu (qv (xq_limit x)); Capacity.q_deserved := rq_gpu (qv (xq_deserved x));
     Capacity.q_alloc := Capacity.rq_zero; Capacity.q_np := Capacity.rq_zero |}.

Definition cap_task (x : xtask) : Capacity.task :=
  let t := x_task x in
  {| Capacity.t_id := t_id t;
     Capacity.t_type := match t_kind t with
                        | KRegular => Capacity.Regular | KFraction => Capacity.Fraction
                        | KMemory => Capacity.GpuMemory | KMig => Capacity.MigInstance
                        end;
     Capacity.t_cpu := inject_Z (cpu (t_req t)); Capacity.t_memory := inject_Z (mem (t_req t));
     Capacity.t_gpu := {| Capacity.g_count := match t_kind t with KRegular => gpu (t_req t) | _ => t_ndev t end;
                          Capacity.g_portion := (x_portion x # 100)%Q; Capacity.g_memory := 0;
                          Capacity.g_dra := 0; Capacity.g_mig := [] |} |}.

Definition find_x (tbl : list xtask) (id : positive) : option xtask :=
  find (fun x => Pos.eqb (t_id (x_task x)) id) tbl.
Definition find_xjob (js : list xjob) (id : positive) : option xjob := find (fun j => Pos.eqb (xj_id j) id) js.

Definition all_xtasks (k : acase) : list xtask :=
  a_running k ++ flat_map at_tasks (a_attempts k) ++ flat_map snd (a_remaining k).

Definition nm_of (k : acase) (nid : positive) : positive :=
  match alookup nid (a_nodes k) with
  | Some n => if 0 <? n_gpumem n then Z.to_pos (n_gpumem n) else 1%positive
  | None => 1%positive
  end.

Definition qfuel (k : acase) : nat := S (List.length (a_queues k)).

(** charge one pod to its queue chain (allocate handler); [None] = the model panics or loops *)
Definition qcharge (k : acase) (qs : option (list Capacity.queue)) (id : positive) (nm : positive)
  : option (list Capacity.queue) :=
  match qs, find_x (all_xtasks k) id with
  | Some q, Some x =>
      match find_xjob (a_jobs k) (t_job (x_task x)) with
      | Some j => match Capacity.alloc_handler (qfuel k) q (xj_queue j) (xj_preempt j) (Capacity.charge nm (cap_task x)) with
                  | Capacity.Done q' => Some q'
                  | _ => None
                  end
      | None => None
      end
  | _, _ => None
  end.

Definition qs0 (k : acase) : option (list Capacity.queue) :=
  fold_left (fun qs x => qcharge k qs (t_id (x_task x))
                           (match find_ti (a_tasks k) (t_id (x_task x)) with
                            | Some ti => match ti_node ti with Some nid => nm_of k nid | None => 1%positive end
                            | None => 1%positive
                            end))
            (a_running k) (Some (map mk_queue (a_queues k))).

(** the queues after the placements of [h] (most recent first) *)
Definition qs_of_hist (k : acase) (h : hist) : option (list Capacity.queue) :=
  fold_right (fun pl qs => qcharge k qs (t_id (pl_task pl)) (nm_of k (pl_node pl))) (qs0 k) h.

Definition schedulable (r : Capacity.result Capacity.verdict) : bool :=
  match r with Capacity.Done Capacity.Schedulable => true | _ => false end.

Definition xs_of (k : acase) (ts : list task) : list Capacity.task :=
  flat_map (fun t => match find_x (all_xtasks k) (t_id t) with Some x => [cap_task x] | None => [] end) ts.

Definition job_gate (k : acase) (qs : option (list Capacity.queue)) (jid : positive) (ts : list task) : bool :=
  match qs, find_xjob (a_jobs k) jid with
  | Some q, Some j => schedulable (Capacity.is_job_over_queue_capacity (qfuel k) q (xj_queue j) (xj_preempt j) (xs_of k ts))
  | _, _ => false
  end.
Definition task_gate (k : acase) (qs : option (list Capacity.queue)) (jid : positive) (t : task) (nid : positive) : bool :=
  match qs, find_xjob (a_jobs k) jid, find_x (all_xtasks k) (t_id t) with
  | Some q, Some j, Some x =>
      schedulable (Capacity.is_task_allocation_on_node_over_capacity (qfuel k) q (xj_queue j) (xj_preempt j)
                     (cap_task x) (nm_of k nid))
  | _, _, _ => false
  end.

(** ** the oracles read off the real run *)
Definition all_placed (k : acase) : list placed := flat_map at_placed (a_attempts k).
Definition find_placed (k : acase) (id : positive) : option placed :=
  find (fun p => Pos.eqb (pc_task p) id) (all_placed k).
Definition visits_of (k : acase) (id : positive) : list positive :=
  match find (fun v => Pos.eqb (fst v) id) (flat_map at_visits (a_attempts k)) with
  | Some v => snd v
  | None => []
  end.

Definition o_pred (_ : task) (_ : positive) : bool := true.
Definition o_tgate (k : acase) (h : hist) (jid : positive) (t : task) (nid : positive) : bool :=
  task_gate k (qs_of_hist k h) jid t nid.
Definition o_gate (k : acase) (h : hist) (jid : positive) (ts : list task) : bool :=
  job_gate k (qs_of_hist k h) jid ts.
Definition o_nord (k : acase) (_ : hist) (t : task) : list positive :=
  visits_of k (t_id t) ++ akeys (a_nodes k).
Definition o_gsel (k : acase) (_ : hist) (nid : positive) (_ : node) (t : task) : option (list positive * bool) :=
  match find_placed k (t_id t) with
  | Some p => if Pos.eqb (pc_node p) nid then Some (pc_groups p, pc_piped p) else None
  | None => None
  end.
Definition o_shouldpipe (k : acase) (_ : positive) (cp : hist) : bool :=
  match cp with
  | [] => false
  | _ => forallb (fun pl => match find_placed k (t_id (pl_task pl)) with Some p => pc_piped p | None => false end) cp
  end.

(** ** the model's loop on the observed pop order *)
Definition job_ids (k : acase) : list positive := nodup_pos (map at_job (a_attempts k) ++ map fst (a_remaining k)).
Definition attempts_of (k : acase) (jid : positive) : list attempt_obs :=
  filter (fun a => Pos.eqb (at_job a) jid) (a_attempts k).
Definition last_failed (l : list attempt_obs) : bool :=
  match rev l with
  | a :: _ => match at_placed a with [] => true | _ => false end
  | [] => false
  end.
Definition todo_of (k : acase) (jid : positive) : list (list task) :=
  let ats := attempts_of k jid in
  map (fun a => map x_task (at_tasks a)) ats
  ++ (if last_failed ats then []
      else match find (fun r => Pos.eqb (fst r) jid) (a_remaining k) with
           | Some r => [map x_task (snd r)]
           | None => []
           end).
Definition st0_of (k : acase) : lstate :=
  mkLS (a_nodes k) [] (map (fun jid => mkJS jid (todo_of k jid) false) (job_ids k)).
Definition model_run (k : acase) : lstate :=
  allocate_action o_pred (o_tgate k) (o_gate k) (o_nord k) (o_gsel k) (o_shouldpipe k) (st0_of k)
                  (map at_job (a_attempts k)).

Fixpoint list_eqb2 {A B} (e : A -> B -> bool) (a : list A) (b : list B) : bool :=
  match a, b with
  | [], [] => true
  | x :: r, y :: s => e x y && list_eqb2 e r s
  | _, _ => false
  end.

Definition placement_eqb (pl : placement) (p : placed) : bool :=
  Pos.eqb (t_id (pl_task pl)) (pc_task p) && Pos.eqb (pl_node pl) (pc_node p) && Bool.eqb (pl_piped pl) (pc_piped p).

Definition loop_agrees (k : acase) : bool :=
  let st := model_run k in
  exhausted st
  (* the same pods on the same nodes, bound or nominated alike (the order of the Cache calls
     within one commit is that of the statement's operation list after conversions) *)
  && Nat.eqb (List.length (ls_hist st)) (List.length (all_placed k))
  && forallb (fun pl => existsb (placement_eqb pl) (all_placed k)) (ls_hist st)
  (* every job left with pods to allocate is one the loop refused *)
  && forallb (fun r => match find_job (fst r) (ls_jobs st) with
                       | Some j => js_failed j
                       | None => false
                       end) (a_remaining k).

(** the Cache calls as a cycle case of Run/Cycle.v *)
Definition calls_of (k : acase) : list call :=
  map (fun p => if pc_piped p then CPipe (pc_task p) (pc_node p) (pc_groups p)
                else CBind (pc_task p) (pc_node p) (pc_groups p)) (all_placed k).
Definition as_ccase (k : acase) : ccase := mkCC (a_nodes k) (a_tasks k) [] (calls_of k) (a_final k).

(** the replayed calls reach the real final books.  Whether each shared-GPU
    bind was admissible for the group it names is C02's question (the real
    scheduler occasionally binds a fractional pod onto a device that so far is
    only nominated); the guards of non-shared pods are exercised by the loop
    below, which places with the model's own guards. *)
Definition books_agree (k : acase) : bool :=
  let c := as_ccase k in
  match replay (c_tasks c) (c_nodes c) (c_calls c) with
  | Some (ns, _) =>
      amap_eqb2 obs_matches_cycle ns (c_final c)
      || (amap_eqb2 (fun n o => obs_matches_cycle_nogpu n o) ns (c_final c)
          && forallb (fun kn => match alookup (fst kn) (c_final c) with
                                | Some o => obs_matches_cycle (snd kn) o || node_exposed c (fst kn) (snd kn)
                                | None => false
                                end) ns)
  | None => false
  end.

Definition alloc_agrees (k : acase) : bool := books_agree k && loop_agrees k.

(** ** work conservation on the real final books *)
Definition rmin (a b : res) : res :=
  mkRes (Z.min (cpu a) (cpu b)) (Z.min (mem a) (mem b)) (Z.min (gpu a) (gpu b))
        (Z.min (pods a) (pods b)) (Z.min (mig a) (mig b)) (Z.min (ext a) (ext b)).
(** what a pod can be BOUND on: idle, and idle + releasing (nominations reserve releasing first) *)
Definition avail (o : obs) : res := rmin (o_idle o) (radd (o_idle o) (o_rel o)).

Definition regular_unit (ts : list xtask) : bool :=
  forallb (fun x => match t_kind (x_task x) with KRegular => negb (t_resv (x_task x)) | _ => false end) ts.
Definition same_req (ts : list xtask) : bool :=
  match ts with
  | [] => true
  | x0 :: _ => forallb (fun x => req (t_req (x_task x)) (t_req (x_task x0))) ts
  end.

(** identical pods: first fit is exact *)
Definition fits_identical (k : acase) (ts : list xtask) : bool :=
  match ts with
  | [] => false
  | x0 :: _ =>
      let n := List.length ts in
      Nat.leb n (fold_right (fun ko acc => (fit_count n (avail (snd ko)) (t_req (x_task x0)) + acc)%nat) O (a_final k))
  end.

(** any pods: exhaustive search over assignments *)
Definition sub_at (nid : positive) (r : res) (avs : list (positive * res)) : list (positive * res) :=
  map (fun ka => if Pos.eqb (fst ka) nid then (fst ka, rsub (snd ka) r) else ka) avs.
Fixpoint fits_search (avs : list (positive * res)) (rs : list res) : bool :=
  match rs with
  | [] => true
  | r :: tr => existsb (fun ka => rle r (snd ka) && fits_search (sub_at (fst ka) r avs) tr) avs
  end.
Definition fits_any (k : acase) (ts : list xtask) : bool :=
  fits_search (map (fun ko => (fst ko, avail (snd ko))) (a_final k)) (map (fun x => t_req (x_task x)) ts).

Definition final_hist (k : acase) : hist :=
  rev (flat_map (fun p => match find_x (all_xtasks k) (pc_task p) with
                          | Some x => [mkPl (x_task x) (pc_node p) (pc_piped p)]
                          | None => []
                          end) (all_placed k)).

Definition starved (k : acase) (r : positive * list xtask) : bool :=
  let ts := snd r in
  regular_unit ts
  && (if same_req ts then fits_identical k ts else a_full k && fits_any k ts)
  && job_gate k (qs_of_hist k (final_hist k)) (fst r) (map x_task ts).

Definition conservation_ok (k : acase) : bool := forallb (fun r => negb (starved k r)) (a_remaining k).

(** * KFault *)

Record bcall := mkBC { bc_job : positive; bc_task : positive; bc_node : positive; bc_piped : bool; bc_ok : bool }.
Record fcase := mkFC {
  fc_a : acase;                           (* [at_placed]: accepted calls + operations cut off by a refused Bind *)
  fc_calls : list bcall;                  (* every Bind / TaskPipelined call of the action, in order, with outcome *)
  fc_status : list (positive * status);   (* final session status of the pods that were Pending *)
}.

Definition fc_binds (k : fcase) : list bcall := filter (fun c => negb (bc_piped c)) (fc_calls k).
(** the failure oracle as the run shows it: was the i-th Cache.Bind of the action refused *)
Definition fc_oracle (k : fcase) : boracle := fun i => negb (bc_ok (nth i (fc_binds k) (mkBC 1 1 1 false true))).
(** one of the job's Bind calls was refused *)
Definition fc_hit (k : fcase) (jid : positive) : bool :=
  existsb (fun c => Pos.eqb (bc_job c) jid && negb (bc_ok c)) (fc_calls k).

Definition fault_run (k : fcase) : fstate :=
  let a := fc_a k in
  allocate_action_f o_pred (o_tgate a) (o_gate a) (o_nord a) (o_gsel a) (o_shouldpipe a) true (fc_oracle k)
                    (st0_of a) (map at_job (a_attempts a)).

Definition acall_eqb (c : acall) (b : bcall) : bool :=
  match c with
  | ABind j t n => negb (bc_piped b) && bc_ok b && Pos.eqb j (bc_job b) && Pos.eqb t (bc_task b) && Pos.eqb n (bc_node b)
  | ABindRefused j t n => negb (bc_piped b) && negb (bc_ok b) && Pos.eqb j (bc_job b) && Pos.eqb t (bc_task b) && Pos.eqb n (bc_node b)
  | APipe j t n => bc_piped b && Pos.eqb j (bc_job b) && Pos.eqb t (bc_task b) && Pos.eqb n (bc_node b)
  end.
Definition is_pipe (c : acall) : bool := match c with APipe _ _ _ => true | _ => false end.

(** the status the model's run leaves a pod with: Binding after an accepted Bind
    (Session.BindPod), Allocated / Pipelined while it holds a placement, else Pending *)
Definition model_status (fs : fstate) (t : positive) : status :=
  if existsb (fun c => match c with ABind _ t' _ => Pos.eqb t t' | _ => false end) (fs_calls fs) then Binding
  else match find (fun pl => Pos.eqb (t_id (pl_task pl)) t) (ls_hist (fs_ls fs)) with
       | Some pl => if pl_piped pl then Pipelined else Allocated
       | None => Pending
       end.

Definition fault_loop_agrees (k : fcase) : bool :=
  let a := fc_a k in
  let fs := fault_run k in
  let st := fs_ls fs in
  exhausted st
  (* the Bind calls: the same pods on the same nodes in the same order with the same outcomes *)
  && list_eqb2 acall_eqb (filter (fun c => negb (is_pipe c)) (fs_calls fs)) (fc_binds k)
  (* the nominations (the order inside a converted statement is that of its operation list) *)
  && Nat.eqb (List.length (filter is_pipe (fs_calls fs))) (List.length (filter bc_piped (fc_calls k)))
  && forallb (fun c => existsb (acall_eqb c) (fc_calls k)) (filter is_pipe (fs_calls fs))
  (* the placements that hold in the session afterwards: accepted calls and dropped operations *)
  && Nat.eqb (List.length (ls_hist st)) (List.length (all_placed a))
  && forallb (fun pl => existsb (placement_eqb pl) (all_placed a)) (ls_hist st)
  (* every job left with pods to allocate is out of the model's loop *)
  && forallb (fun r => match find_job (fst r) (ls_jobs st) with
                       | Some j => js_failed j
                       | None => false
                       end) (a_remaining a)
  (* the final status of every pod that was pending *)
  && forallb (fun ps => status_eqb (model_status fs (fst ps)) (snd ps)) (fc_status k).

Definition fault_agrees (k : fcase) : bool := books_agree (fc_a k) && fault_loop_agrees k.

(** the work-conservation clause under faults on the real dumps *)
Definition fault_conservation_ok (k : fcase) : bool :=
  forallb (fun r => negb (starved (fc_a k) r) || fc_hit k (fst r)) (a_remaining (fc_a k)).

(** the operations a refused Bind cut off: placements without an accepted call *)
Definition fc_dropped (k : fcase) : list placed :=
  filter (fun p => negb (existsb (fun c => Pos.eqb (bc_task c) (pc_task p) && bc_ok c) (fc_calls k))) (all_placed (fc_a k)).
Definition req_of (a : acase) (id : positive) : res :=
  match find_x (all_xtasks a) id with Some x => t_req (x_task x) | None => rzero end.
(** what can be bound on a node as the API server knows it: the books plus what the dropped operations hold *)
Definition avail_truth (k : fcase) (ko : positive * obs) : res :=
  fold_left (fun acc p => if Pos.eqb (pc_node p) (fst ko) && negb (pc_piped p) then radd acc (req_of (fc_a k) (pc_task p)) else acc)
            (fc_dropped k) (avail (snd ko)).
Definition truth_hist (k : fcase) : hist :=
  filter (fun pl => negb (existsb (fun p => Pos.eqb (pc_task p) (t_id (pl_task pl))) (fc_dropped k))) (final_hist (fc_a k)).
Definition starved_at_api_server (k : fcase) (r : positive * list xtask) : bool :=
  let a := fc_a k in
  let ts := snd r in
  regular_unit ts && same_req ts
  && match ts with
     | [] => false
     | x0 :: _ =>
         let n := List.length ts in
         Nat.leb n (fold_right (fun ko acc => (fit_count n (avail_truth k ko) (t_req (x_task x0)) + acc)%nat) O (a_final a))
     end
  && job_gate a (qs_of_hist a (truth_hist k)) (fst r) (map x_task ts).
Definition fault_flags (k : fcase) : list nat :=
  if existsb (fun r => negb (fc_hit k (fst r)) && negb (starved (fc_a k) r) && starved_at_api_server k r) (a_remaining (fc_a k))
  then [5%nat] else [].

(** * KProg *)

(* [pqueue] (Model/ProgressTree.v): id, parent, deserved (-1 = unlimited) / allocated / allocated
   non-preemptible in whole units (inner queues: the whole subtree); observed fair share in 1/100 units *)
Record pcase := mkPC {
  p_kind : nat;                   (* 1 reclaim, 2 preempt *)
  p_sigs : bool;
  p_capacity : Z;                 (* units in the cluster *)
  p_units : list snode;           (* free units per node when the action starts *)
  p_queues : list pqueue;         (* every queue of the hierarchy: the leaf queues, then the inner ones *)
  p_running : list rjob;          (* running single-pod jobs; the evicted ones first, in eviction order *)
  p_pending : list pjob;          (* pending single-pod jobs, in pop order *)
  p_evictions : list (positive * positive);   (* observed Evict: victim job, preemptor job *)
  p_pipes : list (positive * positive);       (* observed TaskPipelined: job, node *)
}.

Definition zcount {A} (f : A -> bool) (l : list A) : Z := Z.of_nat (List.length (filter f l)).
Definition find_pq (k : pcase) (q : positive) : option pqueue := find_q (p_queues k) q.

Definition saturated (k : pcase) : bool := forallb (fun n => sn_idle n + sn_rel n <=? 0) (p_units k).
Definition sum_z (l : list Z) : Z := fold_right Z.add 0 l.

Fixpoint indexed {A} (i : nat) (l : list A) : list (nat * A) :=
  match l with [] => [] | x :: r => (i, x) :: indexed (S i) r end.

(** pending jobs of queue [q] popped before position [i] (exclusive), all / non-preemptible *)
Definition before_in_queue (k : pcase) (q : positive) (i : nat) (np_only : bool) : Z :=
  zcount (fun p => Pos.eqb (pj_queue p) q && (negb np_only || negb (pj_preempt p))) (firstn i (p_pending k)).

(** pending jobs popped before position [i] (exclusive) in queue [a] or below it, all / non-preemptible *)
Definition before_under (k : pcase) (a : positive) (i : nat) (np_only : bool) : Z :=
  zcount (fun p => under (p_queues k) a (pj_queue p) && (negb np_only || negb (pj_preempt p))) (firstn i (p_pending k)).

(** the deserved quotas of the leaf queues are finite and fit into the cluster *)
Definition leaf_quotas_fit (k : pcase) : bool :=
  let ls := filter (is_leaf (p_queues k)) (p_queues k) in
  forallb (fun q => 0 <=? pq_deserved q) ls && (sum_z (map pq_deserved ls) <=? p_capacity k).

(** every queue other than [r] that runs pods lies below level [a] (or is [a]): whatever is
    reclaimed for a job of [r], [a] holds afterwards what it held before *)
Definition shared_level (k : pcase) (r : positive) (a : pqueue) : bool :=
  forallb (fun q => Pos.eqb (pq_id q) r
                    || (zcount (fun v => Pos.eqb (rj_queue v) (pq_id q)) (p_running k) =? 0)
                    || under (p_queues k) (pq_id a) (pq_id q)) (p_queues k).

(** the hypotheses of C05_reclaim_progress by the numbers, on the actual queue
    tree (any depth), for the pending job [p] popped at position [i]: the
    cluster is saturated, the leaf quotas fit into the cluster, the job and the
    pending jobs popped before it keep the job's queue AND EVERY ANCESTOR within
    the deserved quota (not asked of an ancestor below which every reclaimable
    pod runs too: it holds the same after the reclaim as before;
    non-preemptible: also the non-preemptible part, at every level), the
    other queues run an eligible pod (preemptible, on a node where the pending
    pod can run) for each of these jobs, and for every other queue that runs
    pods the queue of its side ON THE LEVEL WHERE THE TWO ROOT-TO-LEAF PATHS
    DIVERGE (the queue itself or an ancestor) has a finite deserved quota and is
    still above it when the [i] jobs popped before [p] have each taken a pod
    from below it (in the class a served job evicts exactly one pod; a queue may
    be reclaimed down to its quota: FitsReclaimStrategy looks at what the queue
    holds before the victim is subtracted) *)
Definition reclaim_expected (k : pcase) (i : nat) (p : pjob) : bool :=
  let qs := p_queues k in
  saturated k
  && leaf_quotas_fit k
  && match chain_q qs (pj_queue p) with
     | [] => false
     | ch => chain_within ch (pj_preempt p) (shared_level k (pj_queue p))
                          (fun a => before_under k (pq_id a) i false)
                          (fun a => before_under k (pq_id a) i true)
     end
  && (Z.of_nat i + 1 <=? zcount (fun v => negb (Pos.eqb (rj_queue v) (pj_queue p)) && rj_preempt v) (p_running k))
  && forallb (fun q => Pos.eqb (pq_id q) (pj_queue p)
                       || (zcount (fun v => Pos.eqb (rj_queue v) (pq_id q)) (p_running k) =? 0)
                       || victim_level_above qs (pj_queue p) (pq_id q) (Z.of_nat i)) qs.

(** the hypotheses of C05_preempt_progress by the numbers: saturated, enough
    strictly lower-priority preemptible pods of the same queue for this job and
    the pending jobs of its queue popped before it, and the non-preemptible
    quota gate *)
Definition np_gate_by_numbers (k : pcase) (i : nat) (p : pjob) : bool :=
  match find_pq k (pj_queue p) with
  | Some q => pj_preempt p || (pq_np q + before_in_queue k (pj_queue p) i true + 1 <=? pq_deserved q)
  | None => false
  end.
(** pending jobs OF QUEUE [q] popped before position [i] that can take a victim at all.  The
    victims of preempt are pods of the preemptor's own queue (buildFilterFuncForPreempt): pending
    jobs of other queues neither take a victim of this queue nor - the cluster being saturated
    and every commit nominating the preemptor onto the unit its victim releases - a free unit. *)
Definition takers_before (k : pcase) (q : positive) (i : nat) : Z :=
  zcount (fun jp => Pos.eqb (pj_queue (snd jp)) q && np_gate_by_numbers k (fst jp) (snd jp))
         (firstn i (indexed 0 (p_pending k))).
(** Several leaf queues may hold pending jobs (same pod shape, i.e. one scheduling signature for
    the whole cluster): what happened to the pending jobs of another queue - in particular that
    one of them failed and became that queue's representative - is no hypothesis here. *)
Definition preempt_expected (k : pcase) (i : nat) (p : pjob) : bool :=
  saturated k
  && (takers_before k (pj_queue p) i + 1
      <=? zcount (fun v => Pos.eqb (rj_queue v) (pj_queue p) && rj_preempt v && (rj_prio v <? pj_prio p)) (p_running k))
  && np_gate_by_numbers k i p.

Definition served (k : pcase) (p : pjob) : bool :=
  existsb (fun e => Pos.eqb (snd e) (pj_id p)) (p_evictions k)
  && existsb (fun e => Pos.eqb (fst e) (pj_id p)) (p_pipes k).

Definition expected (k : pcase) (i : nat) (p : pjob) : bool :=
  match p_kind k with
  | 1%nat => reclaim_expected k i p
  | 2%nat => preempt_expected k i p
  | _ => false
  end.
Definition progress_ok (k : pcase) : bool :=
  forallb (fun ip => negb (expected k (fst ip) (snd ip)) || served k (snd ip)) (indexed 0 (p_pending k)).

(** the model's action with the observed victim order; gates by the numbers *)
Definition queue_of_job (k : pcase) (jid : positive) : option positive :=
  match find (fun p => Pos.eqb (pj_id p) jid) (p_pending k) with
  | Some p => Some (pj_queue p)
  | None => match find (fun v => Pos.eqb (rj_id v) jid) (p_running k) with
            | Some v => Some (rj_queue v)
            | None => None
            end
  end.
(** job [jid] belongs to queue [a] or to a queue below it *)
Definition in_queue (k : pcase) (a : positive) (jid : positive) : bool :=
  match queue_of_job k jid with Some q => under (p_queues k) a q | None => false end.
Definition np_of_job (k : pcase) (jid : positive) : bool :=
  match find (fun p => Pos.eqb (pj_id p) jid) (p_pending k) with
  | Some p => negb (pj_preempt p)
  | None => false
  end.
(** allocated units of queue [q] (its whole subtree) in state [st]: the snapshot plus the nominations
    minus the evictions *)
Definition alloc_in (k : pcase) (st : vstate) (q : positive) (np_only : bool) : Z :=
  match find_pq k q with
  | Some x =>
      (if np_only then pq_np x else pq_alloc x)
      + zcount (fun cm => in_queue k q (cm_job cm) && (negb np_only || np_of_job k (cm_job cm))) (vs_log st)
      - (if np_only then 0
         else zcount (fun v => in_queue k q v) (flat_map cm_evicted (vs_log st)))
  | None => 0
  end.
(** the queue tree with the books of state [st] *)
Definition tree_in (k : pcase) (st : vstate) : list pqueue :=
  map (fun x => mkPQ (pq_id x) (pq_parent x) (pq_deserved x) (alloc_in k st (pq_id x) false)
                     (alloc_in k st (pq_id x) true) (pq_fair x)) (p_queues k).
(** CanReclaimResources (Model/Reclaim.v) on the numbers: the job's LEAF queue within its (observed)
    fair share; non-preemptible: within the deserved quota *)
Definition m_can_reclaim (k : pcase) : vstate -> pjob -> bool := tree_gate (tree_in k).
(** Reclaimable (Model/Reclaim.v) on the numbers and the evicted victims of the scenario: per victim
    FitsReclaimStrategy on the pair of queues getLeveledQueues returns (the level where the paths of
    the reclaimer's and the victim's queue diverge), then the boundaries of the reclaimer's chain *)
Definition m_valid (k : pcase) : vstate -> pjob -> list rjob -> bool := tree_valid (tree_in k).
Definition m_np_gate (k : pcase) (st : vstate) (p : pjob) : bool :=
  match find_pq k (pj_queue p) with
  | Some x => pj_preempt p || (alloc_in k st (pj_queue p) true + 1 <=? pq_deserved x)
  | None => false
  end.
Definition m_true3 {A B C} (_ : A) (_ : B) (_ : C) : bool := true.
Definition m_ahead (_ : vstate) (_ : pjob) (_ : list rjob) : nat := O.
Definition m_pending (_ : pjob) : list sreq := [mkSR 1000 1 1 1000 0].

Definition model_log (k : pcase) : list commit :=
  let st0 := mkVS (p_units k) (p_running k) [] in
  vs_log (fst (match p_kind k with
               | 1%nat => reclaim_action (fun _ _ => true) m_true3 (m_valid k) m_ahead (p_sigs k) m_pending
                                         (m_can_reclaim k) st0 (p_pending k)
               | _ => preempt_action (fun _ _ => true) m_true3 m_true3 m_ahead (p_sigs k) m_pending
                                     (m_np_gate k) st0 (p_pending k)
               end)).

(** the class of the model: the action starts on a saturated cluster *)
Definition class_ok (k : pcase) : bool := saturated k.

Definition node_of_victim (k : pcase) (v : positive) : option positive :=
  option_map rj_node (find (fun r => Pos.eqb (rj_id r) v) (p_running k)).

Definition prog_agrees (k : pcase) : bool :=
  negb (class_ok k)
  || (let log := model_log k in
      forallb (fun p =>
                 match find (fun cm => Pos.eqb (cm_job cm) (pj_id p)) log with
                 | Some cm =>
                     served k p
                     && existsb (fun e => Pos.eqb (fst e) (pj_id p) && Pos.eqb (snd e) (cm_node cm)) (p_pipes k)
                 | None => negb (served k p)
                 end) (p_pending k)).


(** * KRFault: reclaim under Evict failures *)

Record evobs := mkEO { eo_victim : positive; eo_preemptor : positive; eo_ok : bool }.
Record rfcase := mkRFC {
  rfc_p : pcase;                           (* [p_evictions]: the ACCEPTED Evict calls; [p_running]: jobs with an Evict call
                                              (accepted or not) first, in call order; [p_pending]: the REAL pop order *)
  rfc_evicts : list evobs;                 (* every Evict call of the action, in order, with outcome *)
  rfc_status : list (positive * status);   (* final session status of the pod of every unit job *)
}.

(** the failure oracle as the run shows it: a call for this (victim, preemptor) was refused *)
Definition rfc_oracle (k : rfcase) : eoracle :=
  fun _ v p => existsb (fun e => Pos.eqb (eo_victim e) v && Pos.eqb (eo_preemptor e) p && negb (eo_ok e)) (rfc_evicts k).

Definition rfault_run (k : rfcase) : rfstate :=
  let c := rfc_p k in
  match p_kind c with
  | 1%nat => reclaim_action_f (fun _ _ => true) m_true3 (m_valid c) m_ahead (p_sigs c) m_pending (m_can_reclaim c) true (rfc_oracle k)
                              (mkVS (p_units c) (p_running c) []) (p_pending c)
  | _ => preempt_action_f (fun _ _ => true) m_true3 m_true3 m_ahead (p_sigs c) m_pending (m_np_gate c) true (rfc_oracle k)
                          (mkVS (p_units c) (p_running c) []) (p_pending c)
  end.

Definition ecall_evict (c : ecall) : list evobs :=
  match c with
  | EEvict v p => [mkEO v p true]
  | EEvictRefused v p => [mkEO v p false]
  | EPipe _ _ => []
  end.
Definition evobs_eqb (a b : evobs) : bool :=
  Pos.eqb (eo_victim a) (eo_victim b) && Pos.eqb (eo_preemptor a) (eo_preemptor b) && Bool.eqb (eo_ok a) (eo_ok b).

Definition rf_model_status (c : pcase) (fs : rfstate) (j : positive) : status :=
  if existsb (fun p => Pos.eqb (pj_id p) j) (p_pending c) then
    (if nominated (rf_calls fs) j then Pipelined else Pending)
  else if existsb (fun x => match x with EEvict v _ => Pos.eqb v j | _ => false end) (rf_calls fs) then Releasing
  else Running.

(** the model's faulty reclaim vs the recorded calls: the same Evict calls with the same outcomes,
    commit by commit in the same order of preemptors (inside one commit the order of the evictions
    is that of the statement's operation list), the same nominations on the same nodes, the same
    final status of every pod *)
Definition rfault_agrees (k : rfcase) : bool :=
  let c := rfc_p k in
  negb (class_ok c)
  || (let fs := rfault_run k in
      let mev := flat_map ecall_evict (rf_calls fs) in
      Nat.eqb (List.length mev) (List.length (rfc_evicts k))
      && list_eqb2 Pos.eqb (map eo_preemptor mev) (map eo_preemptor (rfc_evicts k))
      && forallb (fun e => existsb (evobs_eqb e) (rfc_evicts k)) mev
      && forallb (fun e => existsb (evobs_eqb e) mev) (rfc_evicts k)
      && forallb (fun p => match find (fun cm => Pos.eqb (cm_job cm) (pj_id p)) (vs_log (rf_st fs)) with
                           | Some cm => existsb (fun e => Pos.eqb (fst e) (pj_id p) && Pos.eqb (snd e) (cm_node cm)) (p_pipes c)
                           | None => negb (existsb (fun e => Pos.eqb (fst e) (pj_id p)) (p_pipes c))
                           end) (p_pending c)
      && forallb (fun js => status_eqb (rf_model_status c fs (fst js)) (snd js)) (rfc_status k)).

(** monitor: the clause of C05_reclaim_progress_under_evict_faults on the real dumps *)
Definition rf_refused_for (k : rfcase) (p : pjob) : bool :=
  existsb (fun e => Pos.eqb (eo_preemptor e) (pj_id p) && negb (eo_ok e)) (rfc_evicts k).
Definition rf_popped_before (k : rfcase) (i : nat) (j : positive) : bool :=
  existsb (fun q => Pos.eqb (pj_id q) j) (firstn i (p_pending (rfc_p k))).
(** evictions accepted for the jobs popped before position [i] *)
Definition rf_taken_before (k : rfcase) (i : nat) : Z :=
  zcount (fun e => eo_ok e && rf_popped_before k i (eo_preemptor e)) (rfc_evicts k).
(** a node on which an eviction was refused: its releasing count went below what its nominations need *)
Definition rf_dirty_node (k : rfcase) (n : positive) : bool :=
  existsb (fun e => negb (eo_ok e) && match node_of_victim (rfc_p k) (eo_victim e) with
                                      | Some m => Pos.eqb m n | None => false end) (rfc_evicts k).
(** a victim that is still available when the job at position [i] is popped: eligible, on a node
    without refused evictions, not evicted for a job popped earlier *)
Definition rf_available (k : rfcase) (i : nat) (p : pjob) (v : rjob) : bool :=
  negb (Pos.eqb (rj_queue v) (pj_queue p)) && rj_preempt v && negb (rf_dirty_node k (rj_node v))
  && negb (existsb (fun e => eo_ok e && Pos.eqb (eo_victim e) (rj_id v) && rf_popped_before k i (eo_preemptor e)) (rfc_evicts k)).

(** [reclaim_expected] where the victims taken before the job are those the run shows (a job whose
    eviction was refused took none, a job that had to evict around a refused victim may have taken
    two) and a victim must still be available *)
Definition reclaim_expected_f (k : rfcase) (i : nat) (p : pjob) : bool :=
  let c := rfc_p k in
  let qs := p_queues c in
  let taken := Z.max (Z.of_nat i) (rf_taken_before k i) in
  saturated c
  && leaf_quotas_fit c
  && match chain_q qs (pj_queue p) with
     | [] => false
     | ch => chain_within ch (pj_preempt p) (shared_level c (pj_queue p))
                          (fun a => before_under c (pq_id a) i false)
                          (fun a => before_under c (pq_id a) i true)
     end
  && existsb (rf_available k i p) (p_running c)
  && forallb (fun q => Pos.eqb (pq_id q) (pj_queue p)
                       || (zcount (fun v => Pos.eqb (rj_queue v) (pq_id q)) (p_running c) =? 0)
                       || victim_level_above qs (pj_queue p) (pq_id q) taken) qs.

(** preempt: [preempt_expected] plus a victim of the job's own queue (preemptible, strictly lower
    priority) that is still available: on a node without refused evictions, not evicted for a job
    popped earlier *)
Definition pf_available (k : rfcase) (i : nat) (p : pjob) (v : rjob) : bool :=
  Pos.eqb (rj_queue v) (pj_queue p) && rj_preempt v && (rj_prio v <? pj_prio p) && negb (rf_dirty_node k (rj_node v))
  && negb (existsb (fun e => eo_ok e && Pos.eqb (eo_victim e) (rj_id v) && rf_popped_before k i (eo_preemptor e)) (rfc_evicts k)).
Definition preempt_expected_f (k : rfcase) (i : nat) (p : pjob) : bool :=
  preempt_expected (rfc_p k) i p && existsb (pf_available k i p) (p_running (rfc_p k)).
Definition expected_f (k : rfcase) (i : nat) (p : pjob) : bool :=
  match p_kind (rfc_p k) with
  | 1%nat => reclaim_expected_f k i p
  | 2%nat => preempt_expected_f k i p
  | _ => false
  end.

(** eligible, none of its own evictions refused, a victim still available, yet not served *)
Definition rfault_progress_ok (k : rfcase) : bool :=
  forallb (fun ip => negb (expected_f k (fst ip) (snd ip))
                     || rf_refused_for k (snd ip)
                     || served (rfc_p k) (snd ip)) (indexed 0 (p_pending (rfc_p k))).

(** * KSig *)

Inductive sigop :=
| SUpdate (key jid : positive) (pending : list sreq)
| SQuery (key jid : positive) (pending : list sreq) (easier : bool) (rep : option positive).

Fixpoint sig_agrees (m : reps) (ops : list sigop) : bool :=
  match ops with
  | [] => true
  | SUpdate key jid pend :: r => sig_agrees (update_representative m key jid pend) r
  | SQuery key jid pend e rp :: r =>
      let '(e', rp') := is_easier_to_schedule m key pend in
      Bool.eqb e e'
      && match rp, rp' with
         | Some a, Some b => Pos.eqb a b
         | None, None => true
         | _, _ => false
         end
      && sig_agrees m r
  end.

(** * entry points *)
Inductive c05case := KAlloc (a : acase) | KProg (p : pcase) | KSig (ops : list sigop) | KFault (f : fcase) | KRFault (r : rfcase).

Definition model_agrees (c : c05case) : bool :=
  match c with
  | KAlloc a => alloc_agrees a
  | KProg p => prog_agrees p
  | KSig ops => sig_agrees [] ops
  | KFault f => fault_agrees f
  | KRFault r => rfault_agrees r
  end.
Definition monitor_ok (c : c05case) : bool :=
  match c with
  | KAlloc a => conservation_ok a
  | KProg p => progress_ok p
  | KSig _ => true
  | KFault f => fault_conservation_ok f
  | KRFault r => rfault_progress_ok r
  end.
Definition run_mismatches (cs : list (nat * c05case)) : list nat := failing (fun k => negb (model_agrees k)) cs.
Definition run_monitor (cs : list (nat * c05case)) : list nat := failing (fun k => negb (monitor_ok k)) cs.
Definition run_flags (cs : list (nat * c05case)) : list (nat * list nat) :=
  filter (fun p => negb (Nat.eqb (List.length (snd p)) 0))
         (map (fun c => (fst c, match snd c with
                             | KAlloc a => cycle_flags (as_ccase a)
                             | KFault f => cycle_flags (as_ccase (fc_a f)) ++ fault_flags f
                             | _ => []
                             end)) cs).
