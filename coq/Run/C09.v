(** Correspondence + monitor entry points for C09 (used by generated cases).

    A [Flat] case is one call of resource_division.SetResourcesShare: per resource the
    total, the queues as given (fair share 0, as proportion.go builds them) and the
    fair shares the real code produced under several shuffled map insertion orders.

    A [Tree] case is one session: the real proportion plugin opened on a generated
    queue hierarchy (OnSessionOpen -> setFairShare -> setFairShareForQueues, the real
    recursion); every queue carries the fair share read back from the plugin (see
    the last section).

    Floats.  Every float64 is a dyadic rational, so inputs and outputs are exact [Q]
    terms.  The model computes in exact arithmetic.  [i_set_resource_share] below is
    an instrumented twin of the model that also reports
      - whether every intermediate value it computed is a small dyadic rational
        (multiple of 2^-16 below 2^31): then IEEE-754 arithmetic on the same inputs
        is exact whatever the iteration order (sums of up to 64 such terms stay
        below 2^53), the Go result must equal the model's result EXACTLY, and the
        monitor runs without slack;
      - otherwise the smallest margin by which any branch was decided: when it is at
        least 1e-6 the Go result must agree within 1e-6, when it is smaller the case
        is near a rounding cliff and is not compared (skipped, never alarmed on).
    The twin's result is required to coincide with the model's on every case. *)
From Coq Require Import QArith Qround Qabs Qminmax.
From KaiV Require Export Run.Prelude Model.FairShare Model.FairShareSpec.
Open Scope Q_scope.

(** constructor used by the generated cases (QArith is not re-exported) *)
Definition QM (n : Z) (d : positive) : Q := Qmake n d.

Record rcase := {
  rc_total : Q;
  rc_queues : list queue;                   (* as given to Go; q_fair = 0 *)
  rc_obs : list (list (positive * Q));      (* per insertion order: UID -> FairShare *)
}.

Record fcase := {
  k_kvalue : Q;
  k_res : list rcase;       (* CPU, Memory, GPU *)
  k_returned : bool;        (* SetResourcesShare returned (watchdog) *)
}.

(** ---- instrumented twin ---- *)
Definition D : Type := bool * Q.
Definition d0 : D := (true, 1000000).
Fixpoint is_pow2 (p : positive) : bool :=
  match p with xH => true | xO p' => is_pow2 p' | xI _ => false end.
Definition repr (v : Q) : bool :=
  let v' := Qred v in
  is_pow2 (Qden v') && (Qden v' <=? 65536)%positive
  && (Z.abs (Qnum v') <? 2147483648 * Zpos (Qden v'))%Z.
Definition dv (d : D) (v : Q) : D := (fst d && repr v, snd d).
Definition dc (d : D) (a b : Q) : D := (fst d, qmin (snd d) (Qred (Qabs (a - b)))).

Definition i_remaining_requested (q : queue) (d : D) : Q * D :=
  let v := remaining_requested q in (v, dv d v).

Definition i_satisfied (q : queue) (d : D) : bool * D :=
  let d1 := dc d (q_request q) (q_fair q) in
  let d2 := if qeqb (q_limit q) unlimited then d1 else dc d1 (q_limit q) (q_fair q) in
  (satisfied q, d2).

Fixpoint i_set_deserved (total rem : Q) (qs : list queue) (d : D) : list queue * Q * D :=
  match qs with
  | [] => ([], rem, d)
  | q :: r =>
      let dd := if qeqb (q_deserved q) unlimited then total else q_deserved q in
      let amt := qmin dd (requestable q) in
      let rem1 := qsub rem amt in
      let d1 := dv (dv d (qadd (q_fair q) amt)) rem1 in
      let '(r', rem', d') := i_set_deserved total rem1 r d1 in
      (add_share q amt :: r', rem', d')
  end.

Definition i_total_weights (qs : list rq) (d : D) : Q * D :=
  fold_left (fun (acc : Q * D) (x : rq) =>
               let '(rr, d1) := i_remaining_requested (fst x) (snd acc) in
               let d2 := dc d1 rr 0 in
               if qltb 0 rr then let a := qadd (fst acc) (q_weight (fst x)) in (a, dv d2 a)
               else (fst acc, d2))
            qs (0, d).

Definition i_share_weight (k W : Q) (q : queue) (d : D) : Q * D :=
  let nw := qdiv (q_weight q) W in
  let t1 := qsub nw (q_usage q) in
  let t2 := qmul k t1 in
  let t3 := qadd nw t2 in
  (qmax 0 t3, dv (dv (dv (dv d nw) t1) t2) t3).

Definition i_share_weights_sum (k W : Q) (qs : list rq) (d : D) : Q * D :=
  fold_left (fun (acc : Q * D) (x : rq) =>
               let '(s, d1) := i_satisfied (fst x) (snd acc) in
               if s then (fst acc, d1)
               else let '(sw, d2) := i_share_weight k W (fst x) d1 in
                    let a := qadd (fst acc) sw in (a, dv d2 a))
            qs (0, d).

Definition i_give_in_round (fs requested : Q) (old : option Q) (d : D) : Q * option Q * D :=
  let d1 := dc d requested fs in
  if qleb requested fs then (requested, None, d1)
  else
    let r := qfloor fs in
    let d2 := dc (dc d1 fs r) fs (qadd r 1) in
    let g := if qltb 0 r then r else 0 in
    let dd := qsub fs g in
    let d3 := dc (dv d2 dd) dd 0 in
    (g, (if qltb 0 dd then Some dd else old), d3).

Fixpoint i_round_queues (amount k W sum : Q) (qs : list rq) (total : Q) (again : bool) (d : D)
  : list rq * Q * bool * D :=
  match qs with
  | [] => ([], total, again, d)
  | (q, e) :: r =>
      let d1 := dc d total 0 in
      if qeqb total 0 then (qs, total, again, d1)
      else
        let '(s, d2) := i_satisfied q d1 in
        if s then
          let '(r', t', a', d') := i_round_queues amount k W sum r total again d2 in
          ((q, e) :: r', t', a', d')
        else if qeqb (q_weight q) 0 then
          let '(r', t', a', d') := i_round_queues amount k W sum r total again d2 in
          ((q, e) :: r', t', a', d')
        else
          let '(requested, d3) := i_remaining_requested q d2 in
          let '(sw, d4) := i_share_weight k W q d3 in
          let nq := qdiv sw sum in
          let fs := qmul amount nq in
          let d5 := dv (dv d4 nq) fs in
          let '(g, e', d6) := i_give_in_round fs requested e d5 in
          let d7 := dc d6 g 0 in
          if qeqb g 0 then
            let '(r', t', a', d') := i_round_queues amount k W sum r total again d7 in
            ((q, e') :: r', t', a', d')
          else
            let t1 := qsub total g in
            let d8 := dv (dv d7 (qadd (q_fair q) g)) t1 in
            let '(r', t', a', d') :=
              i_round_queues amount k W sum r t1 (again || qltb requested fs) d8 in
            ((add_share q g, e') :: r', t', a', d')
  end.

Fixpoint i_divide_up_to (fuel : nat) (k : Q) (qs : list rq) (total : Q) (d : D)
  : outcome (list rq * Q * D) :=
  match fuel with
  | O => OutOfFuel
  | S f =>
      let '(W, d1) := i_total_weights qs d in
      let d2 := dc d1 W 0 in
      if qeqb W 0 then Done (qs, total, d2)
      else
        let '(sum, d3) := i_share_weights_sum k W qs d2 in
        let d4 := dc d3 sum 0 in
        if qeqb sum 0 then Done (qs, total, d4)
        else
          let '(qs', total', again, d5) := i_round_queues total k W sum qs total false d4 in
          let d6 := dc d5 total' 0 in
          if negb again || qeqb total' 0 then Done (qs', total', d6)
          else i_divide_up_to f k qs' total' d6
  end.

Fixpoint i_run_bands (k : Q) (ps : list Z) (qs : list queue) (total : Q) (d : D)
  : outcome (list (list rq) * Q * D) :=
  match ps with
  | [] => Done ([], total, d)
  | p :: r =>
      let b := band p qs in
      match i_divide_up_to (S (List.length b)) k b total d with
      | OutOfFuel => OutOfFuel
      | Done (b', total', d1) =>
          match i_run_bands k r qs total' d1 with
          | OutOfFuel => OutOfFuel
          | Done (bs, t, d2) => Done (b' :: bs, t, d2)
          end
      end
  end.

Fixpoint i_insert_entry (x : rq) (l : list rq) (d : D) : list rq * D :=
  match l with
  | [] => ([x], d)
  | y :: r =>
      let d1 := dc d (entry_amount x) (entry_amount y) in
      if entry_before x y then (x :: y :: r, d1)
      else let '(r', d') := i_insert_entry x r d1 in (y :: r', d')
  end.
Definition i_sort_entries (l : list rq) (d : D) : list rq * D :=
  fold_right (fun x (acc : list rq * D) => i_insert_entry x (fst acc) (snd acc)) ([], d) l.

(** [tz]: the total is known to be exactly 0 in floating point too (it was produced
    as x - x), so comparing it with 0 is not a cliff *)
Fixpoint i_hand_out (es : list rq) (total : Q) (tz : bool) (d : D) : list rq * Q * bool * D :=
  match es with
  | [] => ([], total, tz, d)
  | (q, e) :: r =>
      let d1 := if tz then d else dc d total 0 in
      if qeqb total 0 then (es, total, tz, d1)
      else
        let d2 := dc d1 1 total in
        let g := qmin 1 total in
        let t1 := qsub total g in
        let d3 := dv (dv d2 (qadd (q_fair q) g)) t1 in
        let '(r', t, tz', d') := i_hand_out r t1 (qleb total 1) d3 in
        ((add_share q g, e) :: r', t, tz', d')
  end.

Definition i_divide_remaining (b : list rq) (total : Q) (d : D) : list rq * Q * bool * D :=
  let '(sorted, d1) := i_sort_entries (filter has_entry b) d in
  let '(es, t, tz, d2) := i_hand_out sorted total false d1 in
  (es ++ filter (fun x => negb (has_entry x)) b, t, tz, d2).

Fixpoint i_hand_out_bands (bs : list (list rq)) (total : Q) (tz : bool) (d : D)
  : list (list rq) * Q * D :=
  match bs with
  | [] => ([], total, d)
  | b :: r =>
      let d1 := if tz then d else dc d total 0 in
      if qleb total 0 then (bs, total, d1)
      else if negb (existsb has_entry b) then
        let '(r', t, d') := i_hand_out_bands r total tz d1 in (b :: r', t, d')
      else
        let '(b', t', tz', d2) := i_divide_remaining b total d1 in
        let '(r', t, d') := i_hand_out_bands r t' tz' d2 in (b' :: r', t, d')
  end.

Definition i_set_resource_share (total k : Q) (qs : list queue) : outcome (list queue * D) :=
  let din := fold_left (fun d q => dv (dv (dv (dv (dv d (q_deserved q)) (q_limit q)) (q_weight q))
                                          (q_request q)) (q_usage q)) qs (dv (dv d0 total) k) in
  let '(qs1, rem, d1) := i_set_deserved total total qs din in
  let d2 := dc d1 rem 0 in
  if qltb 0 rem then
    match i_run_bands k (priorities qs1) qs1 rem d2 with
    | OutOfFuel => OutOfFuel
    | Done (bs, t, d3) =>
        let '(bs', _, d4) := i_hand_out_bands bs t false d3 in
        Done (map fst (List.concat bs'), d4)
    end
  else Done (qs1, d2).

(** ---- comparison ---- *)
Definition cliff : Q := 1 # 1000000.

Fixpoint look (obs : list (positive * Q)) (u : positive) : option Q :=
  match obs with
  | [] => None
  | (v, f) :: r => if (v =? u)%positive then Some f else look r u
  end.

Definition close (eps a b : Q) : bool := Qle_bool (Qabs (a - b)) eps.

Definition same_result (a b : list queue) : bool :=
  (List.length a =? List.length b)%nat
  && forallb (fun q => match fair_of (q_uid q) b with
                       | Some f => Qeq_bool f (q_fair q) | None => false end) a.

(** observed fair shares vs. the model's, within [eps] (0 = exactly) *)
Definition obs_matches (eps : Q) (out : list queue) (obs : list (positive * Q)) : bool :=
  (List.length obs =? List.length out)%nat
  && forallb (fun q => match look obs (q_uid q) with
                       | Some f => close eps f (q_fair q) | None => false end) out.

(** 0 = exact, 1 = compared within tolerance, 2 = skipped (near a cliff) *)
Definition rc_class (kv : Q) (rc : rcase) : nat :=
  match i_set_resource_share (rc_total rc) kv (rc_queues rc) with
  | OutOfFuel => 0%nat
  | Done (_, d) => if fst d then 0%nat else if Qle_bool cliff (snd d) then 1%nat else 2%nat
  end.

Definition rc_agrees (kv : Q) (rc : rcase) : bool :=
  match set_resource_share (rc_total rc) kv (rc_queues rc),
        i_set_resource_share (rc_total rc) kv (rc_queues rc) with
  | Done (out, _), Done (iout, d) =>
      same_result out iout
      && (if fst d then forallb (obs_matches 0 out) (rc_obs rc)
          else if Qle_bool cliff (snd d) then forallb (obs_matches cliff out) (rc_obs rc)
          else true)
  | _, _ => false
  end.

Definition flat_agrees (k : fcase) : bool :=
  k_returned k && forallb (rc_agrees (k_kvalue k)) (k_res k).

(** The property itself, evaluated on what the real code returned: the contract
    clauses on the result of the first insertion order, and equality (within the
    slack) of the results of all other insertion orders with it.  On a case that the
    model places next to a rounding cliff (class 2: e.g. remainders that tie in exact
    arithmetic and are told apart only by float rounding) different insertion orders
    may legitimately yield different results in floating point; there every
    differing result must satisfy the contract clauses itself.  (The harness counts
    such cases as [orders_differ_substantially].) *)
Definition rc_eps (kv : Q) (rc : rcase) : Q :=
  match rc_class kv rc with 0%nat => 0 | _ => cliff end.

Definition agree (eps : Q) (o1 o2 : list (positive * Q)) : bool :=
  (List.length o1 =? List.length o2)%nat
  && forallb (fun uf => match look o2 (fst uf) with
                        | Some f => close eps f (snd uf) | None => false end) o1.

Definition obs_contract (eps kv : Q) (rc : rcase) (o : list (positive * Q)) : bool :=
  (List.length o =? List.length (rc_queues rc))%nat
  && match pair_with (look o) (rc_queues rc) with
     | None => false
     | Some l => contract_ok eps (rc_total rc) kv l
     end.

Definition rc_monitor (kv : Q) (rc : rcase) : bool :=
  let cls := rc_class kv rc in
  let eps := rc_eps kv rc in
  match rc_obs rc with
  | [] => false
  | o1 :: rest =>
      obs_contract eps kv rc o1
      && forallb (fun o => agree eps o1 o
                           || (match cls with 2%nat => true | _ => false end
                               && obs_contract eps kv rc o)) rest
  end.

(** flag 1 (known finding C09-order-dependent-at-ties): the real results differ
    between enumeration orders on a resource that the model places at an
    exact-arithmetic tie / rounding cliff (class 2).  Such a disagreement is not a
    monitor failure (every differing result must still satisfy the contract); a
    disagreement on any other case is. *)
Definition rc_flag (kv : Q) (rc : rcase) : bool :=
  match rc_class kv rc, rc_obs rc with
  | 2%nat, o1 :: rest => negb (forallb (agree (rc_eps kv rc) o1) rest)
  | _, _ => false
  end.

Definition flat_monitor (k : fcase) : bool :=
  k_returned k && forallb (rc_monitor (k_kvalue k)) (k_res k).

(** ---- the hierarchy: one real session per case ----

    [ON cpu mem gpu obs kids]: a queue as the plugin builds it for the three
    resources (quota, limit, over-quota weight from the QueueInfo; priority,
    creation time; request = the jobs' requests summed over the queue's sub-tree;
    historical usage; fair share 0), the fair share [obs] = (CPU, memory, GPU) read
    back from the plugin after OnSessionOpen, and the queue's children.
    [t_totals] are the cluster totals (sum of the nodes' allocatable resources),
    [t_roots] the top queues, [t_opened] says that OnSessionOpen returned without a
    panic.  One observation per queue: the session is opened once (Go's map
    iteration order inside the recursion is whatever it was). *)
Inductive otree : Type := ON (cpu mem gpu : queue) (obs : Q3) (kids : list otree).

Record tcase := {
  t_kvalue : Q;
  t_totals : Q3;
  t_roots : list otree;
  t_opened : bool;
}.

Inductive case : Type := Flat (c : fcase) | Tree (t : tcase).

Definition o_queue3 (t : otree) : queue3 := match t with ON c m g _ _ => mkQ3 c m g end.
Definition o_obs (t : otree) : Q3 := match t with ON _ _ _ o _ => o end.
Definition o_kids (t : otree) : list otree := match t with ON _ _ _ _ k => k end.

(** the hierarchy as given to the plugin *)
Fixpoint o_tree (t : otree) : qtree :=
  match t with ON c m g _ kids => QT (mkQ3 c m g) (map o_tree kids) end.

(** every sibling set of the observed hierarchy with the amount it divided: the
    top queues with the cluster totals, the children of every queue with the fair
    share OBSERVED at that queue (an empty set of children is never divided) *)
Fixpoint sets_below (t : otree) : list (Q3 * list otree) :=
  match t with
  | ON _ _ _ obs kids =>
      (match kids with [] => [] | _ :: _ => [(obs, kids)] end) ++ flat_map sets_below kids
  end.
Definition all_sets (tc : tcase) : list (Q3 * list otree) :=
  (t_totals tc, t_roots tc) :: flat_map sets_below (t_roots tc).

(** one sibling set and one resource as a division case (a single observation) *)
Definition set_rcase (r : resource) (s : Q3 * list otree) : rcase :=
  {| rc_total := sel r (fst s);
     rc_queues := map (fun t => res_of r (o_queue3 t)) (snd s);
     rc_obs := [map (fun t => (q_uid (res_of r (o_queue3 t)), sel r (o_obs t))) (snd s)] |}.

Definition tree_rcases (tc : tcase) : list rcase :=
  flat_map (fun s => map (fun r => set_rcase r s) all_resources) (all_sets tc).

(** observed fair shares against a result of the model, exactly, at every queue *)
Fixpoint same_tree (fuel : nat) (m : list qtree) (o : list otree) : bool :=
  match fuel with
  | O => false
  | S f =>
      (List.length m =? List.length o)%nat
      && forallb (fun mo =>
                    let '(mt, ot) := mo in
                    forallb (fun r => Qeq_bool (q_fair (res_of r (troot mt))) (sel r (o_obs ot))
                                      && (q_uid (res_of r (troot mt)) =? q_uid (res_of r (o_queue3 ot)))%positive)
                            all_resources
                    && same_tree f (tkids mt) (o_kids ot))
                 (combine m o)
  end.

(** Correspondence for a hierarchy.
    (a) Level by level: for every sibling set and resource the model's division of
        the amount observed at the parent must match the fair shares observed at
        the children ([rc_agrees]: exactly when float arithmetic is exact on that
        division, within 1e-6 away from rounding cliffs, skipped next to one).  A
        recursion that hands the children a different total, or does not divide them
        at all, fails here.
    (b) The whole hierarchy: when every division of the case is exact, the model's
        [set_fair_share_tree] on the given hierarchy (cluster totals at the top,
        nothing observed is used) must equal the observation at every queue. *)
Definition tree_exact (tc : tcase) : bool :=
  forallb (fun rc => match rc_class (t_kvalue tc) rc with 0%nat => true | _ => false end)
          (tree_rcases tc).

Definition tree_agrees (tc : tcase) : bool :=
  t_opened tc
  && forallb (rc_agrees (t_kvalue tc)) (tree_rcases tc)
  && (if tree_exact tc then
        let m := map o_tree (t_roots tc) in
        match set_fair_share_tree (forest_depth m) (t_totals tc) (t_kvalue tc) m with
        | Done out => same_tree (S (forest_depth m)) out (t_roots tc)
        | OutOfFuel => false
        end
      else true).

(** The property on the observed hierarchy: every clause of the contract
    ([contract_ok]: lower bound, upper bound, conservation, and on well-formed
    inputs no idle surplus, priority bands, weight monotonicity) on EVERY sibling
    set, with the fair share observed at the parent as the amount divided. *)
Definition tree_monitor (tc : tcase) : bool :=
  t_opened tc && forallb (rc_monitor (t_kvalue tc)) (tree_rcases tc).

Definition model_agrees (k : case) : bool :=
  match k with Flat c => flat_agrees c | Tree t => tree_agrees t end.

Definition monitor_ok (k : case) : bool :=
  match k with Flat c => flat_monitor c | Tree t => tree_monitor t end.

Definition flags (k : case) : list nat :=
  match k with
  | Flat c => if existsb (rc_flag (k_kvalue c)) (k_res c) then [1%nat] else []
  | Tree _ => []
  end.
Definition run_flags (cs : list (nat * case)) : list (nat * list nat) :=
  filter (fun p => negb (Nat.eqb (List.length (snd p)) 0)) (map (fun c => (fst c, flags (snd c))) cs).

Definition run_mismatches (cs : list (nat * case)) : list nat := failing (fun k => negb (model_agrees k)) cs.
Definition run_monitor (cs : list (nat * case)) : list nat := failing (fun k => negb (monitor_ok k)) cs.

(** distribution of the comparison classes over the divisions of the cases
    (exact, within tolerance, skipped near a cliff): the resources of the flat
    cases, and the (sibling set, resource) pairs of the hierarchies *)
Definition case_rcases (k : case) : Q * list rcase :=
  match k with Flat c => (k_kvalue c, k_res c) | Tree t => (t_kvalue t, tree_rcases t) end.
Definition run_classes (cs : list (nat * case)) : nat * nat * nat :=
  fold_left (fun acc c =>
     let '(kv, rcs) := case_rcases (snd c) in
     fold_left (fun (a : nat * nat * nat) rc =>
        let '(x, y, z) := a in
        match rc_class kv rc with
        | 0%nat => (S x, y, z) | 1%nat => (x, S y, z) | _ => (x, y, S z) end)
       rcs acc) cs (0%nat, 0%nat, 0%nat).
(** hierarchies: all divisions exact (whole-tree comparison applies) / others *)
Definition run_tree_classes (cs : list (nat * case)) : nat * nat :=
  fold_left (fun (a : nat * nat) c =>
     match snd c with
     | Flat _ => a
     | Tree t => if tree_exact t then (S (fst a), snd a) else (fst a, S (snd a))
     end) cs (0%nat, 0%nat).

(** bin/check reads the failing indices as [<n>%nat]: keep a numeral scope other
    than nat open in the files that import this one (as Run/C19.v does). *)
Open Scope Z_scope.
