(** C06: correspondence + monitor entry points.
    - [KCycle]: one real scheduling cycle (snapshot + Cache calls, Run/Cycle.v)
      with the queue tree, min-runtime settings and start times.  The recording
      cache of the harness makes chosen Evict / Bind calls FAIL (they return an
      error and do not reach the cluster): [y_fcalls] is the full call stream,
      each call marked accepted or refused ([c_calls] of the snapshot case keeps
      the accepted ones).  The calls are cut into commits (a run of Evict calls,
      accepted or refused, with the same action and preemptor followed by the
      nominations of that statement); every commit must be an accepted run of the
      model ([run_scenario_f] with the real victims and placements as oracle
      values and the observed refusals as failure oracle) producing the same
      calls, and the property clauses are evaluated on every real Evict call.
      How a refused eviction is treated (Statement.commitEvict as repaired by
      5a5de9a): the error is logged; the evict operation is reversed, i.e.
      Statement.unevict is called with the status, GPU groups and node the
      operation recorded when the pod was evicted - so in the session the pod is
      back to what it was before the eviction (e.g. Running; it keeps the node
      name the statement gave it if the statement re-placed it), the previous
      node's copy is refreshed (and the plugins' allocate handlers run); the
      remaining operations of the statement - the nominations - are still
      committed.  The session the cycle ends in, derived from the calls under
      this reading, is compared with the statuses read from the real session
      ([y_final]) for EVERY pod, the ones whose eviction was refused included.
      Purpose-built clusters carry the designated scenario: the
      model's verdict "evicts / does not evict" must equal the real outcome.
    - [KResolve]: the min-runtime durations the real plugin resolved for a pair
      of queues (read back through its exported filter hooks).
    - [KValid]: the real scenario validators on a hand-made scenario. *)
From KaiV Require Export Run.Cycle Model.Victims Model.VictimsSpec.
Open Scope Z_scope.

Record c06env := mkEnv {
  e_queues : list vqueue; e_dpre : Z; e_drec : Z; e_lca : bool;
  e_starts : list (positive * Z);          (* job -> LastStartTimestamp relative to now (= 0) *)
}.
Record desig := mkDes {
  d_action : nat; d_pre : positive; d_victims : list positive;
  d_sim : list (positive * positive * list positive);
}.
(** a Cache call with its outcome; [FOrphan]: a pod the real session still holds as
    Allocated on a node after a refused Bind ended its statement's commit (the
    operations behind the refused bind are dropped but not undone) *)
Inductive fcall := FC (ok : bool) (c : call) | FOrphan (p n : positive) (gs : list positive).
Record cyc := mkCyc {
  y_cc : ccase; y_env : c06env; y_des : option desig;
  y_fcalls : list fcall;
  y_final : list (positive * status * option positive);   (* pod, status and node in the real session after the cycle *)
}.
Record rcase := mkRC {
  r_queues : list vqueue; r_dpre : Z; r_drec : Z; r_lca : bool;
  r_pq : positive; r_vq : positive;        (* queues named by the pending job and by the victim *)
  r_obs_pre : Z; r_obs_rec : Z;            (* durations the real plugin applied *)
}.
Record vcase := mkVC {
  v_env : venv; v_state : sstate; v_action : nat; v_pending : positive;
  v_victims : list positive; v_obs : bool;
}.
Inductive c06case := KCycle (y : cyc) | KResolve (r : rcase) | KValid (v : vcase).

Definition venv_of (e : c06env) : venv := mkVE (e_queues e) (e_dpre e) (e_drec e) (e_lca e) 0 (-1).

Definition action_of (n : nat) : option vaction :=
  match n with
  | 1%nat => Some AReclaim
  | 2%nat => Some APreempt
  | 3%nat => Some AConsolidation
  | _ => None
  end.

(** the session state the model starts from *)
Definition state_of (k : ccase) (e : c06env) : sstate :=
  mkSS
    (map (fun j => mkVJ (j_id j) (j_queue j) (j_prio j) (j_preempt j) (plookup (j_id j) (e_starts e)) (j_psets j)) (c_jobs k))
    (map (fun ti => let t := ti_task ti in
                    mkVT (t_id t) (t_job t) (ti_pset ti) (t_status t) (ti_node ti) (t_groups t) (is_shared t)) (c_tasks k))
    (flat_map (fun kn => map (fun pt => (fst pt, fst kn, t_groups (snd pt))) (n_pods (snd kn))) (c_nodes k)).

(** effect of the real calls on the state (statuses, nodes, node entries) *)
Definition set_bound (n : positive) (gs : list positive) (x : vtask) : vtask :=
  mkVT (vt_id x) (vt_job x) (vt_pset x) Binding (Some n) gs (vt_shared x).
Definition apply_bind (s : sstate) (p n : positive) (gs : list positive) : sstate :=
  mkSS (ss_jobs s) (upd_first p (set_bound n gs) (ss_tasks s)) (entry_set (ss_entries s) p n gs).
Definition apply_pipe (s : sstate) (p n : positive) (gs : list positive) : sstate :=
  mkSS (ss_jobs s) (upd_first p (set_piped n gs) (ss_tasks s)) (entry_set (ss_entries s) p n gs).
Definition apply_evict (s : sstate) (p : positive) : sstate :=
  with_tasks s (upd_first p (set_status Releasing) (ss_tasks s)).

Definition set_orphan (n : positive) (gs : list positive) (x : vtask) : vtask :=
  mkVT (vt_id x) (vt_job x) (vt_pset x) Allocated (Some n) gs (vt_shared x).
Definition apply_orphan (s : sstate) (p n : positive) (gs : list positive) : sstate :=
  mkSS (ss_jobs s) (upd_first p (set_orphan n gs) (ss_tasks s)) (entry_set (ss_entries s) p n gs).

Record seg := mkSeg {
  sg_a : nat; sg_pre : option positive;
  sg_ev : list (positive * bool);                  (* Evict calls of the commit: pod, accepted *)
  sg_pipes : list (positive * positive * list positive);
}.
Definition sg_accepted (sg : seg) : list positive := map fst (filter snd (sg_ev sg)).
Definition sg_refused (sg : seg) : list positive := map fst (filter (fun e => negb (snd e)) (sg_ev sg)).
Definition opt_pos_eq (a b : option positive) : bool :=
  match a, b with
  | Some x, Some y => Pos.eqb x y
  | None, None => true
  | _, _ => false
  end.
Fixpoint take_evicts (a : nat) (pre : option positive) (cs : list fcall) : list (positive * bool) * list fcall :=
  match cs with
  | FC ok (CEvict p a' pre') :: r =>
      if Nat.eqb a a' && opt_pos_eq pre pre' then
        let '(ev, rest) := take_evicts a pre r in ((p, ok) :: ev, rest)
      else ([], cs)
  | _ => ([], cs)
  end.
Fixpoint take_pipes (cs : list fcall) : list (positive * positive * list positive) * list fcall :=
  match cs with
  | FC _ (CPipe p n gs) :: r => let '(pp, rest) := take_pipes r in ((p, n, gs) :: pp, rest)
  | _ => ([], cs)
  end.
(** commitEvict's "un-evict" of a refused eviction (repair 5a5de9a: the evict
    operation is reversed), from the calls alone: the pod gets back the status and
    GPU groups it had in the state the commit started from ([s0]) and keeps the node
    name the statement gave it; the copy on the node it was evicted from is refreshed *)
Definition apply_refused (s0 s : sstate) (p : positive) : sstate :=
  match get_task (ss_tasks s0) p with
  | Some tk0 =>
      match vt_node tk0 with
      | Some n0 => mkSS (ss_jobs s) (upd_first p (set_status_groups (vt_status tk0) (vt_groups tk0)) (ss_tasks s))
                        (entry_set (ss_entries s) p n0 (vt_groups tk0))
      | None => s
      end
  | None => s
  end.
Definition apply_seg (s : sstate) (sg : seg) : sstate :=
  fold_left (apply_refused s) (sg_refused sg)
    (fold_left (fun s r => let '(p, n, gs) := r in apply_pipe s p n gs) (sg_pipes sg)
               (fold_left apply_evict (map fst (sg_ev sg)) s)).

(** commits of the cycle, each with the state it started from; and the state the cycle ends in *)
Fixpoint segments (fuel : nat) (s : sstate) (cs : list fcall) : list (sstate * seg) * sstate :=
  match fuel with
  | O => ([], s)
  | S f =>
      match cs with
      | [] => ([], s)
      | FOrphan p n gs :: r => segments f (apply_orphan s p n gs) r
      | FC ok (CBind p n gs) :: r => segments f (if ok then apply_bind s p n gs else s) r
      | FC _ (CPipe p n gs) :: r => segments f (apply_pipe s p n gs) r
      | FC ok (CEvict p a pre) :: r =>
          if Nat.eqb a 0 then segments f (if ok then apply_evict s p else s) r
          else
            let '(ev, r1) := take_evicts a pre cs in
            let '(pp, r2) := take_pipes r1 in
            let sg := mkSeg a pre ev pp in
            let '(sgs, sf) := segments f (apply_seg s sg) r2 in
            ((s, sg) :: sgs, sf)
      end
  end.
Definition cyc_run (y : cyc) : list (sstate * seg) * sstate :=
  segments (S (List.length (y_fcalls y))) (state_of (y_cc y) (y_env y)) (y_fcalls y).
Definition cyc_segments (y : cyc) : list (sstate * seg) := fst (cyc_run y).

Definition vaction_eqb (a b : vaction) : bool :=
  match a, b with
  | AReclaim, AReclaim | APreempt, APreempt | AConsolidation, AConsolidation => true
  | _, _ => false
  end.
Definition vcall_eqb (a b : vcall) : bool :=
  match a, b with
  | VEvict t x p, VEvict t' x' p' => Pos.eqb t t' && vaction_eqb x x' && Pos.eqb p p'
  | VEvictFailed t x p, VEvictFailed t' x' p' => Pos.eqb t t' && vaction_eqb x x' && Pos.eqb p p'
  | VPipe t n gs, VPipe t' n' gs' => Pos.eqb t t' && Pos.eqb n n' && pos_list_eqb gs gs'
  | _, _ => false
  end.
(** the failure oracle the real commit met: its k-th Evict call was refused *)
Definition seg_faults (sg : seg) : faults :=
  mkF (fun k => negb (nth k (map snd (sg_ev sg)) true)) (fun _ => false).

(** The placements of the statement, as far as the calls show them.  The recorder
    reads the GPU groups off the pod object handed to Cache.TaskPipelined; when the
    eviction of a shared pod that the statement had moved to OTHER GPU groups of
    its own node was refused earlier in the same commit, the un-evict (repair
    5a5de9a) has already put the pod's old groups back, so the call shows the old
    groups and the statement's choice is not observable.  It differed from the
    node's entry (else Statement.Pipeline would have un-evicted the pod and no
    TaskPipelined would exist); any such groups give the same run of the model, a
    fresh one stands for them. *)
Definition fresh_groups (egs : list positive) : list positive := [Pos.succ (fold_right Pos.max xH egs)].
Definition seg_sim (s : sstate) (sg : seg) : list (positive * positive * list positive) :=
  map (fun r => let '(p, n, gs) := r in
                match entry_of (ss_entries s) p n with
                | Some egs => if mem_pos p (sg_refused sg) && pos_list_eqb gs egs then (p, n, fresh_groups egs) else r
                | None => r
                end) (sg_pipes sg).

(** the real commit is an accepted run of the model and the model emits the same calls *)
Definition seg_model_ok (env : venv) (ss : sstate * seg) : bool :=
  let '(s, sg) := ss in
  match action_of (sg_a sg), sg_pre sg with
  | Some a, Some pre =>
      let evs := map fst (sg_ev sg) in
      let sc := mkSc [] (dedup_pos evs) evs 0 true in
      match run_scenario_f (seg_faults sg) env a s pre sc (seg_sim s sg) with
      | Committed calls _ =>
          list_eqb vcall_eqb calls
                   (map (fun e : positive * bool => if snd e then VEvict (fst e) a pre else VEvictFailed (fst e) a pre) (sg_ev sg)
                    ++ map (fun r => let '(p, n, gs) := r in VPipe p n gs) (seg_sim s sg))
      | _ => false
      end
  | _, _ => false
  end.

Definition real_evicts (k : ccase) (d : desig) : bool :=
  negb (match d_victims d with [] => true | _ => false end)
  && forallb (fun v => existsb (fun c => match c with
                                         | CEvict p a' _ => Pos.eqb p v && Nat.eqb a' (d_action d)
                                         | _ => false
                                         end) (c_calls k)) (d_victims d).
Definition model_evicts (env : venv) (s : sstate) (d : desig) : bool :=
  match action_of (d_action d) with
  | Some a =>
      match run_scenario env a s (d_pre d) (mkSc [] (d_victims d) (d_victims d) 0 true) (d_sim d) with
      | Committed calls _ =>
          negb (match d_victims d with [] => true | _ => false end)
          && forallb (fun v => mem_pos v (evicted_ids calls)) (d_victims d)
      | _ => false
      end
  | None => false
  end.

(** (the node-level replay [cycle_agrees] of Run/Cycle.v is the correspondence of
    C01-C03 and is not repeated here; [run_flags] still reports cycles exposed to
    the device-count quirk C14-device-guard) *)
(** the snapshot case keeps exactly the accepted calls *)
Definition call_eqb (a b : call) : bool :=
  match a, b with
  | CBind p n gs, CBind p' n' gs' | CPipe p n gs, CPipe p' n' gs' => Pos.eqb p p' && Pos.eqb n n' && pos_list_eqb gs gs'
  | CEvict p a pre, CEvict p' a' pre' => Pos.eqb p p' && Nat.eqb a a' && opt_pos_eq pre pre'
  | _, _ => false
  end.
Definition accepted_calls (cs : list fcall) : list call :=
  flat_map (fun c => match c with FC true c => [c] | _ => [] end) cs.
Definition no_refusal (cs : list fcall) : bool :=
  forallb (fun c => match c with FC true _ => true | _ => false end) cs.

(** Statement.Commit at a refused Bind: cleanup, clearOperations, return - no further
    Bind for a pod of the same job follows (the allocate action serves a job once) *)
Fixpoint bind_stop_ok (s : sstate) (cs : list fcall) : bool :=
  match cs with
  | [] => true
  | FC false (CBind p _ _) :: r =>
      forallb (fun c => match c with
                        | FC _ (CBind p' _ _) =>
                            negb (match get_task (ss_tasks s) p, get_task (ss_tasks s) p' with
                                  | Some t, Some t' => Pos.eqb (vt_job t) (vt_job t')
                                  | _, _ => false
                                  end)
                        | _ => true
                        end) r
      && bind_stop_ok s r
  | _ :: r => bind_stop_ok s r
  end.

(** the session the cycle ends in, as derived from the calls, against the real
    session: status of every pod, and its node when it holds resources.  (Before
    repair 5a5de9a pods whose eviction was refused had to be left out: they stayed
    "virtually" Releasing, their own job counted them among the pods to place and
    an action could be left with a solved statement, neither committed nor
    discarded, that nominated them without any Cache call.  With the pod restored
    to its pre-eviction status and IsVirtualStatus this no longer happens - not met
    on 87000 generated cycles, 24000 of them with fault injection (33000 refused
    evictions) - and the comparison is exact again: a recurrence is a mismatch.) *)
Definition final_ok (sf : sstate) (fin : list (positive * status * option positive)) : bool :=
  forallb (fun e => let '(p, st, n) := e in
                    match get_task (ss_tasks sf) p with
                    | Some tk => status_eqb (vt_status tk) st
                                 && (negb (active_used st) || opt_pos_eq (vt_node tk) n)
                    | None => false
                    end) fin.

Definition cyc_agrees (y : cyc) : bool :=
  let env := venv_of (y_env y) in
  list_eqb call_eqb (accepted_calls (y_fcalls y)) (c_calls (y_cc y))
  && bind_stop_ok (state_of (y_cc y) (y_env y)) (y_fcalls y)
  && final_ok (snd (cyc_run y)) (y_final y)
  && forallb (seg_model_ok env) (cyc_segments y)
  && match y_des y with
     | Some d => Bool.eqb (model_evicts env (state_of (y_cc y) (y_env y)) d) (real_evicts (y_cc y) d)
     | None => true
     end.

(** ** The property on the real calls *)

Definition seg_monitor (env : venv) (ss : sstate * seg) : bool :=
  let '(s, sg) := ss in
  let s' := apply_seg s sg in
  match action_of (sg_a sg), sg_pre sg with
  | Some a, Some pre =>
      match find_job (ss_jobs s) pre with
      | None => false
      | Some pj =>
          (* no pod is evicted twice by one commit (Statement.Evict leaves a pod alone that is already
             Releasing in the session: repairs 83a0ca3, bce7109) *)
          nodup_posb (map fst (sg_ev sg))
          (* clause 2: a commit in which the cluster ACCEPTED an eviction also nominates a pod of the
             workload the evictions name in their metadata *)
          &&
          ((match sg_accepted sg with [] => true | _ => false end)
           || existsb (fun r => match get_task (ss_tasks s) (fst (fst r)) with
                                | Some tk => Pos.eqb (vt_job tk) pre
                                | None => false
                                end) (sg_pipes sg))
          && forallb (fun e => let '(t, accepted) := e in
               match get_task (ss_tasks s) t, job_of s t with
               | Some tk, Some j =>
                   (* clause 1 *)
                   vj_preemptible j
                   && (match a with
                       | APreempt => Pos.eqb (vj_queue j) (vj_queue pj) && (vj_prio j <? vj_prio pj)
                       | AReclaim => negb (Pos.eqb (vj_queue j) (vj_queue pj))
                       | AConsolidation => true
                       end)
                   && (if inside_min_runtime env a pj j then
                         match a with
                         | AConsolidation => false
                         | _ => job_elastic s j
                                && forallb (fun pm => negb (Pos.eqb (fst pm) (vt_pset tk))
                                                      || (snd pm <=? live_count s' (vj_id j) (fst pm))) (vj_psets j)
                         end
                       else true)
                   (* clause 3: a consolidation victim whose eviction was ACCEPTED is re-placed elsewhere by
                      the same commit (a refused one stays where it runs) *)
                   && (match a with
                       | AConsolidation =>
                           negb accepted ||
                           existsb (fun r => let '(p, n, gs) := r in
                                             Pos.eqb p t
                                             && (negb (opt_pos_eq (vt_node tk) (Some n))
                                                 || negb (pos_list_eqb gs (vt_groups tk)))) (sg_pipes sg)
                       | _ => true
                       end)
               | _, _ => false
               end) (sg_ev sg)
      end
  | _, _ => false
  end.

Definition cyc_monitor (y : cyc) : bool := forallb (seg_monitor (venv_of (y_env y))) (cyc_segments y).

(** ** Resolver and validator cases *)

Definition mres_is (r : mres) (d : Z) : bool := match r with Dur x => x =? d | _ => false end.
Definition rc_env (r : rcase) : venv := mkVE (r_queues r) (r_dpre r) (r_drec r) (r_lca r) 0 (-1).
Definition rc_job (q : positive) : vjob := mkVJ 1 q 0 true None [].

Definition resolve_agrees (r : rcase) : bool :=
  let qs := r_queues r in
  mres_is (resolve_preempt (fuel_of qs) qs (r_dpre r) (qlookup qs (r_vq r))) (r_obs_pre r)
  && mres_is (resolve_reclaim (r_lca r) (fuel_of qs) qs (r_drec r) (qlookup qs (r_pq r)) (qlookup qs (r_vq r))) (r_obs_rec r).
(** the real plugin applied the documented durations *)
Definition resolve_monitor (r : rcase) : bool :=
  (doc_preempt (rc_env r) (rc_job (r_vq r)) =? r_obs_pre r)
  && (doc_reclaim (rc_env r) (rc_job (r_pq r)) (rc_job (r_vq r)) =? r_obs_rec r).

Definition verdict_is (v : verdict) (b : bool) : bool := match v with V x => Bool.eqb x b | _ => false end.
Definition valid_agrees (v : vcase) : bool :=
  match action_of (v_action v), find_job (ss_jobs (v_state v)) (v_pending v) with
  | Some a, Some pj => verdict_is (mrt_validator (v_env v) (v_state v) a pj (v_victims v)) (v_obs v)
  | _, _ => false
  end.
(** an accepted scenario leaves every protected elastic victim at or above its
    minimum in every pod set it takes pods from (live pods: terminating ones do not count) *)
Definition valid_monitor (v : vcase) : bool :=
  let s := v_state v in
  let s' := fold_left apply_evict (v_victims v) s in
  match action_of (v_action v), find_job (ss_jobs s) (v_pending v) with
  | Some a, Some pj =>
      negb (v_obs v)
      || forallb (fun t => match get_task (ss_tasks s) t, job_of s t with
                           | Some tk, Some j =>
                               negb (job_elastic s j && inside_min_runtime (v_env v) a pj j)
                               || forallb (fun pm => negb (Pos.eqb (fst pm) (vt_pset tk))
                                                     || (snd pm <=? live_count s' (vj_id j) (fst pm))) (vj_psets j)
                           | _, _ => false
                           end) (v_victims v)
  | _, _ => false
  end.

Definition model_agrees (c : c06case) : bool :=
  match c with
  | KCycle y => cyc_agrees y
  | KResolve r => resolve_agrees r
  | KValid v => valid_agrees v
  end.
Definition monitor_ok (c : c06case) : bool :=
  match c with
  | KCycle y => cyc_monitor y
  | KResolve r => resolve_monitor r
  | KValid v => valid_monitor v
  end.
Definition run_mismatches (cs : list (nat * c06case)) : list nat := failing (fun k => negb (model_agrees k)) cs.
Definition run_monitor (cs : list (nat * c06case)) : list nat := failing (fun k => negb (monitor_ok k)) cs.
Definition run_flags (cs : list (nat * c06case)) : list (nat * list nat) :=
  filter (fun p => negb (Nat.eqb (List.length (snd p)) 0))
         (map (fun c => (fst c, match snd c with
                                | KCycle y => if no_refusal (y_fcalls y) then cycle_flags (y_cc y) else []
                                | _ => []
                                end)) cs).
