(** Correspondence + monitor entry points for C18 (used by generated cases).

    A case is one generated world (configuration, owner objects, sibling pods)
    plus several runs of the REAL reconciler over it, each from a fresh API
    store: a list of events (reconcile pod i / foreign update of a PodGroup,
    labels and annotations of other actors included / an owner object is edited:
    label and annotation keys removed, added, changed / a PodGroup is overwritten,
    grouper-owned fields included / a PodGroup is deleted) with, per event, the number of
    mutating API calls, the error flag, the pod's pod-group annotation, and the touched
    PodGroup before and after; and the final store. A run with such events comes with a
    FRESH run: the reconciles that follow its last other event, executed by the real
    reconciler on a second, new store that holds the final owner objects and the pods as
    they were created. *)
From KaiV Require Export Run.Prelude Model.Grouper Model.GrouperSpec Model.GrouperFaults Model.GrouperOrder.
Open Scope Z_scope.

(** [OwnE j o]: the [j]-th owner object of the cluster is replaced by [o] (keys removed, added, changed);
    [TamE n g]: PodGroup [n] is overwritten, [g] is what the store holds afterwards; [DelE n]: it is deleted *)
Inductive ev := RecE (i : nat) | ForE (name : string) (f : foreign_upd) | OwnE (j : nat) (o : obj)
              | TamE (name : string) (g : pg) | DelE (name : string).

Record ev_obs := {
  eo_writes : Z;                 (* Create + Update + Patch (+ any other mutating call) *)
  eo_err : bool;                 (* Reconcile returned an error *)
  eo_ann : option string;        (* RecE: the pod's pod-group annotation afterwards *)
  eo_before : option pg;         (* the PodGroup named [eo_ann] (ForE: the target) before the event *)
  eo_after : option pg           (* ... and after it *)
}.

(** the fresh run: the trailing reconciles of the run on a new store holding the final owner objects *)
Record freshrec := {
  fr_events : list (ev * ev_obs);
  fr_final : list (string * pg);
  fr_final_ann : list (option string)
}.

Record runrec := {
  r_events : list (ev * ev_obs);
  r_final : list (string * pg);          (* the store at the end, sorted by name *)
  r_final_ann : list (option string);    (* pod-group annotation of every pod at the end *)
  r_fresh : option freshrec
}.

Inductive check_kind := CkGroup | CkIdem.

Record case := {
  k_cfg : config;
  k_cluster : list obj;
  k_pods : list pod;
  k_chain : list gvk;            (* kinds of the owners, direct owner first (generator's intent) *)
  k_check : check_kind;
  k_runs : list runrec
}.

(** ** extensional comparison of observed and computed PodGroups *)
Definition smap_ext_eqb (a b : smap) : bool :=
  forallb (fun kv => opt_eqb String.eqb (lookup (fst kv) a) (lookup (fst kv) b)) (a ++ b).
Definition omap_ext_eqb (a b : option smap) : bool :=
  match a, b with
  | None, None => true
  | Some x, Some y => smap_ext_eqb x y
  | _, _ => false
  end.
Definition pg_ext_eqb (a b : pg) : bool :=
  omap_ext_eqb (pg_labels a) (pg_labels b) && omap_ext_eqb (pg_annots a) (pg_annots b)
  && list_eqb owner_ref_eqb (pg_owners a) (pg_owners b) && spec_eqb a b.
Definition opg_ext_eqb (a b : option pg) : bool := opt_eqb pg_ext_eqb a b.
Definition ostr_eqb (a b : option string) : bool := opt_eqb String.eqb a b.

Definition eff_ann (p : pod) (s : state) : option string :=
  lookup pg_annotation_key (cur_annots p (get_asg (p_name p) s)).

Definition model_err (cfg : config) (cl : list obj) (p : pod) (a : option string) : bool :=
  negb (is_orphan p a)
  && match reconcile_md cfg cl p a with MdOk _ => false | _ => true end.

Fixpoint replace_nth {A} (j : nat) (x : A) (l : list A) : list A :=
  match l, j with
  | [], _ => []
  | _ :: r, O => x :: r
  | y :: r, S j' => y :: replace_nth j' x r
  end.

(** one event: does the model reproduce the observation? returns the model's next state and cluster *)
Definition agree_event (k : case) (sc : state * list obj) (e : ev * ev_obs) : (state * list obj) * bool :=
  let s := fst sc in
  let cl := snd sc in
  let o := snd e in
  match fst e with
  | RecE i =>
    match nth_error (k_pods k) i with
    | None => (sc, false)
    | Some p =>
      let r := reconcile (k_cfg k) cl p s in
      let s' := fst r in
      let ann := eff_ann p s' in
      let slot (st : state) := match eo_ann o with Some n => get_pg n st | None => None end in
      ((s', cl), Z.eqb (snd r) (eo_writes o)
           && Bool.eqb (model_err (k_cfg k) cl p (get_asg (p_name p) s)) (eo_err o)
           && ostr_eqb ann (eo_ann o)
           && opg_ext_eqb (slot s) (eo_before o)
           && opg_ext_eqb (slot s') (eo_after o))
    end
  | ForE n f =>
    let r := step (k_cfg k) cl (EvForeign n f) s in
    ((fst r, cl), Z.eqb (eo_writes o) 0 && opg_ext_eqb (get_pg n s) (eo_before o)
            && opg_ext_eqb (get_pg n (fst r)) (eo_after o))
  | OwnE j ob => ((s, replace_nth j ob cl), Z.eqb (eo_writes o) 0)
  | TamE n g =>
    let s' := snd (hstep (k_cfg k) (HTamper n g) (cl, s)) in
    ((s', cl), Z.eqb (eo_writes o) 0 && opg_ext_eqb (get_pg n s) (eo_before o) && opg_ext_eqb (Some g) (eo_after o))
  | DelE n =>
    let s' := snd (hstep (k_cfg k) (HDelete n) (cl, s)) in
    ((s', cl), Z.eqb (eo_writes o) 0 && opg_ext_eqb (get_pg n s) (eo_before o) && opg_ext_eqb None (eo_after o))
  end.

(** the model replays the events from the empty store under the owner objects [cl0] *)
Definition agree_obs (k : case) (cl0 : list obj) (events : list (ev * ev_obs)) (final : list (string * pg))
           (final_ann : list (option string)) : bool :=
  let res := fold_left (fun acc e => let x := agree_event k (fst acc) e in (fst x, snd acc && snd x))
                       events ((empty_state, cl0), true) in
  let s := fst (fst res) in
  snd res
  && Nat.eqb (List.length (st_pgs s)) (List.length final)
  && forallb (fun ng => opg_ext_eqb (get_pg (fst ng) s) (Some (snd ng))) final
  && list_eqb ostr_eqb (map (fun p => eff_ann p s) (k_pods k)) final_ann.

(** the owner objects at the end of a run *)
Definition final_cluster (k : case) (r : runrec) : list obj :=
  fold_left (fun cl e => match fst e with OwnE j o => replace_nth j o cl | _ => cl end) (r_events r) (k_cluster k).

Definition agree_run (k : case) (r : runrec) : bool :=
  agree_obs k (k_cluster k) (r_events r) (r_final r) (r_final_ann r)
  && match r_fresh r with
     | None => true
     | Some f => agree_obs k (final_cluster k r) (fr_events f) (fr_final f) (fr_final_ann f)
     end.

Definition model_agrees (k : case) : bool := forallb (agree_run k) (k_runs k).

(** ** The property evaluated on the observed outputs only *)
Definition is_rec (e : ev * ev_obs) : bool := match fst e with RecE _ => true | _ => false end.
Definition pure_run (r : runrec) : bool := forallb is_rec (r_events r).
Definition reconciled (r : runrec) (i : nat) : bool :=
  existsb (fun e => match fst e with RecE j => Nat.eqb i j | _ => false end) (r_events r).
Definition covers_all (k : case) (r : runrec) : bool :=
  forallb (reconciled r) (seq 0 (List.length (k_pods k))).

Fixpoint distinct (l : list string) : bool :=
  match l with
  | [] => true
  | x :: r => negb (existsb (String.eqb x) r) && distinct r
  end.
Fixpoint all_same (l : list string) : bool :=
  match l with
  | x :: ((y :: _) as r) => String.eqb x y && all_same r
  | _ => true
  end.
Fixpoint all_same_fields (l : list group_fields) : bool :=
  match l with
  | x :: ((y :: _) as r) => group_fields_eqb x y && all_same_fields r
  | _ => true
  end.

(** pods the grouper is meant to leave alone: no owner, and a pod-group annotation given by the user *)
Definition exempt (p : pod) : bool := is_orphan p None.

(** the reconciled, non-exempt pods whose every reconcile in the run succeeded *)
Definition ok_pods (k : case) (r : runrec) : list nat :=
  filter (fun i => reconciled r i
                   && negb (match nth_error (k_pods k) i with Some p => exempt p | None => true end)
                   && forallb (fun e => match fst e with
                                        | RecE j => negb (Nat.eqb i j) || negb (eo_err (snd e))
                                        | _ => true
                                        end) (r_events r))
         (seq 0 (List.length (k_pods k))).

(** (1) siblings: every reconciled pod carries the name of an existing PodGroup; one group for
    all of them (shared kinds) or one each (per-pod kinds); the named fields agree *)
Definition siblings_ok (k : case) (r : runrec) : bool :=
  if negb (pure_run r) then true else
  let anns := map (fun i => match nth_error (r_final_ann r) i with Some (Some n) => Some n | _ => None end)
                  (ok_pods k r) in
  forallb (fun a => match a with Some n => match lookup n (r_final r) with Some _ => true | None => false end
                            | None => false end) anns
  && let names := flat_map (fun a => match a with Some n => [n] | None => [] end) anns in
     (match spec_class (c_forbidden (k_cfg k)) (k_chain k) with
      | Shared => all_same names
      | PerPod => distinct names
      end)
     && all_same_fields (flat_map (fun n => match lookup n (r_final r) with
                                            | Some g => [fields_of g] | None => [] end) names).

(** (2) order independence: all reconcile-only runs that reconcile every pod end with the same
    groups (names and named fields) and the same pod annotations *)
Definition summary (r : runrec) : list (string * group_fields) :=
  map (fun ng => (fst ng, fields_of (snd ng))) (r_final r).
Definition summary_eqb (a b : list (string * group_fields)) : bool :=
  list_eqb (fun x y => String.eqb (fst x) (fst y) && group_fields_eqb (snd x) (snd y)) a b.
Definition order_ok (k : case) : bool :=
  match filter (fun r => pure_run r && covers_all k r) (k_runs k) with
  | [] => true
  | r0 :: rs => forallb (fun r => summary_eqb (summary r0) (summary r)
                                   && list_eqb ostr_eqb (r_final_ann r0) (r_final_ann r)) rs
  end.

(** keys of other actors: a label / annotation key that no object of the world carries (the initial cluster, the
    edited owner objects of every run, the pods) and that is none of the keys the grouper writes by itself; the
    grouper copies labels and annotations, it does not invent keys *)
Definition keys_of (m : smap) : list string := map fst m.
Definition obj_keys (o : obj) : list string := (keys_of (o_labels o) ++ keys_of (o_annots o))%list.
Definition world_keys (k : case) : list string :=
  ([c_queue_key (k_cfg k); c_nodepool_key (k_cfg k); tom_key; user_key; pg_annotation_key; subgroup_label_key]
   ++ flat_map obj_keys (k_cluster k)
   ++ flat_map (fun r => flat_map (fun e => match fst e with OwnE _ o => obj_keys o | _ => [] end) (r_events r)) (k_runs k)
   ++ flat_map (fun p => keys_of (p_labels p) ++ keys_of (p_annots p)) (k_pods k))%list.
Definition foreign_key (wk : list string) (x : string) : bool := negb (existsb (String.eqb x) wk).

(** a foreign update that only touches keys of other actors (cf. [foreign_to]) *)
Definition quiet_foreign (wk : list string) (f : foreign_upd) : bool :=
  match f_queue f, f_mark f, f_backoff f, f_nodepool f, f_qlabel f with
  | None, None, None, None, None =>
    forallb (fun u => foreign_key wk (fst u)) (f_labels f) && forallb (fun u => foreign_key wk (fst u)) (f_annots f)
  | _, _, _, _, _ => false
  end.

(** (3) idempotence: reconciling a pod again issues no mutating call when, since its last reconcile, nothing
    happened but reconciles of its siblings and updates of label / annotation keys of other actors on the
    PodGroup (the scheduler's timestamps, an administrator's keys) - nothing the grouper computes changed
    (C18_idempotent, C18_idempotent_interleaved, C18_idempotent_with_foreign_keys). Any other foreign update
    any change of an owner object, an overwritten and a deleted PodGroup start afresh: the reconcile after it may
    write, the one after that may not. For every pod: pods with a stale sub-group label and pods that are their own grouping object are
    regression inputs of 3f1c7d2 / 8227120. *)
Definition idem_run_ok (k : case) (r : runrec) : bool :=
  let wk := world_keys k in
  snd (fold_left (fun acc e =>
                    match fst e with
                    | RecE i => (i :: fst acc,
                                 snd acc && (negb (existsb (Nat.eqb i) (fst acc)) || Z.eqb (eo_writes (snd e)) 0))
                    | ForE _ f => if quiet_foreign wk f then acc else ([], snd acc)
                    | OwnE _ _ | TamE _ _ | DelE _ => ([], snd acc)
                    end) (r_events r) ([], true)).

(** (4) foreign fields: a reconcile leaves queue, mark-unschedulable, scheduling backoff and the
    node-pool label of an existing PodGroup as they were, keeps a present queue label, and keeps every
    label and annotation of another actor ([foreign_key]) with its value (C18_foreign_fields_kept,
    C18_foreign_labels_kept, C18_foreign_annotations_kept) *)
Definition fview_eqb (a b : fview) : bool :=
  String.eqb (fv_queue a) (fv_queue b) && opt_eqb Bool.eqb (fv_mark a) (fv_mark b)
  && opt_eqb Z.eqb (fv_backoff a) (fv_backoff b) && ostr_eqb (fv_nodepool a) (fv_nodepool b).
Definition foreign_keys_kept (wk : list string) (before after : option smap) : bool :=
  forallb (fun kv => negb (foreign_key wk (fst kv)) || ostr_eqb (mget (fst kv) after) (mget (fst kv) before))
          (match before with Some l => l | None => [] end).
Definition foreign_ok (k : case) (r : runrec) : bool :=
  let wk := world_keys k in
  forallb (fun e => match fst e, eo_before (snd e) with
                    | RecE _, Some g =>
                      match eo_after (snd e) with
                      | Some g' => fview_eqb (foreign_view (k_cfg k) g) (foreign_view (k_cfg k) g')
                                   && match mget (c_queue_key (k_cfg k)) (pg_labels g) with
                                      | Some v => ostr_eqb (mget (c_queue_key (k_cfg k)) (pg_labels g')) (Some v)
                                      | None => true
                                      end
                                   && foreign_keys_kept wk (pg_labels g) (pg_labels g')
                                   && foreign_keys_kept wk (pg_annots g) (pg_annots g')
                      | None => false
                      end
                    | _, _ => true
                    end) (r_events r).

(** (5) history independence (C18_history_independent, C18_podgroup_restored): whatever happened before - owner
    objects edited, the PodGroup overwritten or deleted, foreign updates -, once the trailing reconciles of the
    run are done every PodGroup of the FRESH run (the same reconciles by the real reconciler on a new store
    holding the final owner objects) exists in the run's store and agrees with it on the grouper-owned part
    ([owned_agreeb] = [owned_agree], C18_owned_agreeb_spec: minMember, priority class, preemptibility,
    sub-groups, topology, owner references; every label of the fresh PodGroup but the queue and node-pool
    labels; every annotation of it - the fields of other actors excepted exactly as in (4)), and every pod
    assigned in the fresh run is assigned to the same PodGroup. Pods without owner reference are outside the
    clause (the code skips them once they carry a pod-group annotation, C18_ownerless_pod_frozen): their
    PodGroups are counted by observation flag 100 instead. *)
Fixpoint trailing_recs (evs : list (ev * ev_obs)) (acc : list nat) : list nat :=
  match evs with
  | [] => acc
  | e :: r => match fst e with
              | RecE i => trailing_recs r (acc ++ [i])
              | _ => trailing_recs r []
              end
  end.
Definition ownerless (k : case) (i : nat) : bool :=
  match nth_error (k_pods k) i with
  | Some p => match p_owners p with [] => true | _ => false end
  | None => true
  end.
(** the PodGroups of the fresh run that belong to pods without owner reference *)
Definition ownerless_groups (k : case) (f : freshrec) : list string :=
  flat_map (fun i => if ownerless k i
                     then match nth_error (fr_final_ann f) i with Some (Some n) => [n] | _ => [] end
                     else []) (seq 0 (List.length (k_pods k))).
Definition group_restored (k : case) (r : runrec) (ng : string * pg) : bool :=
  match lookup (fst ng) (r_final r) with
  | Some gh => owned_agreeb (k_cfg k) (snd ng) gh
  | None => false
  end.
Definition history_ok (k : case) (r : runrec) : bool :=
  match r_fresh r with
  | None => true
  | Some f =>
    let skip := ownerless_groups k f in
    (* the fresh run is the run's trailing reconciles *)
    list_eqb Nat.eqb (trailing_recs (r_events r) []) (trailing_recs (fr_events f) [])
    && forallb is_rec (fr_events f)
    && forallb (fun ng => existsb (String.eqb (fst ng)) skip || group_restored k r ng) (fr_final f)
    && forallb (fun i => ownerless k i
                         || match nth_error (fr_final_ann f) i with
                            | Some (Some n) => ostr_eqb (nth i (r_final_ann r) None) (Some n)
                            | _ => true
                            end) (seq 0 (List.length (k_pods k)))
  end.

Definition monitor_ok (k : case) : bool :=
  match k_check k with
  | CkIdem => forallb (idem_run_ok k) (k_runs k) && forallb (foreign_ok k) (k_runs k) && forallb (history_ok k) (k_runs k)
  | CkGroup => forallb (siblings_ok k) (k_runs k) && order_ok k && forallb (foreign_ok k) (k_runs k)
               && forallb (history_ok k) (k_runs k)
  end.

(** flag 1 (known finding C18-ownerless-pod-podgroup-frozen): a PodGroup of a pod WITHOUT owner reference was not restored after it was overwritten
    or deleted - the behaviour of C18_ownerless_pod_frozen,
    outside clause (5) *)
Definition case_flags (k : case) : list nat :=
  if existsb (fun r => match r_fresh r with
                       | None => false
                       | Some f => existsb (fun ng => existsb (String.eqb (fst ng)) (ownerless_groups k f)
                                                      && negb (group_restored k r ng)) (fr_final f)
                       end) (k_runs k)
  then [1%nat] else [].

(** * Worlds with API faults on the owner GETs (Model/GrouperFaults.v)

    A fault case is one world of several namespaces - owner objects and pods per namespace, several workloads,
    the same kinds in different namespaces - plus several runs of the REAL reconciler over it, each on ONE
    pod-grouper instance and a new API store: the rule in force at the start ([fu_rbac]: the (namespace, kind)
    pairs whose GET the interceptor answers 403), then events - reconcile pod i under transient faults (kinds
    answered 403 / NotFound or 5xx during this reconcile only), grant, revoke - with the same observation per
    reconcile as above, and at the end the PodGroups of every namespace and every pod's annotation.
    The reference runs of a case are runs of a single reconcile: a pod-grouper that just started, an empty
    store, the answers some history run gave that pod. *)
Record fpod := { fp_ns : string; fp_pod : pod; fp_chain : list gvk }.
Inductive fev := FRecE (i : nat) (tr : transient) | FGrantE (n k : string) | FRevokeE (n k : string).
Record frunrec := {
  fu_rbac : rbac;
  fu_events : list (fev * ev_obs);
  fu_final : list (string * list (string * pg));     (* namespace -> its PodGroups, sorted by name *)
  fu_final_ann : list (option string)
}.
Record fcase := { fk_cfg : config; fk_objs : nsmap (list obj); fk_pods : list fpod; fk_runs : list frunrec }.

(** ** correspondence: [freconcile] replays the run *)
Definition fagree_event (k : fcase) (st : rbac * wstate) (e : fev * ev_obs) : (rbac * wstate) * bool :=
  let rb := fst st in
  let ws := snd st in
  let o := snd e in
  match fst e with
  | FRecE i tr =>
    match nth_error (fk_pods k) i with
    | None => (st, false)
    | Some fp =>
      let n := fp_ns fp in
      let p := fp_pod fp in
      let s := get_ns n ws in
      let r := freconcile (fk_cfg k) (fk_objs k) rb n p tr ws in
      let s' := get_ns n (fst r) in
      let slot (x : state) := match eo_ann o with Some g => get_pg g x | None => None end in
      ((rb, fst r),
       Z.eqb (snd r) (eo_writes o)
       && Bool.eqb (model_err (eff_cfg (fk_cfg k) rb n tr) (visible (tr_failing tr) (cluster_of (fk_objs k) n)) p
                              (get_asg (p_name p) s)) (eo_err o)
       && ostr_eqb (eff_ann p s') (eo_ann o)
       && opg_ext_eqb (slot s) (eo_before o)
       && opg_ext_eqb (slot s') (eo_after o))
    end
  | FGrantE n kd => ((grant n kd rb, ws), Z.eqb (eo_writes o) 0)
  | FRevokeE n kd => ((revoke n kd rb, ws), Z.eqb (eo_writes o) 0)
  end.

Definition fagree_run (k : fcase) (r : frunrec) : bool :=
  let res := fold_left (fun acc e => let x := fagree_event k (fst acc) e in (fst x, snd acc && snd x))
                       (fu_events r) ((fu_rbac r, []), true) in
  let ws := snd (fst res) in
  snd res
  && forallb (fun nl => Nat.eqb (List.length (st_pgs (get_ns (fst nl) ws))) (List.length (snd nl))
                        && forallb (fun ng => opg_ext_eqb (get_pg (fst ng) (get_ns (fst nl) ws)) (Some (snd ng))) (snd nl))
             (fu_final r)
  && forallb (fun ns => existsb (fun nl => String.eqb (fst nl) (fst ns)) (fu_final r)) ws
  && list_eqb ostr_eqb (map (fun fp => eff_ann (fp_pod fp) (get_ns (fp_ns fp) ws)) (fk_pods k)) (fu_final_ann r).

Definition fmodel_agrees (k : fcase) : bool := forallb (fagree_run k) (fk_runs k).

(** ** the property on the observed outputs only *)

(** what the API server answers along the owner chain of a pod (direct owner first): how many owners are
    readable, and why the walk ends there - 0 the chain ends, 1 the next GET is answered 403, 2 it is answered
    NotFound / 5xx. Everything the grouper may learn about the owners is in this key. *)
Definition mem (x : string) (l : list string) : bool := existsb (String.eqb x) l.
Fixpoint answer_key (chain : list gvk) (fb fail : list string) : nat * nat :=
  match chain with
  | [] => (O, O)
  | g :: r => if mem (g_kind g) fb then (O, 1%nat)
              else if mem (g_kind g) fail then (O, 2%nat)
              else let x := answer_key r fb fail in (S (fst x), snd x)
  end.
Definition key_eqb (a b : nat * nat) : bool := Nat.eqb (fst a) (fst b) && Nat.eqb (snd a) (snd b).

(** one observed reconcile: the pod, the answers it got, what was observed *)
Record robs := { ro_pod : nat; ro_key : nat * nat; ro_ref : bool; ro_o : ev_obs }.

Definition fobs_of_run (k : fcase) (r : frunrec) : list robs :=
  let is_ref := match fu_events r with [_] => true | _ => false end in   (* a single reconcile on a new instance *)
  snd (fold_left (fun acc e =>
                    let rb := fst acc in
                    match fst e with
                    | FRecE i tr =>
                      match nth_error (fk_pods k) i with
                      | None => acc
                      | Some fp =>
                        (rb, (snd acc ++ [{| ro_pod := i;
                                             ro_key := answer_key (fp_chain fp)
                                                                  (eff_forbidden (fk_cfg k) rb (fp_ns fp) tr) (tr_failing tr);
                                             ro_ref := is_ref; ro_o := snd e |}])%list)
                      end
                    | FGrantE n kd => (grant n kd rb, snd acc)
                    | FRevokeE n kd => (revoke n kd rb, snd acc)
                    end) (fu_events r) (fu_rbac r, [])).

Definition oref_eqb (a b : oref) : bool :=
  gvk_eqb (r_gvk a) (r_gvk b) && String.eqb (r_name a) (r_name b) && String.eqb (r_uid a) (r_uid b).
Definition fsiblings (k : fcase) (i j : nat) : bool :=
  match nth_error (fk_pods k) i, nth_error (fk_pods k) j with
  | Some a, Some b => negb (Nat.eqb i j) && String.eqb (fp_ns a) (fp_ns b)
                      && list_eqb oref_eqb (p_owners (fp_pod a)) (p_owners (fp_pod b))
  | _, _ => false
  end.
Definition key_class (k : fcase) (i : nat) (key : nat * nat) : gclass :=
  match nth_error (fk_pods k) i with
  | Some fp => class_from_top (rev (firstn (fst key) (fp_chain fp)))
  | None => PerPod
  end.
Definition same_owned (a b : option pg) : bool :=
  match a, b with
  | Some x, Some y => oview_eqb (owned_view x) (owned_view y)
  | _, _ => false
  end.

(** (F) the outcome of a reconcile is a function of the pod and the answers of the moment - not of the run it
    is part of, nor of what was reconciled before: any two reconciles of the same pod under the same answers, in
    whatever runs of the case (the reference runs on a new pod-grouper instance included), agree on the error,
    on the PodGroup the pod is assigned to and on the grouper-owned fields of that PodGroup
    (C18_assignment_function_of_answers, C18_history_independent_with_faults); and the PodGroup carries every
    label and annotation that the reference run - one reconcile of that pod by a pod-grouper that just started,
    on an empty store, under the same answers - gives it ([owned_agreeb], as in clause (5)); a PodGroup that the
    reconcile CREATES is the PodGroup of the reference run in every field, the queue included;
    (S) two siblings - same namespace, same owner reference - reconciled under the same answers are in one
    PodGroup (kinds that share) or in two (per-pod kinds) (C18_siblings_under_equal_answers);
    (E) a reconcile fails exactly when an owner GET is answered NotFound / 5xx; a successful one leaves the pod
    assigned to an existing PodGroup of its namespace. Each observation is compared with the FIRST one of its
    class, which is enough (the relations are transitive). *)
Definition function_ok (k : fcase) (all : list robs) : bool :=
  forallb (fun x =>
             let o := ro_o x in
             Bool.eqb (eo_err o) (Nat.eqb (snd (ro_key x)) 2)
             && (eo_err o || match eo_ann o, eo_after o with Some _, Some _ => true | _, _ => false end)
             && match find (fun y => Nat.eqb (ro_pod y) (ro_pod x) && key_eqb (ro_key y) (ro_key x)) all with
                | Some y => Bool.eqb (eo_err (ro_o y)) (eo_err o)
                            && (eo_err o || (ostr_eqb (eo_ann (ro_o y)) (eo_ann o)
                                             && same_owned (eo_after (ro_o y)) (eo_after o)))
                | None => false
                end
             && (eo_err o
                 || match find (fun y => ro_ref y && Nat.eqb (ro_pod y) (ro_pod x) && key_eqb (ro_key y) (ro_key x)) all with
                    | Some y => match eo_after (ro_o y), eo_after o with
                                | Some gf, Some gh =>
                                  owned_agreeb (fk_cfg k) gf gh
                                  && match eo_before o with None => pg_ext_eqb gf gh | Some _ => true end
                                | _, _ => false
                                end
                    | None => false
                    end)
             && (eo_err o
                 || match find (fun y => fsiblings k (ro_pod y) (ro_pod x) && key_eqb (ro_key y) (ro_key x)
                                         && negb (eo_err (ro_o y))) all with
                    | Some y => match key_class k (ro_pod x) (ro_key x) with
                                | Shared => ostr_eqb (eo_ann (ro_o y)) (eo_ann o)
                                | PerPod => negb (ostr_eqb (eo_ann (ro_o y)) (eo_ann o))
                                end
                    | None => true
                    end)) all.

(** (I) reconciling a pod again under the answers of its last successful reconcile writes nothing, whatever
    was reconciled, granted or revoked in between; a failing reconcile writes nothing; (A) no reconcile touches
    the assignment of another pod: at the end every pod carries the annotation its own last reconcile left *)
Definition fidem_run_ok (k : fcase) (r : frunrec) : bool :=
  let obs := fobs_of_run k r in
  snd (fold_left (fun acc x =>
                    let o := ro_o x in
                    let last := find (fun kv => Nat.eqb (fst kv) (ro_pod x)) (fst acc) in
                    let ok := if eo_err o then Z.eqb (eo_writes o) 0
                              else match last with
                                   | Some kv => negb (key_eqb (snd kv) (ro_key x)) || Z.eqb (eo_writes o) 0
                                   | None => true
                                   end in
                    (if eo_err o then fst acc else (ro_pod x, ro_key x) :: fst acc, snd acc && ok))
                 obs ([], true))
  && forallb (fun i => ostr_eqb (nth i (fu_final_ann r) None)
                                (fold_left (fun a x => if Nat.eqb (ro_pod x) i then eo_ann (ro_o x) else a) obs None))
             (seq 0 (List.length (fk_pods k))).

Definition fmonitor_ok (k : fcase) : bool :=
  function_ok k (flat_map (fobs_of_run k) (fk_runs k)) && forallb (fidem_run_ok k) (fk_runs k).

(** * Order worlds: ONE workload whose pods carry different queue / project labels (seeded/C18-5)

    A multi-role workload (PyTorchJob Master / Worker; a StatefulSet, ReplicaSet or custom kind with a
    hand-labelled replica): the top owner and the pods carry the queue / project label in every combination -
    owner only, some pods only, owner and pods disagreeing, pods disagreeing among themselves. Every run is the
    REAL reconciler on a new store reconciling every pod in one order and then once more in the same order; the
    runs of a case differ in the order only (all permutations up to 3 pods). [oc_top] is the top owner,
    [oc_full] tells whether the model covers the owner kind (the PyTorchJob plugin is not modelled: its
    PodGroup is judged by the monitor and the queue rule only). *)
Record ocase := { oc_k : case; oc_top : obj; oc_full : bool }.

Definition omodel_agrees (o : ocase) : bool := if oc_full o then model_agrees (oc_k o) else true.

Definition final_eqb (f : pg -> pg) (a b : list (string * pg)) : bool :=
  list_eqb (fun x y => String.eqb (fst x) (fst y) && pg_ext_eqb (f (snd x)) (f (snd y))) a b.
Definition no_queue (g : pg) : pg :=
  {| pg_labels := pg_labels g; pg_annots := pg_annots g; pg_owners := pg_owners g; sp_min := sp_min g;
     sp_queue := ""; sp_prio := sp_prio g; sp_preempt := sp_preempt g; sp_mark := sp_mark g;
     sp_backoff := sp_backoff g; sp_subgroups := sp_subgroups g; sp_topo := sp_topo g |}.

(** (O) the PodGroups at the end - name, owner reference, labels, annotations, the whole spec with queue,
    priority class, preemptibility, minMember, sub-groups, topology: no other actor exists in these worlds -
    and the pods' annotations are the same for every reconcile order; [f] = what is compared of a PodGroup *)
Definition oorder_ok (f : pg -> pg) (o : ocase) : bool :=
  match k_runs (oc_k o) with
  | [] => false
  | r0 :: rs => forallb (fun r => final_eqb f (r_final r0) (r_final r)
                                   && list_eqb ostr_eqb (r_final_ann r0) (r_final_ann r)) rs
  end.

(** (Q) what CalcPodGroupQueue's documented precedence - the top owner's queue / project label first, the pod's
    own label only where the owner has none - gives for each pod of the workload ([calc_queue] on the top owner
    and the pods as generated; C18_owner_queue_decides: with a label on the owner it is the owner's for every
    pod). Where all pods give the same value the rule DECIDES the queue, and every PodGroup of every run must
    carry it; where they do not, the queue must at least be the value of one of the pods. *)
Definition pod_queues (o : ocase) : list string :=
  map (calc_queue (k_cfg (oc_k o)) (oc_top o)) (k_pods (oc_k o)).
Definition decided (o : ocase) : option string :=
  match pod_queues o with
  | q :: r => if forallb (String.eqb q) r then Some q else None
  | [] => None
  end.
Definition oqueue_ok (o : ocase) : bool :=
  forallb (fun r => forallb (fun ng => match decided o with
                                       | Some q => String.eqb (sp_queue (snd ng)) q
                                       | None => existsb (String.eqb (sp_queue (snd ng))) (pod_queues o)
                                       end) (r_final r)) (k_runs (oc_k o)).

(** flag 2 (candidate finding C18-sibling-labels-first-pod-wins): the top owner carries neither label that
    would decide and the pods disagree among themselves, and the runs differ in NOTHING but spec.queue: the
    pod reconciled first decided (C18_first_pod_decides_without_owner_label). Everywhere else (O) holds in full,
    the queue included. *)
Definition first_pod_wins (o : ocase) : bool :=
  match decided o with None => negb (oorder_ok (fun g => g) o) && oorder_ok no_queue o | Some _ => false end.
Definition omonitor_ok (o : ocase) : bool :=
  forallb (fun r => pure_run r && covers_all (oc_k o) r && negb (existsb (fun e => eo_err (snd e)) (r_events r)))
          (k_runs (oc_k o))
  && oqueue_ok o
  && (oorder_ok (fun g => g) o || first_pod_wins o).
Definition ocase_flags (o : ocase) : list nat := if first_pod_wins o then [2%nat] else [].

(** * Cases of any kind *)
Inductive tcase := CaseW (k : case) | CaseF (f : fcase) | CaseO (o : ocase).

Definition run_flags (cs : list (nat * tcase)) : list (nat * list nat) :=
  filter (fun p => negb (Nat.eqb (List.length (snd p)) 0))
         (map (fun c => (fst c, match snd c with CaseW k => case_flags k | CaseF _ => [] | CaseO o => ocase_flags o end)) cs).

Definition run_mismatches (cs : list (nat * tcase)) : list nat :=
  failing (fun c => negb (match c with CaseW k => model_agrees k | CaseF f => fmodel_agrees f
                                  | CaseO o => omodel_agrees o end)) cs.
Definition run_monitor (cs : list (nat * tcase)) : list nat :=
  failing (fun c => negb (match c with CaseW k => monitor_ok k | CaseF f => fmonitor_ok f
                                  | CaseO o => omonitor_ok o end)) cs.
