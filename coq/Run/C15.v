(** Entry points for C15 (used by generated cases): bounded closed-system runs of the REAL
    scheduler.  A case is one run: the initial world state, then for every cycle the decisions
    the real actions committed (Bind / Evict / TaskPipelined calls on the cache, in order) and
    the world state after the closed-system environment applied them (bind completes, evicted
    pod recreated as pending, pipelined pod stays pending).

    [monitor_ok]  - the property on the observed states: no lasso (a state seen before with
                    an eviction in between) and not more evicting cycles than [k_bound]; and SIZE
                    CONSISTENCY on every job the real actions placed (every stream): the size the scheduler
                    counted the pending job by (the real podgroup_info.GetTasksToAllocateInitResource, called by
                    the harness on the real job right before the action) is not smaller than what its pods were
                    charged when placed (AcceptedResource), and equal to it when the pods sit on devices of the
                    memory the session divides by ([size_ok]; Model/ClosedSystem.v never_undercounted /
                    size_consistent, theorems C15_sized_no_lasso / C15_undercounted_gate_refuted).
    [model_agrees] - every stream with single-pod whole-GPU jobs: the saturation rule at function level
                    ([sats_agree]: for every reclaim eviction the real action committed, on the queue attributes the
                    validator was handed, the model's [saturation_ok] with the clamped multiplier ON THE RECLAIMER'S
                    RATIO admits what the real reclaimable.Reclaimable admitted);
                    class stream only: every real cycle is a cycle of Model/ClosedSystem.v
                    (refinement): the parameters meet the hypotheses of the class, a pod
                    every real bind / reclaim / preempt is admissible in the abstract decision relation
                    with the CLAMPED multiplier, the cycle has the shape allocate* evict*, the
                    observed state is the model state minus the pipelined pods, and the rank
                    of theorem C15_rank_decreases strictly decreased across the cycle; and no
                    evicted pod is bound again by the next cycle's allocate before the pod it was
                    evicted for, after a cycle with ONE eviction - the setting of the theorem
                    ([order_consistent], theorem C15_shared_order_evicted_pod_not_rebound).
    This is exploration (bounded runs); the theorems of Properties/C15.v cover all runs. *)
From KaiV Require Export Run.Prelude Model.ClosedSystem.
Open Scope Z_scope.

(** pod id -> (location: 0 = pending, k = k-th node; canonical GPU-group codes) *)
Definition wstate := list (positive * (N * list N)).

(** one size observation (harness/internal/c15/world.go SizeObs), in millionths of a GPU *)
Record sizeobs := mkSz {
  sz_action : nat;      (* 0 allocate, 1 reclaim, 2 preempt, 3 consolidation, 4 other *)
  sz_job : positive;    (* first pod of the job *)
  sz_gate : Z;          (* GetTasksToAllocateInitResource(job).GPUs, asked right before the action *)
  sz_charged : Z;       (* sum over the placed pods of QuantifyResourceRequirements(AcceptedResource).GPU *)
  sz_devices : Z;       (* shared devices of the placed pods: each charged portion is rounded UP to 1/100 GPU *)
  sz_homog : bool;      (* every pod was placed on a device of the memory the gate divides by (MinNodeGPUMemory) *)
  sz_evicting : bool;   (* the action committed an eviction for this job *)
}.

Record ccycle := mkCy {
  cy_binds : list positive;                  (* pods bound, in order *)
  cy_evs : list (nat * positive * positive); (* (action: 1 reclaim, 2 preempt, 3 consolidation, 0 other; preemptor; victim pod) *)
  cy_pipes : list positive;                  (* pods pipelined *)
  cy_state : wstate;                         (* world state after the cycle *)
  cy_sizes : list sizeobs;                   (* gate size vs charged size of every job placed in the cycle *)
}.

(** one saturation observation (harness/internal/c15/satgate.go SatObs): a pair of queues the real
    reclaimingQueuesRemainWithinBoundaries compared for a reclaim eviction the action COMMITTED, on the queue attributes
    the validator was handed (rebuilt by the harness), all four figures scaled by one power of two to integers *)
Record satobs := mkSat {
  so_cycle : nat;
  so_x : Z;        (* reclaimer side: allocated - victims + request *)
  so_Fr : Z;       (* ... its fair share *)
  so_y : Z;        (* sibling: allocated - victims *)
  so_Fe : Z;       (* ... its fair share *)
  so_ref : bool;   (* the documented rule as the harness evaluates it (exactly): admits *)
  so_real : bool;  (* the REAL reclaimable.Reclaimable admitted reclaimer + victims on those attributes *)
}.

Record case := mkCase {
  k_stream : nat;            (* 0 = class of theorem C15_rank_decreases, 1 = general, 2 = hierarchical, 3 = sized (monitor only) *)
  k_params : params;         (* class: shares scaled to integers; jobs = pods *)
  k_mult : Z * Z;            (* configured saturation multiplier (before the plugin's clamp) *)
  k_exact : bool;            (* all shares were exactly representable and consistent with the session's getters *)
  k_state0 : wstate;
  k_cycles : list ccycle;
  k_bound : nat;
  k_sats : list satobs;      (* every stream with single-pod whole-GPU jobs *)
}.

(** * monitor *)
Fixpoint list_eqb {A} (e : A -> A -> bool) (a b : list A) : bool :=
  match a, b with
  | [], [] => true
  | x :: r, y :: s => e x y && list_eqb e r s
  | _, _ => false
  end.
Definition loc_eqb (a b : N * list N) : bool := N.eqb (fst a) (fst b) && list_eqb N.eqb (snd a) (snd b).
Definition wstate_eqb (a b : wstate) : bool :=
  list_eqb (fun x y => Pos.eqb (fst x) (fst y) && loc_eqb (snd x) (snd y)) a b.

Definition cy_evicts (c : ccycle) : bool := match cy_evs c with [] => false | _ => true end.

(** [later] = the cycles after state [s0]; is there a later state equal to [s0] with an
    eviction on the way? *)
Fixpoint returns_after_eviction (s0 : wstate) (evicted : bool) (later : list ccycle) : bool :=
  match later with
  | [] => false
  | c :: r =>
      let ev := evicted || cy_evicts c in
      (ev && wstate_eqb s0 (cy_state c)) || returns_after_eviction s0 ev r
  end.
Fixpoint has_lasso (s0 : wstate) (cs : list ccycle) : bool :=
  match cs with
  | [] => false
  | c :: r => returns_after_eviction s0 false cs || has_lasso (cy_state c) r
  end.

(** size consistency on one observation.  Never under-counted: charged <= gate, up to the rounding of the charged
    portions (node_info.getGpuMemoryFractionalOnNode rounds each device's portion UP to 1/100 GPU = 10000 millionths;
    10 millionths for float64 noise).  Consistent: gate <= charged as well when the devices have the memory the gate
    divides by.  On devices of another memory the gate (memory / smallest device memory) may count more: that is the
    harmless direction (theorem C15_never_undercounting_gate_only_refuses_more). *)
Definition size_ok (o : sizeobs) : bool :=
  (sz_charged o <=? sz_gate o + 10000 * sz_devices o + 10)
  && (if sz_homog o then sz_gate o <=? sz_charged o + 10 else true).
Definition sizes_ok (cs : list ccycle) : bool := forallb (fun c => forallb size_ok (cy_sizes c)) cs.

Definition monitor_ok (k : case) : bool :=
  negb (has_lasso (k_state0 k) (k_cycles k))
  && Nat.leb (List.length (filter cy_evicts (k_cycles k))) (k_bound k)
  && sizes_ok (k_cycles k).

(** * refinement (class stream) *)
Definition running_of (w : wstate) : list positive :=
  map fst (filter (fun x => negb (N.eqb (fst (snd x)) 0)) w).
Definition subset (a b : list positive) : bool := forallb (fun x => mem x b) a.
Definition same_set (a b : list positive) : bool :=
  subset a b && subset b a && Nat.eqb (List.length a) (List.length b).

Definition ev_decision (e : nat * positive * positive) : option decision :=
  match e with
  | (1%nat, j, v) => Some (DReclaim j v)
  | (2%nat, j, v) => Some (DPreempt j v)
  | _ => None
  end.
Fixpoint all_some {A} (l : list (option A)) : option (list A) :=
  match l with
  | [] => Some []
  | Some x :: r => match all_some r with Some t => Some (x :: t) | None => None end
  | None :: _ => None
  end.

Fixpoint lexltb (a b : list Z) : bool :=
  match a, b with
  | x :: r, y :: s =>
      if Z.eqb x y then lexltb r s else (0 <=? x) && (x <? y) && Nat.eqb (List.length r) (List.length s)
  | _, _ => false
  end.

(** replay of the real cycles through the model.  [prev] = observed world state before the
    cycle, [pp] = pods pipelined by the previous cycle.  The model state before the cycle is
    the observed running pods plus those pipelined pods that the cycle's allocate binds
    first-thing (the model lets a pipelined pod keep the slot it was pipelined onto; when the
    real allocate hands that slot to another pod - counted by the harness as
    "slot-not-honoured" - the pipelined pod is simply pending again and the cycle is replayed
    from the observed state). *)
Fixpoint replay (m : Z * Z) (p : params) (prev : wstate) (pp : list positive) (cs : list ccycle) : bool :=
  match cs with
  | [] => true
  | c :: r =>
      let kept := filter (fun b => mem b (cy_binds c)) pp in
      let ms := running_of prev ++ kept in
      let fresh := filter (fun b => negb (mem b kept)) (cy_binds c) in
      match all_some (map ev_decision (cy_evs c)) with
      | None => false
      | Some evs =>
          let ds := map DBind fresh ++ evs in
          let pp' := map (fun e => snd (fst e)) (cy_evs c) in
          (Z.of_nat (List.length ms) <=? p_slots p)
          && cycle_shape ds
          && same_set pp' (cy_pipes c)
          && match run m p ms ds with
             | None => false
             | Some ms' =>
                 (match ds with [] => true | _ => lexltb (rank p ms') (rank p ms) end)
                 && same_set ms' (running_of (cy_state c) ++ pp')
                 && replay m p (cy_state c) pp' r
             end
      end
  end.

(** * the ORDER in which the simulation and the next allocate considered jobs *)
(** What is observable without hooks: the decisions the actions committed, in order (Bind / Evict /
    TaskPipelined on the cache).  The pop order of utils.JobsOrderByQueues itself - in particular the
    jobs the simulation popped and SKIPPED, which is what seeded change C15-2 alters - leaves no trace:
    a skipped or failed job causes no statement operation (the harness additionally follows the
    statements through framework.EventHandler and sees the victims a scenario evicted and re-placed,
    label tag SIM-REPLACED, but not the order of the pops).  Observable consequence of theorem
    C15_shared_order_evicted_pod_not_rebound: a committed eviction (j, v) says that in the
    simulation's order j was placed and v was not; so in the NEXT cycle's allocate - the same order
    over the same jobs - v must not be bound unless j was bound before it. *)
Fixpoint index_of (x : positive) (l : list positive) : option nat :=
  match l with
  | [] => None
  | y :: r => if Pos.eqb x y then Some O else match index_of x r with Some n => Some (S n) | None => None end
  end.
Definition rebound_before (evs : list (nat * positive * positive)) (binds : list positive) : bool :=
  existsb (fun e =>
    match e with
    | (a, j, v) =>
        (Nat.eqb a 1 || Nat.eqb a 2) && negb (Pos.eqb j v)
        && match index_of v binds with
           | None => false
           | Some iv => match index_of j binds with None => true | Some ij => Nat.ltb iv ij end
           end
    end) evs.
(** [all] = false: the statement of the theorem - it speaks of a cycle with ONE evicting decision ([ordered_system]:
    allocate, then at most one simulated reclaim, one victim): when the previous cycle committed several evictions
    (e.g. a reclaim and then a preemption for another job), the later ones changed the state the earlier simulation was
    made for and the theorem says nothing; [all] = true: the same test after every cycle (observation flag 121). *)
Fixpoint order_consistent_gen (all : bool) (prev : list (nat * positive * positive)) (cs : list ccycle) : bool :=
  match cs with
  | [] => true
  | c :: r =>
      negb (rebound_before (if all then prev else match prev with [e] => [e] | _ => [] end) (cy_binds c))
      && order_consistent_gen all (cy_evs c) r
  end.
Definition order_consistent := order_consistent_gen false.
Definition order_consistent_all := order_consistent_gen true.

(** * the saturation rule, function level (every stream that carries observations) *)
(** [saturation_ok mn md 0 x Fr y Fe] is isFairShareSaturationLowerPerResource on the pair, with the CLAMPED multiplier
    on the reclaimer's ratio.  Demanded: the harness's own evaluation of the documented rule is the model's (the lasso
    tag GATE-ADMITS-WHAT-THE-SATURATION-RULE-REFUSES rests on it), and whatever the real Reclaimable admitted the model's
    rule admits (the real verdict also covers the strategies, so nothing is demanded when it refused). *)
Definition sat_model (m : Z * Z) (o : satobs) : bool :=
  saturation_ok (fst m) (snd m) 0 (so_x o) (so_Fr o) (so_y o) (so_Fe o).
Definition sat_agrees (m : Z * Z) (o : satobs) : bool :=
  Bool.eqb (sat_model m o) (so_ref o) && implb (so_real o) (sat_model m o).
Definition sats_agree (k : case) : bool :=
  match k_sats k with
  | [] => true
  | l => (0 <? snd (k_mult k)) && forallb (sat_agrees (clamp (k_mult k))) l
  end.

Definition model_agrees (k : case) : bool :=
  sats_agree k &&
  match k_stream k with
  | O =>
      k_exact k && wf_paramsb (k_params k) && (0 <? snd (k_mult k))
      && replay (clamp (k_mult k)) (k_params k) (k_state0 k) [] (k_cycles k)
      && order_consistent [] (k_cycles k)
  | _ => true
  end.

(** observation flag 120 (hierarchical stream): the next allocate bound an evicted pod although the pod
    it was evicted for was not bound before it (the simulation and the allocate action did not see the same
    order).  Outside the class this is not a statement of a theorem; a lasso is what the monitor reports. *)
(** observation flag 121 (class stream): the same after a cycle that committed SEVERAL evictions (outside the
    hypotheses of the theorem, see [order_consistent_gen]). *)
Definition case_flags (k : case) : list nat :=
  match k_stream k with
  | 2%nat => if order_consistent_all [] (k_cycles k) then [] else [120%nat]
  | O => if order_consistent_all [] (k_cycles k) then [] else
           if order_consistent [] (k_cycles k) then [121%nat] else []
  | _ => []
  end.
Definition run_flags (cs : list (nat * case)) : list (nat * list nat) :=
  filter (fun p => negb (Nat.eqb (List.length (snd p)) 0)) (map (fun c => (fst c, case_flags (snd c))) cs).

Definition run_mismatches (cs : list (nat * case)) : list nat := failing (fun k => negb (model_agrees k)) cs.
Definition run_monitor (cs : list (nat * case)) : list nat := failing (fun k => negb (monitor_ok k)) cs.
