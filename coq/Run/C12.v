(** Correspondence + monitor entry points for C12 (used by generated cases).
    A case is one history played on the real code: the initial API store, and per
    step the event, the projected store after it and what the step returned (the
    reconciler's result, or the scheduler's snapshot view).
    [model_agrees] replays the history through the model with the rule selected by
    the switch [update_status] (Model/BindRequest.v) and compares the whole trace.
    [monitor_ok] evaluates the three clauses of the property on the REAL trace. *)
From KaiV Require Export Run.Prelude Model.BindRequest Model.BindRequestSpec.
Open Scope Z_scope.

Record case := { k_init : store; k_steps : list stepobs }.

Fixpoint insert_by {A} (key : A -> positive) (x : A) (l : list A) : list A :=
  match l with
  | [] => [x]
  | y :: r => if Pos.leb (key x) (key y) then x :: l else y :: insert_by key x r
  end.
Definition sort_by {A} (key : A -> positive) (l : list A) : list A :=
  fold_right (insert_by key) [] l.

Fixpoint list_eqb {A} (e : A -> A -> bool) (a b : list A) : bool :=
  match a, b with
  | [], [] => true
  | x :: r, y :: s => e x y && list_eqb e r s
  | _, _ => false
  end.

Definition pod_phase_eqb (a b : pod_phase) : bool :=
  match a, b with
  | PPending, PPending | PRunning, PRunning | PSucceeded, PSucceeded
  | PFailed, PFailed | PUnknown, PUnknown => true
  | _, _ => false
  end.
Definition pod_eqb (a b : pod) : bool :=
  Pos.eqb (p_id a) (p_id b) && opt_pos_eqb (p_node a) (p_node b)
  && pod_phase_eqb (p_phase a) (p_phase b) && Bool.eqb (p_deleting a) (p_deleting b)
  && Bool.eqb (p_gated a) (p_gated b) && pos_list_eqb (p_groups a) (p_groups b)
  && (p_req a =? p_req b).

(** model store (insertion order) against observed store (sorted by id) *)
Definition store_eqb (m o : store) : bool :=
  list_eqb pod_eqb (sort_by p_id (pods m)) (pods o)
  && pos_list_eqb (sort_by (fun x => x) (nodes m)) (nodes o)
  && list_eqb br_eqb (sort_by b_pod (brs m)) (brs o).

Definition view_eqb (m o : view) : bool :=
  list_eqb (fun a b => Pos.eqb (fst a) (fst b) && Bool.eqb (snd a) (snd b))
    (sort_by fst (v_failed m)) (v_failed o)
  && list_eqb (fun a b => Pos.eqb (fst a) (fst b) && task_eqb (snd a) (snd b))
       (sort_by fst (v_tasks m)) (v_tasks o)
  && list_eqb (fun a b => Pos.eqb (fst a) (fst b) && pos_list_eqb (sort_by (fun x => x) (snd a)) (snd b))
       (sort_by fst (v_charged m)) (v_charged o)
  && list_eqb (fun a b => Pos.eqb (fst a) (fst b) && (snd a =? snd b))
       (sort_by fst (v_used m)) (v_used o).

Definition rresult_eqb (a b : rresult) : bool :=
  match a, b with
  | RPanic, RPanic => true
  | RDone x e, RDone y f => (x =? y) && Bool.eqb e f
  | _, _ => false
  end.

Definition obs_eqb (m o : observation) : bool :=
  match m, o with
  | ONone, ONone => true
  | OView a, OView b => view_eqb a b
  | OResult a, OResult b => rresult_eqb a b
  | _, _ => false
  end.

Fixpoint agrees_from (s : store) (steps : list stepobs) : bool :=
  match steps with
  | [] => true
  | st :: r =>
      let s' := step update_status s (so_event st) in
      store_eqb s' (so_store st)
      && obs_eqb (observe update_status s (so_event st)) (so_obs st)
      && agrees_from s' r
  end.

Definition model_agrees (k : case) : bool := agrees_from (k_init k) (k_steps k).

(** The property itself, on what the real code did ([monitor_from] in
    Model/BindRequestSpec.v: clauses 1-2 at every snapshot, clause 3 at every reconcile). *)
Definition monitor_ok (k : case) : bool := monitor_from (k_init k) g_none (k_steps k).

Definition run_mismatches (cs : list (nat * case)) : list nat := failing (fun k => negb (model_agrees k)) cs.
Definition run_monitor (cs : list (nat * case)) : list nat := failing (fun k => negb (monitor_ok k)) cs.
