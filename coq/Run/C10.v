(** Correspondence + monitor entry points for C10 (used by generated cases).
    A case is one input (queue graph / sub-group list / whole cluster) plus what the
    real Go code did under the watchdog: terminated, panicked or hung, and a projection
    of the result when it terminated. *)
From KaiV Require Export Run.Prelude Model.Totality.
Open Scope Z_scope.

Inductive outcome := Terminated | Panicked | Hung.

Definition outcome_eqb (a b : outcome) : bool :=
  match a, b with
  | Terminated, Terminated | Panicked, Panicked | Hung, Hung => true
  | _, _ => false
  end.

Definition outcome_of {A} (r : result A) : outcome :=
  match r with Done _ => Terminated | OutOfFuel => Hung | Panic => Panicked end.

Inductive case :=
(* cluster_info.UpdateQueueHierarchy: surviving queues with their (sorted) ChildQueues *)
| KHier (g : qgraph) (o : outcome) (remaining : list (qid * list qid))
(* UpdateQueueHierarchy, then capacity_policy.IsJobOverQueueCapacity for a job in [jq];
   [s1] = queues whose GPU limit is exceeded by the request, [s2] = queues whose deserved
   GPU quota is exceeded for a non-preemptible job *)
| KCap (g : qgraph) (s1 s2 : list qid) (jq : qid) (preemptible : bool) (o : outcome) (schedulable : bool)
(* capacity_policy.IsJobOverQueueCapacity on the raw map WITHOUT UpdateQueueHierarchy: the loops
   themselves still spin on a cycle (function-level fact; not reachable from API state) *)
| KRawCap (g : qgraph) (jq : qid) (o : outcome) (schedulable : bool)
(* UpdateQueueHierarchy, then reclaimable.CanReclaimResources *)
| KCanRecl (g : qgraph) (reclaimer : qid) (o : outcome)
(* UpdateQueueHierarchy, then reclaimable.Reclaimable with one victim queue, numeric guards passing *)
| KRecl (g : qgraph) (reclaimer victim : qid) (nres : nat) (o : outcome) (verdict : bool)
(* UpdateQueueHierarchy, then JobsOrderByQueues.InitializeWithJobs + PopNextJob until empty *)
| KOrder (g : qgraph) (jobs : list qid) (o : outcome) (popped : nat)
(* UpdateQueueHierarchy, proportion OnSessionOpen with one pending pod per job, then
   optionally GetMessageOfEviction(Reclaim) for (reclaimer queue, reclaimee queue) *)
| KOpen (g : qgraph) (jobs : list qid) (msg : option (qid * qid)) (o : outcome)
(* FromPodGroup + SetPodGroup on a fresh job + AddTaskInfo per task *)
| KSub (sgs : list subgroup) (min_member : Z) (tasks : list string) (o : outcome)
       (fallback : bool) (pod_sets : list (string * Z)) (accepted : list bool)
(* NewTaskInfo / NewNodeInfo / allocatability on hostile annotations and nodes: nothing to walk *)
| KSample (o : outcome)
(* whole cycle: queue objects, (queue, has a pending or allocated pod) per pod group,
   outcome, and whether the healthy jobs were bound as in the run without malformed objects *)
| KCycle (g : qgraph) (jobs : list (qid * bool)) (o : outcome) (healthy_same : bool).

Definition fuel_for (g : qgraph) : nat := fuel_of g.

(** ** model side *)

Definition m_cap (g : qgraph) (s1 s2 : list qid) (jq : qid) (pre : bool) : result bool :=
  let f := fuel_for g in
  bind (update_queue_hierarchy f g) (fun g' =>
  bind (walk_until f g' (fun q => mem q s1) (Some jq)) (fun r1 =>
    match r1 with
    | Some _ => Done false
    | None =>
      if pre then Done true
      else bind (walk_until f g' (fun q => mem q s2) (Some jq)) (fun r2 =>
             Done (match r2 with None => true | Some _ => false end))
    end)).

Definition m_canrecl (g : qgraph) (q : qid) : result unit :=
  bind (update_queue_hierarchy (fuel_for g) g) (fun g' => can_reclaim_lookup g' q).

Definition m_recl (g : qgraph) (a b : qid) (n : nat) : result bool :=
  let f := fuel_for g in
  bind (update_queue_hierarchy f g) (fun g' => reclaimable_skeleton f g' (fun _ => false) a b n).

(** a pushed job is popped iff its queue's chain ends at a root *)
Fixpoint ends_at_root (g : qgraph) (l : list qid) : bool :=
  match l with
  | [] => false
  | [x] => match lookup g x with Some None => true | _ => false end
  | _ :: r => ends_at_root g r
  end.

Fixpoint m_order_go (f : nat) (g' : qgraph) (ch : qid -> list qid) (created : list qid) (jobs : list qid) (n : nat)
  : result nat :=
  match jobs with
  | [] => Done n
  | q :: r =>
    if job_admitted g' ch q then
      bind (push_job f g' ch created q) (fun created' =>
      bind (walk f g' (Some q)) (fun l =>
        m_order_go f g' ch created' r (if ends_at_root g' l then S n else n)))
    else m_order_go f g' ch created r n
  end.

Definition m_order (g : qgraph) (jobs : list qid) : result nat :=
  let f := fuel_for g in
  bind (update_queue_hierarchy f g) (fun g' => m_order_go f g' (hierarchy_children g) [] jobs 0).

Fixpoint walk_each (f : nat) (g : qgraph) (starts : list qid) : result unit :=
  match starts with
  | [] => Done tt
  | q :: r => bind (walk f g (Some q)) (fun _ => walk_each f g r)
  end.

(** OnSessionOpen: usage accumulation for every job with a pending / allocated pod, then fair share *)
Definition m_open_on (f : nat) (g g' : qgraph) (active : list qid) : result unit :=
  bind (walk_each f g' active) (fun _ =>
  bind (set_fair_share f g' (hierarchy_children g)) (fun _ => Done tt)).

Definition m_open (g : qgraph) (jobs : list qid) (msg : option (qid * qid)) : result unit :=
  let f := fuel_for g in
  bind (update_queue_hierarchy f g) (fun g' =>
  bind (m_open_on f g g' jobs) (fun _ =>
    match msg with
    | None => Done tt
    | Some (a, b) => eviction_message g' a b
    end)).

Definition m_cycle_open (g : qgraph) (jobs : list (qid * bool)) : result unit :=
  let f := fuel_for g in
  bind (update_queue_hierarchy f g) (fun g' =>
    m_open_on f g g' (map fst (filter snd jobs))).

(** ** comparison helpers *)

Fixpoint list_eqb {A} (e : A -> A -> bool) (a b : list A) : bool :=
  match a, b with
  | [], [] => true
  | x :: r, y :: s => e x y && list_eqb e r s
  | _, _ => false
  end.

Fixpoint insert_pos (x : qid) (l : list qid) : list qid :=
  match l with
  | [] => [x]
  | y :: r => if Pos.leb x y then x :: l else y :: insert_pos x r
  end.
Definition sort_pos (l : list qid) : list qid := fold_right insert_pos [] l.

Definition pz_in (p : string * Z) (l : list (string * Z)) : bool :=
  existsb (fun q => String.eqb (fst p) (fst q) && (snd p =? snd q)) l.
Definition same_pod_sets (a b : list (string * Z)) : bool :=
  Nat.eqb (List.length a) (List.length b) && forallb (fun p => pz_in p b) a && forallb (fun p => pz_in p a) b.

Definition agree {A} (r : result A) (o : outcome) (same : A -> bool) : bool :=
  match r, o with
  | Done a, Terminated => same a
  | OutOfFuel, Hung => true
  | Panic, Panicked => true
  | _, _ => false
  end.

Definition model_agrees (k : case) : bool :=
  match k with
  | KHier g o remaining =>
    agree (update_queue_hierarchy (fuel_for g) g) o (fun g' =>
      list_eqb Pos.eqb (sort_pos (keys g')) (map fst remaining)
      && forallb (fun e => list_eqb Pos.eqb (sort_pos (hierarchy_children g (fst e))) (snd e)) remaining)
  | KCap g s1 s2 jq pre o sched => agree (m_cap g s1 s2 jq pre) o (Bool.eqb sched)
  | KRawCap g jq o sched =>
    agree (walk_until (fuel_for g) g (fun _ => false) (Some jq)) o (fun _ => Bool.eqb sched true)
  | KCanRecl g q o => agree (m_canrecl g q) o (fun _ => true)
  | KRecl g a b n o v => agree (m_recl g a b n) o (Bool.eqb v)
  | KOrder g jobs o popped => agree (m_order g jobs) o (Nat.eqb popped)
  | KOpen g jobs msg o => agree (m_open g jobs msg) o (fun _ => true)
  | KSub sgs mm tasks o fb ps acc =>
    let f := S (List.length sgs) in
    agree (from_pod_group f sgs) o (fun r => Bool.eqb fb (match r with None => true | Some _ => false end))
    && agree (set_sub_groups f sgs mm) o (fun l =>
         same_pod_sets l ps && list_eqb Bool.eqb (map (add_task l) tasks) acc)
  | KSample o => outcome_eqb o Terminated
  | KCycle g jobs o _ =>
    (* only the hang is predicted for whole cycles: the session opens iff the model's does *)
    Bool.eqb (is_oof (m_cycle_open g jobs)) (outcome_eqb o Hung)
  end.

(** ** The property itself, evaluated on what the real code did: it terminated without a
    panic (for the function-level reclaim cases only when the queues exist after
    UpdateQueueHierarchy, which is what the actions guarantee before calling them), and the
    healthy workloads of a whole cycle were bound as without the malformed objects. *)
Definition exists_after_cleaning (g : qgraph) (qs : list qid) : bool :=
  match update_queue_hierarchy (fuel_for g) g with
  | Done g' => forallb (fun q => match lookup g' q with Some _ => true | None => false end) qs
  | _ => true
  end.

Definition monitor_ok (k : case) : bool :=
  match k with
  | KHier g o remaining =>
    (* terminated, and no queue whose own parent chain is healthy was deleted *)
    outcome_eqb o Terminated
    && forallb (fun e => if reaches_root (List.length g) g (fst e) then mem (fst e) (map fst remaining) else true) g
  | KCap _ _ _ _ _ o _ => outcome_eqb o Terminated
  | KRawCap _ _ _ _ => true
  | KCanRecl g q o => if exists_after_cleaning g [q] then outcome_eqb o Terminated else true
  | KRecl g a b _ o _ => if exists_after_cleaning g [a; b] then outcome_eqb o Terminated else true
  | KOrder _ _ o _ => outcome_eqb o Terminated
  | KOpen g _ msg o =>
    match msg with
    | Some (a, b) => if exists_after_cleaning g [a; b] then outcome_eqb o Terminated else negb (outcome_eqb o Hung)
    | None => outcome_eqb o Terminated
    end
  | KSub _ _ _ o _ ps _ =>
    (* terminated, and no pod set with a non-positive minimum reaches the actions
       (they slice task lists by it: splitVictimTasks) *)
    outcome_eqb o Terminated && forallb (fun p => 1 <=? snd p) ps && negb (Nat.eqb (List.length ps) 0)
  | KSample o => outcome_eqb o Terminated
  | KCycle _ _ o same => outcome_eqb o Terminated && same
  end.

Definition run_mismatches (cs : list (nat * case)) : list nat := failing (fun k => negb (model_agrees k)) cs.
Definition run_monitor (cs : list (nat * case)) : list nat := failing (fun k => negb (monitor_ok k)) cs.
