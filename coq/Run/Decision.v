(** The choice of GPU groups for a fractional task (gpu_sharing.GetNodePreferableGpuForSharing):
    function-level correspondence with Model/GpuSharing.v and the safety monitor on what the
    real function returned.  Shared by the checks of C02 (shared devices are never
    oversubscribed) and C01 (capacity held by terminating pods is never handed to a bind). *)
From KaiV Require Export Run.Cycle Model.GpuSharing.
Open Scope Z_scope.

Record dcase := mkD {
  d_node : node;                       (* the real node before the decision *)
  d_task : task;
  d_pipeline_only : bool;
  d_cands : list (option positive);    (* candidate list handed to the real function, in its order *)
  d_fresh : list positive;             (* names standing for the fresh groups, in creation order *)
  d_obs : option (list positive * bool);   (* observed: chosen groups, IsReleasing *)
}.

Definition decision_eqb (a b : option (list positive * bool)) : bool :=
  match a, b with
  | None, None => true
  | Some (g1, r1), Some (g2, r2) => list_eqb Pos.eqb g1 g2 && Bool.eqb r1 r2
  | _, _ => false
  end.

Definition decision_agrees (d : dcase) : bool :=
  decision_eqb (prefer (d_node d) (d_task d) (d_pipeline_only d) (d_cands d) (d_fresh d)) (d_obs d).

(** A decision that is not marked as releasing leads to Statement.Allocate and then to a Bind:
    it must be safe for the devices. Flag 2: the unsafe decision is one where fresh devices were
    taken although fewer are idle (known finding C02-multidevice-fresh-groups). *)
Definition decision_monitor (d : dcase) : bool :=
  match d_obs d with
  | Some (gs, false) =>
      nodup_posb gs && (Z.of_nat (List.length gs) =? t_ndev (d_task d))
      && decision_safe (d_node d) (d_task d) gs
  | Some (gs, true) => nodup_posb gs && (Z.of_nat (List.length gs) =? t_ndev (d_task d))
  | None => true
  end.

