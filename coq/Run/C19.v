(** Correspondence + monitor entry points for C19 (used by generated cases). *)
From KaiV Require Export Run.Prelude Model.Strconv Model.GpuRequest Model.GpuRequestSpec Model.GpuMaterialise.
Open Scope Z_scope.

(** [idx_str] (strconv.Itoa, "i" in front for init containers) is in Model/GpuMaterialise.v *)

(** The reservation service's part of one bind (Binder.reserveGPUs: ReserveGpuDevice per selected GPU group, each ending in
    updatePodGPUGroup's label patch) on an API server where the pod and the groups' reservation pods exist. *)
Record label_obs := {
  l_groups : list string;     (* input: Spec.SelectedGPUGroups of the BindRequest the real scheduler cache created *)
  l_ok : bool;                (* observed: every ReserveGpuDevice returned nil *)
  l_labels : labels;          (* observed: the labels of the pod as stored afterwards (sorted by key) *)
  l_reread : list string      (* observed: GPUGroups of pod_info.NewTaskInfo on the stored pod (sorted): what the scheduler's
                                 next snapshot charges the pod to *)
}.

(** One PreBind of the real binder gpusharing plugin on the admitted (mutated) pod. *)
Record round := {
  r_cdi : bool;               (* input: the plugin renders CDI device names *)
  r_ids : list string;        (* input: reserved GPU indexes of the selected GPU groups (BindingState) *)
  r_portion : string;         (* observed: Spec.ReceivedGPU.Portion of the BindRequest the REAL scheduler cache created for the
                                 pod (NewTaskInfo, NodeInfo.AddTask on a node, SchedulerCache.Bind -> createBindRequest on a
                                 fake clientset); that BindRequest is what PreBind gets *)
  r_accepted : N;             (* observed: bits of AcceptedResource's portion, what the scheduler books per device on that node *)
  r_exact : bool;             (* observed: GPU_PORTION and RUNAI_NUM_OF_GPUS the selected container starts with both parse
                                 (strconv.ParseFloat) to exactly that portion *)
  r_close : bool;             (* observed: ... to within half a hundredth of it *)
  r_ok : bool;                (* observed: PreBind returned nil *)
  r_maps : cmstore;           (* observed: the namespace's ConfigMaps afterwards (sorted by name, data by key) *)
  r_env : list (ctype * nat * envval * envval);
                              (* observed: NVIDIA_VISIBLE_DEVICES and GPU_PORTION every container starts with,
                                 resolved by the harness from the real pod and the real ConfigMaps *)
  r_lab : label_obs    (* the label patches of the same bind *)
}.
Record bind_obs := {
  b_ref : option (ctype * nat * string);  (* observed: GetFractionContainerRef: type, index, ref.Container.Name *)
  b_pre : cmstore;                        (* input: ConfigMaps present before the first PreBind (owned by the pod) *)
  b_rounds : list round;                  (* a second round = a bind retry with another grant *)
  b_sched_devices : Z;                    (* observed: ResReq.GetNumOfGpuDevices of NewTaskInfo on the pod *)
  b_ndev : ndev;                          (* observed: resources.GetNumGPUFractionDevices on the pod *)
  b_multi : option bool                   (* observed: resources.IsMultiFraction on the pod (None = error) *)
}.

Record case := {
  k_enabled : bool;
  k_pod : gpod;
  k_pf : pfres;          (* ParseFloat(annotation gpu-fraction, or "" when absent) as Go returned it *)
  k_valid : bool;        (* observed: Validate returned nil *)
  k_req : greq;          (* observed: NewTaskInfo's request type / devices / portion / memory *)
  k_mut : gpod;          (* observed: pod after Mutate, projected *)
  k_idem : bool;         (* observed: a second Mutate left the pod deeply equal *)
  k_hooks : list bool;   (* observed: the webhook's entry points accept: ValidateCreate; ValidateUpdate from an
                            admitted pod with a valid request and from one without request, spec unchanged *)
  k_mut_ok : bool;       (* observed: Mutate returned nil (an error makes the mutating webhook refuse the pod) *)
  k_bvalid : bool;       (* observed: the binder's ValidateGpuRequests accepts the mutated pod *)
  k_bind : option bind_obs;            (* the binder on the mutated pod: present iff admission accepted a sharing pod *)
  k_legacy : option (gpod * bind_obs); (* correspondence only: the binder on the UNMUTATED pod (admitted before the
                                          webhook existed: only the config-map annotation is there) *)
}.

Definition str_opt_eqb (a b : option string) : bool :=
  match a, b with
  | Some x, Some y => String.eqb x y
  | None, None => true
  | _, _ => false
  end.
Definition z_opt_eqb (a b : option Z) : bool :=
  match a, b with
  | Some x, Some y => x =? y
  | None, None => true
  | _, _ => false
  end.
Fixpoint list_eqb {A} (e : A -> A -> bool) (a b : list A) : bool :=
  match a, b with
  | [], [] => true
  | x :: r, y :: s => e x y && list_eqb e r s
  | _, _ => false
  end.
Definition pair_eqb (a b : string * string) : bool :=
  String.eqb (fst a) (fst b) && String.eqb (snd a) (snd b).
Definition container_eqb (a b : container) : bool :=
  String.eqb (c_name a) (c_name b) && z_opt_eqb (c_gpu_req a) (c_gpu_req b)
  && z_opt_eqb (c_gpu_lim a) (c_gpu_lim b) && list_eqb pair_eqb (c_env a) (c_env b)
  && list_eqb String.eqb (c_envfrom a) (c_envfrom b).
Definition gpod_eqb (a b : gpod) : bool :=
  str_opt_eqb (a_fraction a) (a_fraction b) && str_opt_eqb (a_memory a) (a_memory b)
  && str_opt_eqb (a_numdev a) (a_numdev b) && str_opt_eqb (a_mps a) (a_mps b)
  && str_opt_eqb (a_cname a) (a_cname b) && str_opt_eqb (a_cm a) (a_cm b)
  && list_eqb container_eqb (containers a) (containers b)
  && list_eqb container_eqb (inits a) (inits b)
  && list_eqb pair_eqb (volumes a) (volumes b).

(** the prefix Go generated when none was present: read back from the observed pod *)
Definition fresh_of (k : case) : string := oget (a_cm (k_mut k)).

(** ** the binder's side *)
Definition ctype_eqb (a b : ctype) : bool :=
  match a, b with RegularC, RegularC | InitC, InitC => true | _, _ => false end.

(** config-map data / stores compared as maps (the model keeps insertion order, the dump is sorted) *)
Definition data_sub (a b : cmdata) : bool :=
  forallb (fun kv => ostr_eqb (lookup (fst kv) b) (Some (snd kv))) a.
Definition data_eqb (a b : cmdata) : bool :=
  Nat.eqb (List.length a) (List.length b) && data_sub a b && data_sub b a.
Definition store_sub (a b : cmstore) : bool :=
  forallb (fun e => match lookup (fst e) b with Some d => data_eqb (snd e) d | None => false end) a.
Definition store_eqb (a b : cmstore) : bool :=
  Nat.eqb (List.length a) (List.length b) && store_sub a b && store_sub b a.

Definition ref_of (p : gpod) : option (ctype * nat * string) :=
  match selected_container p with
  | Selected ty i c => Some (ty, i, c_name c)
  | _ => None
  end.
Definition ref_eqb (a b : option (ctype * nat * string)) : bool :=
  match a, b with
  | Some (t, i, n), Some (t', i', n') => ctype_eqb t t' && Nat.eqb i i' && String.eqb n n'
  | None, None => true
  | _, _ => false
  end.

Fixpoint indexed {A} (i : nat) (l : list A) : list (nat * A) :=
  match l with [] => [] | x :: r => (i, x) :: indexed (S i) r end.
Definition all_conts (p : gpod) : list (ctype * nat * container) :=
  map (fun ic => (RegularC, fst ic, snd ic)) (indexed 0 (containers p))
  ++ map (fun ic => (InitC, fst ic, snd ic)) (indexed 0 (inits p)).
(** NVIDIA_VISIBLE_DEVICES and GPU_PORTION of every container under the config maps [s] *)
Definition env_of_all (s : cmstore) (p : gpod) : list (ctype * nat * envval * envval) :=
  map (fun x => match x with (t, i, c) =>
         (t, i, eff_env s c nvidia_visible_devices, eff_env s c gpu_portion_env) end) (all_conts p).
Definition env_entry_eqb (a b : ctype * nat * envval * envval) : bool :=
  match a, b with
  | (t, i, x, y), (t', i', x', y') => ctype_eqb t t' && Nat.eqb i i' && envval_eqb x x' && envval_eqb y y'
  end.

(** every round: the model's PreBind on the config maps the real PreBind started from *)
Fixpoint rounds_agree (p : gpod) (s : cmstore) (rs : list round) : bool :=
  match rs with
  | [] => true
  | r :: rest =>
      (match prebind idx_str true (r_cdi r) (r_ids r) (r_portion r) p s with
       | Some s' => r_ok r && store_eqb s' (r_maps r)
       | None => negb (r_ok r)
       end)
      && list_eqb env_entry_eqb (env_of_all (r_maps r) p) (r_env r)
      && rounds_agree p (r_maps r) rest
  end.
(** lists of strings compared as sets without repetition (Go map iteration order / sorted dumps) *)
Definition str_mem (x : string) (l : list string) : bool := existsb (String.eqb x) l.
Definition strs_same (a b : list string) : bool :=
  Nat.eqb (List.length a) (List.length b) && forallb (fun x => str_mem x b) a && forallb (fun x => str_mem x a) b.
Definition ndev_eqb (a b : ndev) : bool :=
  match a, b with
  | NdOk x, NdOk y => x =? y
  | NdNotFound, NdNotFound | NdParseError, NdParseError => true
  | _, _ => false
  end.
Definition obool_eqb (a b : option bool) : bool :=
  match a, b with
  | Some x, Some y => Bool.eqb x y
  | None, None => true
  | _, _ => false
  end.
(** the model's label patches against the stored labels, the model's GetGpuGroups against NewTaskInfo's groups *)
Definition labels_agree (p : gpod) (l : label_obs) : bool :=
  (match labels_after_binding (l_groups l) p with
   | Some ls => l_ok l && data_eqb ls (l_labels l)
   | None => negb (l_ok l)
   end)
  && strs_same (groups_of_labels (l_labels l)) (l_reread l).
Definition devices_agree (pf : string -> pfres) (p : gpod) (b : bind_obs) : bool :=
  ndev_eqb (binder_num_devices p) (b_ndev b) && obool_eqb (is_multi_fraction p) (b_multi b)
  && (g_count (scheduler_interpret pf p) =? b_sched_devices b)
  && forallb (fun r => labels_agree p (r_lab r)) (b_rounds b).
Definition bind_agrees (pf : string -> pfres) (p : gpod) (b : bind_obs) : bool :=
  ref_eqb (ref_of p) (b_ref b) && rounds_agree p (b_pre b) (b_rounds b) && devices_agree pf p b.

Definition nonempty {A} (l : list A) : bool := match l with [] => false | _ => true end.
(** a pod that carries a GPU-sharing annotation and that both admission webhooks let through *)
Definition admitted (k : case) : bool := k_valid k && k_mut_ok k.
Definition admitted_sharing (k : case) : bool :=
  admitted k && requests_gpu_fraction (k_pod k) && nonempty (containers (k_pod k)).

Definition model_agrees (k : case) : bool :=
  let pf := fun _ : string => k_pf k in
  Bool.eqb (admission_validate (k_enabled k) pf (k_pod k)) (k_valid k)
  (* creation and every update are decided by the same validation *)
  && forallb (Bool.eqb (k_valid k)) (k_hooks k)
  && greq_eqb (scheduler_interpret pf (k_pod k)) (k_req k)
  && gpod_eqb (mutate idx_str (fresh_of k) (k_pod k)) (k_mut k)
  && Bool.eqb (negb (mutate_fails (k_pod k))) (k_mut_ok k)
  (* the binder validates the mutated pod with the same code *)
  && Bool.eqb (validate_gpu_requests pf (k_mut k)) (k_bvalid k)
  (* GetFractionContainerRef and PreBind on the mutated pod (and on the unmutated one) *)
  && Bool.eqb (isSome (k_bind k)) (admitted_sharing k)
  && match k_bind k with Some b => bind_agrees pf (k_mut k) b | None => true end
  && match k_legacy k with Some (p, b) => bind_agrees pf p b | None => true end.

(** The property itself, evaluated on what the real code returned. *)
(** the pod gets past admission: on creation or by an update of an admitted pod *)
Definition accepted (k : case) : bool := k_valid k || existsb (fun b => b) (k_hooks k).

(** ** per-container clause, on the real outputs only.
    The selection is the one the real GetFractionContainerRef reported ([b_ref]): the clause does not
    depend on the model's search order, only on what the annotation asks for. *)

(** a container other than the selected one that did not reference the selected container's two config maps in
    the submitted pod starts, after admission and binding, with the NVIDIA_VISIBLE_DEVICES / GPU_PORTION it
    would have started with anyway *)
Definition others_keep_env (ty : ctype) (i : nat) (cap : string) (p m : gpod) (before after : cmstore) : bool :=
  forallb (fun x => match x with (t, j, c) =>
     if (ctype_eqb t ty && Nat.eqb j i) || references c cap || references c (evar_name cap) then true
     else match nth_error (conts t m) j with
          | Some c' => envval_eqb (eff_env after c' nvidia_visible_devices) (eff_env before c nvidia_visible_devices)
                       && envval_eqb (eff_env after c' gpu_portion_env) (eff_env before c gpu_portion_env)
          | None => false
          end
     end) (all_conts p).

Definition rounds_materialise (ty : ctype) (i : nat) (c' : container) (cap : string) (p m : gpod)
           (before : cmstore) (rs : list round) : bool :=
  forallb (fun r =>
      r_ok r
      (* the selected container starts with exactly the granted devices and the granted portion *)
      && starts_with (r_maps r) c' (visible_devices (r_cdi r) (r_ids r)) (r_portion r)
      && others_keep_env ty i cap p m before (r_maps r)) rs.

Definition selection_ok (k : case) : bool :=
  if admitted_sharing k then
    match k_bind k with
    | Some b =>
        match b_ref b with
        | Some (ty, i, name) =>
            match nth_error (conts ty (k_pod k)) i, nth_error (conts ty (k_mut k)) i, a_cm (k_mut k) with
            | Some c, Some c', Some prefix =>
                (* the container the pod asked for, and the same one in the admitted pod *)
                String.eqb (c_name c) name && String.eqb (c_name c') name
                && (match a_cname (k_pod k) with
                    | Some n => String.eqb n name
                    | None => ctype_eqb ty RegularC && Nat.eqb i 0
                    end)
                (* the admitted pod's selected container carries the env / envFrom / volume entries *)
                && carries_refs idx_str (k_mut k) ty i c'
                (* the binder materialises the grant in it, and in no container that was not wired to these maps *)
                && nonempty (b_rounds b)
                && rounds_materialise ty i c' (cap_name idx_str prefix ty i) (k_pod k) (k_mut k) (b_pre b) (b_rounds b)
            | _, _, _ => false
            end
        | None => false
        end
    | None => false
    end
  else true.

(** ** the number of devices, on the real outputs only: the binder reads the device count the scheduler interpreted; binding
    leaves one GPU-group label per selected group; the groups the scheduler re-reads from the bound pod are the selected ones *)
Definition labels_ok (l : label_obs) : bool :=
  l_ok l
  && Nat.eqb (List.length (l_labels l)) (List.length (l_groups l))
  && strs_same (l_reread l) (l_groups l).
Definition devices_ok (k : case) : bool :=
  if admitted_sharing k then
    match k_bind k with
    | Some b =>
        ndev_eqb (b_ndev b) (NdOk (g_count (k_req k)))
        && (b_sched_devices b =? g_count (k_req k))
        && obool_eqb (b_multi b) (Some (1 <? g_count (k_req k)))
        && forallb (fun r => labels_ok (r_lab r)) (b_rounds b)
    | None => false
    end
  else true.

Definition monitor_ok (k : case) : bool :=
  let pf := fun _ : string => k_pf k in
  let p := k_pod k in
  (* accepted => finite positive quantities *)
  (if accepted k then wellformed_sharing pf p else true)
  (* accepted => the scheduler reads exactly the denoted request *)
  && (if accepted k && normalised p then greq_eqb (k_req k) (denoted pf p) else true)
  (* whatever the scheduler types as GPU sharing is rejected when malformed or when sharing is disabled *)
  && (if is_sharing (k_req k) && (negb (k_enabled k) || negb (wellformed_sharing pf p))
      then negb (accepted k) else true)
  (* mutation is idempotent *)
  && k_idem k
  (* what admission lets through, the binder's validation accepts *)
  && (if admitted k then k_bvalid k else true)
  (* per-container selection: selected, wired and materialised identically *)
  && selection_ok k
  (* number of devices: read by the binder as interpreted by the scheduler, one label per selected group, read back *)
  && devices_ok k.

(** ** the portion the selected container is told is the portion the scheduler interpreted and booked.
    For a fraction request that is the request's own fraction (bit for bit what NewTaskInfo read); for a gpu-memory
    request the node-specific portion AddTask computed.  The parse and the comparison are done by the harness
    (strconv.ParseFloat, ==) on the values the container starts with. *)
Definition fraction_request (k : case) : bool :=
  isSome (a_fraction (k_pod k)) && negb (isSome (a_memory (k_pod k))).
Definition rounds_of (k : case) : list round :=
  match k_bind k with Some b => b_rounds b | None => [] end.
Definition portion_exact (k : case) : bool :=
  if admitted_sharing k then
    forallb (fun r => r_exact r
                      && (if fraction_request k then (r_accepted r =? g_portion (k_req k))%N else true))
            (rounds_of k)
  else true.
(** every told portion is at least the nearest hundredth of the booked one, and the booked one is the request's *)
Definition portion_close (k : case) : bool :=
  if admitted_sharing k then
    forallb (fun r => r_close r
                      && (if fraction_request k then (r_accepted r =? g_portion (k_req k))%N else true))
            (rounds_of k)
  else true.

(** Behaviour of the code as it is that [portion_exact] does not accept; reported by [run_flags], left out of
    [monitor_ok]:
    1: everything else holds (in particular the container starts with exactly the BindRequest's portion string), but
       that string is the booked portion rounded to two decimals (createBindRequest renders it with "%.2f"), so a
       fraction with more than two decimals reaches the container as another number (0.125 -> 0.12, 0.001 -> 0.00,
       0.999 -> 1.00);
    2: the told portion is off by more than a rounding to hundredths (not a listed finding). *)
Definition flags_of (k : case) : list nat :=
  if monitor_ok k && negb (portion_exact k) then (if portion_close k then [1%nat] else [2%nat]) else [].

Definition mem_nat (n : nat) (l : list nat) : bool := existsb (Nat.eqb n) l.
(** every flag is reported for the first case of the shard that shows it *)
Fixpoint first_flags (seen : list nat) (cs : list (nat * case)) : list (nat * list nat) :=
  match cs with
  | [] => []
  | (i, k) :: r =>
      let fresh := filter (fun f => negb (mem_nat f seen)) (flags_of k) in
      match fresh with
      | [] => first_flags seen r
      | _ => (i, fresh) :: first_flags (fresh ++ seen) r
      end
  end.
Definition run_flags (cs : list (nat * case)) : list (nat * list nat) := first_flags [] cs.

Definition run_mismatches (cs : list (nat * case)) : list nat := failing (fun k => negb (model_agrees k)) cs.
Definition run_monitor (cs : list (nat * case)) : list nat := failing (fun k => negb (monitor_ok k)) cs.
