(** Correspondence + monitor entry points for C19 (used by generated cases). *)
From KaiV Require Export Run.Prelude Model.Strconv Model.GpuRequest Model.GpuRequestSpec.
Open Scope Z_scope.

Definition dig (n : nat) : string := String (ascii_of_nat (48 + n)) EmptyString.
Fixpoint itoa_fuel (fuel n : nat) : string :=
  match fuel with
  | O => dig (n mod 10)
  | S f => if Nat.ltb n 10 then dig n else (itoa_fuel f (n / 10) ++ dig (n mod 10))%string
  end.
Definition itoa (n : nat) : string := itoa_fuel 20 n.
Definition idx_str (t : ctype) (i : nat) : string :=
  match t with RegularC => itoa i | InitC => ("i" ++ itoa i)%string end.

Record case := {
  k_enabled : bool;
  k_pod : gpod;
  k_pf : pfres;          (* ParseFloat(annotation gpu-fraction, or "" when absent) as Go returned it *)
  k_valid : bool;        (* observed: Validate returned nil *)
  k_req : greq;          (* observed: NewTaskInfo's request type / devices / portion / memory *)
  k_mut : gpod;          (* observed: pod after Mutate, projected *)
  k_idem : bool;         (* observed: a second Mutate left the pod deeply equal *)
  k_hooks : list bool;   (* observed: the webhook's entry points accept: ValidateCreate; ValidateUpdate from an
                            admitted pod with a valid request and from one without request, spec unchanged *)
}.

Definition str_opt_eqb (a b : option string) : bool :=
  match a, b with
  | Some x, Some y => String.eqb x y
  | None, None => true
  | _, _ => false
  end.
Definition z_opt_eqb (a b : option Z) : bool :=
  match a, b with
  | Some x, Some y => x =? y
  | None, None => true
  | _, _ => false
  end.
Fixpoint list_eqb {A} (e : A -> A -> bool) (a b : list A) : bool :=
  match a, b with
  | [], [] => true
  | x :: r, y :: s => e x y && list_eqb e r s
  | _, _ => false
  end.
Definition pair_eqb (a b : string * string) : bool :=
  String.eqb (fst a) (fst b) && String.eqb (snd a) (snd b).
Definition container_eqb (a b : container) : bool :=
  String.eqb (c_name a) (c_name b) && z_opt_eqb (c_gpu_req a) (c_gpu_req b)
  && z_opt_eqb (c_gpu_lim a) (c_gpu_lim b) && list_eqb pair_eqb (c_env a) (c_env b)
  && list_eqb String.eqb (c_envfrom a) (c_envfrom b).
Definition gpod_eqb (a b : gpod) : bool :=
  str_opt_eqb (a_fraction a) (a_fraction b) && str_opt_eqb (a_memory a) (a_memory b)
  && str_opt_eqb (a_numdev a) (a_numdev b) && str_opt_eqb (a_mps a) (a_mps b)
  && str_opt_eqb (a_cname a) (a_cname b) && str_opt_eqb (a_cm a) (a_cm b)
  && list_eqb container_eqb (containers a) (containers b)
  && list_eqb container_eqb (inits a) (inits b)
  && list_eqb pair_eqb (volumes a) (volumes b).

(** the prefix Go generated when none was present: read back from the observed pod *)
Definition fresh_of (k : case) : string := oget (a_cm (k_mut k)).

Definition model_agrees (k : case) : bool :=
  let pf := fun _ : string => k_pf k in
  Bool.eqb (admission_validate (k_enabled k) pf (k_pod k)) (k_valid k)
  (* creation and every update are decided by the same validation *)
  && forallb (Bool.eqb (k_valid k)) (k_hooks k)
  && greq_eqb (scheduler_interpret pf (k_pod k)) (k_req k)
  && gpod_eqb (mutate idx_str (fresh_of k) (k_pod k)) (k_mut k).

(** The property itself, evaluated on what the real code returned. *)
(** the pod gets past admission: on creation or by an update of an admitted pod *)
Definition accepted (k : case) : bool := k_valid k || existsb (fun b => b) (k_hooks k).

Definition monitor_ok (k : case) : bool :=
  let pf := fun _ : string => k_pf k in
  let p := k_pod k in
  (* accepted => finite positive quantities *)
  (if accepted k then wellformed_sharing pf p else true)
  (* accepted => the scheduler reads exactly the denoted request *)
  && (if accepted k && normalised p then greq_eqb (k_req k) (denoted pf p) else true)
  (* whatever the scheduler types as GPU sharing is rejected when malformed or when sharing is disabled *)
  && (if is_sharing (k_req k) && (negb (k_enabled k) || negb (wellformed_sharing pf p))
      then negb (accepted k) else true)
  (* mutation is idempotent *)
  && k_idem k.

Definition run_mismatches (cs : list (nat * case)) : list nat := failing (fun k => negb (model_agrees k)) cs.
Definition run_monitor (cs : list (nat * case)) : list nat := failing (fun k => negb (monitor_ok k)) cs.
