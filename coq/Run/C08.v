(** Correspondence + monitor entry points for C08 (used by generated cases).

    A case is ONE session of the real scheduler: the snapshot it was opened on
    ([k_init]: every pod with the status the snapshot gave it), what the
    plugin reports right after session open, and the decisions taken in it:
    either driven by the harness through the session API (sequences), or taken
    by the REAL actions -- allocate, then preempt / reclaim / consolidation --
    and read off the Bind / TaskPipelined / Evict calls that reached the cache,
    in commit order (action stream: per Statement.Commit the [ORelease] of
    every Evict, then one [OAdmit] per job placed, the observation of the
    session taken at the commit attached to the last of them, and an
    [OCommitOk] with the session as each action leaves it).
    The sessions of a multi-cycle history are separate cases; the snapshot of a
    later cycle is what the harness derived from the end of the previous
    session (its label carries the whole history). *)
From KaiV Require Export Run.Prelude Model.Status Model.Capacity Model.CapacitySpec.
From Coq Require Export QArith.
Open Scope Q_scope.

Record otask := {
  ot_task : task;
  ot_nm : positive;               (* MemoryOfEveryGpuOnNode of the node it was tried on *)
  ot_gate : option verdict;       (* observed node-level verdict; None = not evaluated *)
  ot_charge : option rq;          (* observed QuantifyResourceRequirements(AcceptedResource) once allocated *)
  ot_tried : list (positive * verdict);
    (* action stream: the candidate nodes the allocation attempt that placed the task passed over before the node
       it went to ([ot_nm]), in the order they were tried: MemoryOfEveryGpuOnNode of the candidate and the verdict
       the LIVE session's node-level gate gave there (Session.IsTaskAllocationOnNodeOverCapacityFns[0], wrapped) *)
}.

Inductive adm := AdmYes | AdmNo | AdmPanic.

Inductive ostep :=
| OProbe (jq : positive) (pre : bool) (ts : list otask) (vjob vnp : verdict)
    (* all three exported gates evaluated in the current state, nothing charged *)
| OAdmit (po bnd : bool) (jq : positive) (pre : bool) (ts : list otask) (vjob : verdict) (a : adm)
    (* one AllocateJob of the real code. [po]: its isPipelineOnly argument (false: the allocate action, and
       the sequences in which the harness plays AllocateJob through Statement.Allocate; true: the scenario
       solvers of preempt / reclaim / consolidation). [bnd]: some task of it reached the cache as a Bind
       (rather than a TaskPipelined) call. [vjob]: the real job-level gate on the usage right before it.
       [a] = AdmYes: the real code placed the tasks [ts] (action stream: they reached the cache). *)
| ORelease (tid : positive)
| OCommitOk                       (* Statement.Commit of the preceding admitted job, every Cache.Bind succeeded *)
| OBindFail (tid : positive).     (* Statement.Commit of the preceding admitted job, Cache.Bind failed for tid *)

(** Allocated as seen through Session.QueueAllocatedResources (GPUs pass through
    NewResourceRequirements, which truncates quantities >= 1 to whole GPUs) *)
Record oqueue := { oq_id : positive; oq_alloc : rq }.

(** what is observed after a step: the plugin's counters, and -- independently
    of the plugin -- the tasks that really hold resources: the pods of the
    session's jobs (as the job's pod map has them after the step) whose status
    is Allocated, Pipelined, Binding, Bound or Running *)
Record obs := { ob_queues : list oqueue; ob_holders : list positive }.

(** one pod of the snapshot the session was opened on: queue and preemptibility
    of its job, the status the snapshot gave it (pod_info.NewTaskInfoWithBindRequest
    -> getTaskStatus on the pod's phase / deletionTimestamp / nodeName / BindRequest
    / scheduling gates; Allocated is set by hand), and in [ot_charge] of its task
    QuantifyResourceRequirements(AcceptedResource) as the snapshot left it (the
    node's AddTasksToNode sets it for the pods it accounts; empty otherwise) *)
Record ipod := { ip_queue : positive; ip_preempt : bool; ip_status : status;
                 ip_on_node : bool;   (* it names a node (spec.nodeName or the BindRequest's SelectedNode) *)
                 ip_task : otask }.

Record case := {
  k_queues : list queue;
  k_min_mem : positive;                       (* ClusterInfo.MinNodeGPUMemory *)
  k_init : list ipod;                         (* every pod of every job of the snapshot that is not decided on in k_steps *)
  k_init_obs : option obs;
  k_init_fair : option (list oqueue);         (* Session.QueueFairShare of the root queues right after session open
                                                 (the only exported view on Request); None when some float64 term of it is inexact *)
  k_steps : list (ostep * option obs);
}.

(** ** helpers *)
Definition verdict_eqb (a b : verdict) : bool :=
  match a, b with
  | Schedulable, Schedulable => true
  | OverLimit x, OverLimit y => Pos.eqb x y
  | NonPreemptibleOverQuota x, NonPreemptibleOverQuota y => Pos.eqb x y
  | _, _ => false
  end.
Definition rq_eqb (a b : rq) : bool := forallb (fun r => Qeq_bool (rget a r) (rget b r)) all_resources.
Definition res_is {A} (e : A -> A -> bool) (r : result A) (x : A) : bool :=
  match r with Done y => e y x | _ => false end.

Definition proj_gpu (g : Q) : Q := let a := with_gpus g in ext_gpus (g_portion a) (g_count a).
Definition proj (x : rq) : rq := {| r_cpu := r_cpu x; r_mem := r_mem x; r_gpu := proj_gpu (r_gpu x) |}.

Definition queues_agree (alloc_of : positive -> option rq) (l : list oqueue) : bool :=
  forallb (fun oq => match alloc_of (oq_id oq) with
                     | Some a => rq_eqb (proj a) (oq_alloc oq)
                     | None => false
                     end) l.

Definition obs_agree (alloc_of : positive -> option rq) (o : option obs) : bool :=
  match o with
  | None => true
  | Some ob => queues_agree alloc_of (ob_queues ob)
  end.

(** the model's ledger and the pods that really hold resources are the same set of tasks *)
Definition holders_agree (led : list entry) (o : option obs) : bool :=
  match o with
  | None => true
  | Some ob => let ids := map e_task led in
               forallb (fun i => mem i (ob_holders ob)) ids && forallb (fun i => mem i ids) (ob_holders ob)
  end.

Definition model_alloc (qs : list queue) (id : positive) : option rq :=
  option_map q_alloc (find_queue qs id).

(** ** the model run against the observations *)

Definition tasks_of (ts : list otask) : list (task * positive) := map (fun o => (ot_task o, ot_nm o)) ts.

(** the outcome the observations describe *)
Fixpoint observed_outcome (ts : list otask) : option verdict :=   (* first refusing node gate *)
  match ts with
  | [] => None
  | o :: r => match ot_gate o with
              | Some Schedulable => observed_outcome r
              | Some v => Some v
              | None => None
              end
  end.

Definition charges_agree (es : list entry) (ts : list otask) : bool :=
  (List.length es =? List.length ts)%nat &&
  forallb (fun p => match ot_charge (snd p) with
                    | Some c => rq_eqb (e_charge (fst p)) c
                    | None => false
                    end) (combine es ts).

(** a Bind call needs a mode in which some task can be recorded as an allocation *)
Definition placement_allowed (po bnd : bool) : bool :=
  negb bnd || existsb (fun idle => match op_of po idle with OpAllocate => true | OpPipeline => false end) [true; false].

(** the attempt the observations describe: the candidates passed over (the oracle said no, or the gate did),
    then the node the task went to (the oracle said yes) *)
Definition cands_of (o : otask) : list cnode :=
  map (fun mv => {| cn_id := 1; cn_mem := fst mv; cn_rest := false |}) (ot_tried o)
  ++ [{| cn_id := 2; cn_mem := ot_nm o; cn_rest := true |}].
Definition ajob_of (jq : positive) (pre : bool) (ts : list otask) : ajob :=
  {| aj_queue := jq; aj_preempt := pre; aj_tasks := map (fun o => (ot_task o, cands_of o)) ts |}.

Definition list_eqb {A B} (e : A -> B -> bool) (l : list A) (l' : list B) : bool :=
  (List.length l =? List.length l')%nat && forallb (fun p => e (fst p) (snd p)) (combine l l').
Definition entry_eqb (a b : entry) : bool :=
  Pos.eqb (e_task a) (e_task b) && Pos.eqb (e_queue a) (e_queue b) && Bool.eqb (e_preempt a) (e_preempt b)
  && rq_eqb (e_charge a) (e_charge b).
Definition queue_eqb (a b : queue) : bool :=
  Pos.eqb (q_id a) (q_id b) && Pos.eqb (q_parent a) (q_parent b) && rq_eqb (q_alloc a) (q_alloc b) && rq_eqb (q_np a) (q_np b).

Definition attempt_agrees (fuel : nat) (qs : list queue) (jq : positive) (pre : bool) (ts : list otask)
           (qs' : list queue) (es : list entry) : bool :=
  match attempt_job fuel qs (ajob_of jq pre ts) with
  | Done (APlaced qs1 es1 wh trace) =>
      list_eqb queue_eqb qs1 qs' && list_eqb entry_eqb es1 es
      && list_eqb (fun (tc : task * cnode) (o : otask) => Pos.eqb (cn_id (snd tc)) 2 && Pos.eqb (cn_mem (snd tc)) (ot_nm o)) wh ts
      && list_eqb (fun (vs : list verdict) (o : otask) =>
                     list_eqb verdict_eqb vs (map snd (ot_tried o) ++ [Schedulable])) trace ts
  | _ => false
  end.

Definition agree_step (fuel : nat) (s : state) (x : ostep) : bool * option state :=
  match x with
  | OProbe jq pre ts vjob vnp =>
      let qs := s_queues s in
      let tl := map ot_task ts in
      (res_is verdict_eqb (is_job_over_queue_capacity fuel qs jq pre tl) vjob
       && res_is verdict_eqb (is_non_preemptible_job_over_quota fuel qs jq pre tl) vnp
       && forallb (fun o => match ot_gate o with
                            | Some v => res_is verdict_eqb
                                          (is_task_allocation_on_node_over_capacity fuel qs jq pre (ot_task o) (ot_nm o)) v
                            | None => false
                            end) ts, Some s)
  | OAdmit po bnd jq pre ts vjob a =>
      let j := {| j_queue := jq; j_preempt := pre; j_tasks := tasks_of ts |} in
      (* AllocateJob in the mode the real code ran it in: the job-level gate is demanded of the solver
         actions, too -- a job the real code placed although the model's AllocateJob refuses it (whatever
         the observed verdict says) falls into the last branch: a mismatch *)
      match allocate_job po fuel (s_queues s) j, a with
      | Done (Accepted qs es), AdmYes =>
          (verdict_eqb vjob Schedulable && forallb (fun o => match ot_gate o with Some Schedulable => true | _ => false end) ts
           && charges_agree (rev es) ts && placement_allowed po bnd
           (* the same decision with the node search spelled out: per task the candidates the real attempt
              passed over, then the node it chose; the model's attempt (node-level gate evaluated for EVERY
              candidate, with that candidate's GPU memory) must pass over the same candidates with the same
              verdicts, choose the same node and end in the same queues *)
           && attempt_agrees fuel (s_queues s) jq pre ts qs es,
           Some {| s_queues := qs; s_ledger := es ++ s_ledger s |})
      | Done (Refused v), AdmNo =>
          ((if verdict_eqb vjob Schedulable
            then match observed_outcome ts with Some v' => verdict_eqb v v' | None => false end
            else verdict_eqb v vjob), Some s)
      | Panic, AdmPanic => (true, None)
      | _, _ => (false, None)
      end
  | ORelease tid =>
      match do_step fuel s (Release tid) with
      | Done s' => (true, Some s')
      | _ => (false, None)
      end
  | OCommitOk =>
      match do_event fuel s CommitOk with
      | Done s' => (true, Some s')
      | _ => (false, None)
      end
  | OBindFail tid =>
      (* the failing task must be one the model has charged; then the model's BindFail event *)
      match do_event fuel s (BindFail tid) with
      | Done s' => (mem tid (map e_task (s_ledger s)), Some s')
      | _ => (false, None)
      end
  end.

Fixpoint agree_steps (fuel : nat) (s : state) (xs : list (ostep * option obs)) : bool :=
  match xs with
  | [] => true
  | (x, o) :: r =>
      match agree_step fuel s x with
      | (ok, Some s') => ok && obs_agree (model_alloc (s_queues s')) o && holders_agree (s_ledger s') o
                         && agree_steps fuel s' r
      | (ok, None) => ok && match r with [] => true | _ => false end
      end
  end.

(** the snapshot: updateQueuesCurrentResourceUsage ([load_init], [load_requests]
    of Model/Capacity.v) over the pods of the snapshot, in whatever status they are.
    AcceptedResource of a snapshot pod: NodeInfo.setAcceptedResources fills it
    for the pods in an active-used status (which are exactly the ones
    AddTasksToNode puts on the node they name); it stays empty for the others. *)
Definition accepted_at_open (st : status) (on_node : bool) (nm : positive) (t : task) : rq :=
  if on_node && active_used st then charge nm t else rq_zero.

Definition spod_of (min_mem : positive) (p : ipod) : option spod :=
  let o := ip_task p in
  let c := accepted_at_open (ip_status p) (ip_on_node p) (ot_nm o) (ot_task o) in
  match ot_charge o with
  | Some oc =>
      if rq_eqb c oc
      then Some {| sp_task := t_id (ot_task o); sp_queue := ip_queue p; sp_preempt := ip_preempt p;
                   sp_status := ip_status p; sp_accepted := c; sp_request := pending_request min_mem (ot_task o) |}
      else None
  | None => None
  end.

Fixpoint spods_of (min_mem : positive) (l : list ipod) : option (list spod) :=
  match l with
  | [] => Some []
  | p :: r => match spod_of min_mem p, spods_of min_mem r with
              | Some x, Some xs => Some (x :: xs)
              | _, _ => None
              end
  end.

(** the pods the steps decide on are Pending pods of the same snapshot: they count in Request *)
Definition step_pods (min_mem : positive) (xs : list (ostep * option obs)) : list spod :=
  flat_map (fun xo => match fst xo with
                      | OProbe jq pre ts _ _ | OAdmit _ _ jq pre ts _ _ =>
                          map (fun o => {| sp_task := t_id (ot_task o); sp_queue := jq; sp_preempt := pre; sp_status := Pending;
                                           sp_accepted := rq_zero; sp_request := pending_request min_mem (ot_task o) |}) ts
                      | _ => []
                      end) xs.

(** Request is exported only through the fair share computed from it at
    session open. For a ROOT queue on a cluster whose total exceeds everything
    requested (the harness's nodes), resource_division gives exactly
    GetRequestableShare(): Request, capped by MaxAllowed unless that is -1. *)
Definition capq (lim x : Q) : Q := if Qeq_bool lim unlimited then x else if Qle_bool lim x then lim else x.
Definition model_fair (qs : list queue) (m : reqmap) (id : positive) : option rq :=
  match find_queue qs id with
  | Some q => let x := req_get m id in
              Some {| r_cpu := capq (r_cpu (q_limit q)) (r_cpu x); r_mem := capq (r_mem (q_limit q)) (r_mem x);
                      r_gpu := capq (r_gpu (q_limit q)) (r_gpu x) |}
  | None => None
  end.

Definition fair_agrees (k : case) (ps : list spod) : bool :=
  match k_init_fair k with
  | None => true
  | Some l =>
      match load_requests (default_fuel (k_queues k)) (k_queues k) [] (ps ++ step_pods (k_min_mem k) (k_steps k)) with
      | Done m => queues_agree (model_fair (k_queues k) m) l
      | _ => false
      end
  end.

Definition model_agrees (k : case) : bool :=
  let fuel := default_fuel (k_queues k) in
  match spods_of (k_min_mem k) (k_init k) with
  | Some ps =>
      match load_init fuel {| s_queues := k_queues k; s_ledger := [] |} ps with
      | Done s => obs_agree (model_alloc (s_queues s)) (k_init_obs k) && holders_agree (s_ledger s) (k_init_obs k)
                  && fair_agrees k ps
                  && agree_steps fuel s (k_steps k)
      | _ => false
      end
  | None => false
  end.

(** ** the property itself on the observed verdicts, charges and pod statuses

    Ground truth is rebuilt from the real pods: a task counts from the moment
    the real gates let it through, with the charge the real code applied
    (AcceptedResource), for as long as its pod really holds resources
    ([ob_holders]: status Allocated / Pipelined / Binding / Bound / Running in
    the session after the step). Neither the model's gates and handlers nor
    the plugin's counters are consulted for it; the plugin's counters are then
    compared with it. *)

Definition obs_entry (jq : positive) (pre : bool) (o : otask) : option entry :=
  match ot_charge o with
  | Some c => Some {| e_task := t_id (ot_task o); e_queue := jq; e_preempt := pre; e_charge := c |}
  | None => None
  end.

Fixpoint obs_entries (jq : positive) (pre : bool) (ts : list otask) : option (list entry) :=
  match ts with
  | [] => Some []
  | o :: r => match obs_entry jq pre o, obs_entries jq pre r with
              | Some e, Some l => Some (e :: l)
              | _, _ => None
              end
  end.

(** what a gpu-memory pod takes on the node it was placed on, said without the code's AcceptedResource:
    on each of its devices the share ceil(100 * gpuMemory / MemoryOfEveryGpuOnNode) / 100 of THAT node's GPUs.
    The charge observed on the pod (which the truth below is summed from) must be that. *)
Definition memory_share_ok (o : otask) : bool :=
  let t := ot_task o in
  match t_type t, ot_charge o with
  | GpuMemory, Some c =>
      negb (0 <? g_memory (t_gpu t))%Z
      || Qeq_bool (r_gpu c) (inject_Z (g_count (t_gpu t)) * frac_on_node (ot_nm o) (g_memory (t_gpu t)))
  | _, _ => true
  end.

(** every queue, every resource, both counters: a raise ends within the cap *)
Definition raise_within_b (qs : list queue) (led led' : list entry) : bool :=
  forallb (fun q => forallb (fun r =>
    forallb (fun np_only : bool =>
      let cap := rget (limit_of np_only q) r in
      let before := charged np_only qs led (q_id q) r in
      let after := charged np_only qs led' (q_id q) r in
      Qeq_bool cap unlimited || negb (Qltb before after) || Qle_bool after cap) [false; true])
    all_resources) qs.

(** the counters the real plugin reports equal the sum over the charged tasks *)
Definition counters_obs_ok (qs : list queue) (base : positive -> option rq) (led : list entry) (o : option obs) : bool :=
  obs_agree (fun id => match base id with
                       | Some b => Some {| r_cpu := Qred (r_cpu b + charged false qs led id CPU);
                                           r_mem := Qred (r_mem b + charged false qs led id MEM);
                                           r_gpu := Qred (r_gpu b + charged false qs led id GPU) |}
                       | None => None
                       end) o.

(** the truth after a step: of the tasks that were let through so far
    ([cands], with their charges) those whose pods still hold resources. A pod
    holding resources that no gate ever let through has no business there. *)
Definition settle (cands : list entry) (holders : list positive) : option (list entry) :=
  if forallb (fun i => mem i (map e_task cands)) holders
  then Some (filter (fun e => mem (e_task e) holders) cands)
  else None.

(** one observed step: [cands] = truth before plus what this step let through *)
Definition monitor_obs (qs : list queue) (led cands : list entry) (o : option obs) : option (list entry) :=
  match o with
  | None => Some cands
  | Some ob =>
      match settle cands (ob_holders ob) with
      | Some led' =>
          if raise_within_b qs led led' && counters_obs_ok qs (model_alloc qs) led' o then Some led' else None
      | None => None
      end
  end.

Fixpoint monitor_steps (qs : list queue) (led : list entry) (xs : list (ostep * option obs)) : bool :=
  match xs with
  | [] => true
  | (OProbe _ _ _ _ _, _) :: r => monitor_steps qs led r
  | (OAdmit _ _ jq pre ts vjob a, o) :: r =>
      (* the property does not depend on the mode: bound and nominated count alike *)
      match a with
      | AdmYes =>
          match obs_entries jq pre ts with
          | Some es =>
              verdict_eqb vjob Schedulable && forallb memory_share_ok ts &&
              match monitor_obs qs led (es ++ led) o with
              | Some led' => monitor_steps qs led' r
              | None => false
              end
          | None => false
          end
      | AdmNo => match monitor_obs qs led led o with
                 | Some led' => monitor_steps qs led' r
                 | None => false
                 end
      | AdmPanic => true
      end
  | (ORelease tid, None) :: r =>
      (* an Evict that reached the cache, the pods not observed in between (action stream: the
         evictions and placements of one Statement.Commit): the evicted pod no longer counts *)
      monitor_steps qs (filter (fun e => negb (Pos.eqb (e_task e) tid)) led) r
  | (ORelease _, o) :: r | (OCommitOk, o) :: r | (OBindFail _, o) :: r =>
      (* nothing is let through by these steps: whatever the pods say afterwards
         must be within what was held before, must not raise any queue above a
         cap, and must be what the plugin's counters say *)
      match monitor_obs qs led led o with
      | Some led' => monitor_steps qs led' r
      | None => false
      end
  end.

(** the truth a cycle starts from: the pods of the snapshot that hold resources
    or are about to -- status Allocated, Binding (bind request in flight), Bound
    or Running, i.e. the [allocated_status] class -- each with the
    AcceptedResource observed on it.  Nothing of the plugin is consulted. *)
Fixpoint init_entries (l : list ipod) : option (list entry) :=
  match l with
  | [] => Some []
  | p :: r =>
      match init_entries r with
      | Some es =>
          if allocated_status (ip_status p)
          then match obs_entry (ip_queue p) (ip_preempt p) (ip_task p) with
               | Some e => Some (e :: es)
               | None => None
               end
          else Some es
      | None => None
      end
  end.

Definition monitor_ok (k : case) : bool :=
  match init_entries (k_init k) with
  | Some led =>
      (* the caps are only meaningful on a forest; the generator never emits a cycle *)
      wf_forest (k_queues k)
      (* the pods Go's own IsActiveAllocatedStatus finds in the opened session are exactly those *)
      && holders_agree led (k_init_obs k)
      (* what the plugin seeded at session open is that truth, at every level *)
      && counters_obs_ok (k_queues k) (model_alloc (k_queues k)) led (k_init_obs k)
      && monitor_steps (k_queues k) led (k_steps k)
  | None => false
  end.

Definition run_mismatches (cs : list (nat * case)) : list nat := failing (fun k => negb (model_agrees k)) cs.
Definition run_monitor (cs : list (nat * case)) : list nat := failing (fun k => negb (monitor_ok k)) cs.
