(** One scheduling cycle of the real scheduler as seen from outside: the
    snapshot it started from, the Cache calls it made (Bind / Evict /
    TaskPipelined, in order) and the node books it ended with.  Shared by the
    cycle-level checks (C01, C02, C03, ...):
    - [replay]: the calls are replayed through the node model (Model/Node.v);
      every call must be admissible (its guard holds in the model state it is
      applied to) and the final model nodes must equal the real final nodes
      (refinement: every real run is an admissible run of the model);
    - the property monitors look only at snapshot + calls. *)
From KaiV Require Export Run.NodeObs.
Open Scope Z_scope.

Record tinfo := mkTI { ti_task : task; ti_pset : positive; ti_node : option positive }.
Record jinfo := mkJ {
  j_id : positive; j_queue : positive; j_prio : Z; j_preempt : bool; j_created : Z;
  j_psets : list (positive * Z);      (* pod set, minAvailable *)
}.
Inductive call :=
| CBind (p n : positive) (gs : list positive)
| CEvict (p : positive) (action : nat) (* 1 reclaim, 2 preempt, 3 consolidation, 0 other *) (preemptor : option positive)
| CPipe (p n : positive) (gs : list positive).

Record ccase := mkCC {
  c_nodes : amap node;               (* model image of every real node at session start *)
  c_tasks : list tinfo;              (* every pod of every job, with its initial status *)
  c_jobs : list jinfo;
  c_calls : list call;
  c_final : amap obs;                (* real node books after all actions *)
}.

Definition find_ti (ts : list tinfo) (p : positive) : option tinfo :=
  find (fun ti => Pos.eqb (t_id (ti_task ti)) p) ts.

Definition with_status (t : task) (s : status) (gs : list positive) : task :=
  mkTask (t_id t) (t_job t) s (t_kind t) (t_req t) (t_ndev t) (t_gmem t) gs (t_resv t) (t_besteffort t).

Fixpoint nodup_posb (l : list positive) : bool :=
  match l with
  | [] => true
  | x :: r => negb (existsb (Pos.eqb x) r) && nodup_posb r
  end.

Definition group_known (n : node) (g : positive) : bool := amem g (g_used n) || amem g (g_alloc n).

(** admissibility of a Bind decision in the model state *)
(** A group counts as backed by a device in use when a bound, running or
    terminating pod holds memory on it ([g_alloc]); a group that so far only
    carries nominations (or nothing) needs an idle device.  (The code's own test,
    EnoughIdleResourcesOnGpu, looks for the group's key in
    AllocatedSharedGPUsMemory; keys are never deleted, so a group whose first
    member was allocated and then turned into a nomination by
    ConvertAllAllocatedToPipelined keeps a zero-valued key and later pods are
    bound into it.  That is sound exactly when an idle device is still there,
    which is what this guard asks.) *)
Definition bind_guard (n : node) (t : task) (gs : list positive) : bool :=
  if is_shared t then
    let newg := filter (fun g => zget g (g_alloc n) =? 0) gs in
    let oldg := filter (fun g => negb (zget g (g_alloc n) =? 0)) gs in
    nodup_posb gs && (Z.of_nat (List.length gs) =? t_ndev t)
    && base_le (t_req t) (n_idle n)
    && forallb (enough_idle_on_gpu n (t_gmem t)) oldg
    && (Z.of_nat (List.length newg) <=? gpu (n_idle n))
  else is_task_allocatable n t.

Definition pipe_guard (n : node) (t : task) (gs : list positive) : bool :=
  if is_shared t then
    let newg := filter (fun g => zget g (g_used n) =? 0) gs in
    let oldg := filter (fun g => negb (zget g (g_used n) =? 0)) gs in
    nodup_posb gs && (Z.of_nat (List.length gs) =? t_ndev t)
    && base_le (t_req t) (radd (n_idle n) (n_rel n))
    && forallb (fits_gpu_group n (t_gmem t)) oldg
    && (Z.of_nat (List.length newg) <=? gpu (n_idle n) + gpu (n_rel n))
  else is_task_allocatable_on_releasing_or_idle n t.

(** where a pod currently sits, as the task object's NodeName says: the node of its
    latest nomination if it has one (after [evict; nominate elsewhere] the pod has a
    terminating copy on its old node and a nominated copy on the new one, and the task
    points at the new one: a later eviction of the same pod by another statement of the
    cycle hits the nomination), else the node holding it *)
Definition holds (p : positive) (pipelined : bool) (kn : positive * node) : bool :=
  match alookup p (n_pods (snd kn)) with
  | Some t => Bool.eqb (status_eqb (t_status t) Pipelined) pipelined
  | None => false
  end.
Definition holder (ns : amap node) (p : positive) : option positive :=
  match find (holds p true) ns with
  | Some kn => Some (fst kn)
  | None => match find (holds p false) ns with
            | Some kn => Some (fst kn)
            | None => None
            end
  end.

(** returns the new nodes and whether the call was admissible *)
Definition apply_call (ts : list tinfo) (ns : amap node) (c : call) : option (amap node * bool) :=
  match c with
  | CBind p nid gs =>
      match find_ti ts p, alookup nid ns with
      | Some ti, Some n =>
          let t := with_status (ti_task ti) Allocated gs in
          match add_task n t with
          | Ok n1 => Some (aset nid n1 ns, bind_guard n t gs)
          | Err => None
          end
      | _, _ => None
      end
  | CEvict p _ _ =>
      match holder ns p with
      | Some nid =>
          match alookup nid ns with
          | Some n =>
              match alookup p (n_pods n) with
              | Some t0 =>
                  match update_task n (with_status t0 Releasing (t_groups t0)) with
                  | Ok n1 => Some (aset nid n1 ns, active_used (t_status t0) && negb (status_eqb (t_status t0) Releasing))
                  | Err => None
                  end
              | None => None
              end
          | None => None
          end
      | None => None
      end
  | CPipe p nid gs =>
      match find_ti ts p, alookup nid ns with
      | Some ti, Some n =>
          let t := with_status (ti_task ti) Pipelined gs in
          match alookup p (n_pods n) with
          | Some t0 =>
              (* already on this node (it was evicted here): move in place *)
              let r := if is_shared t && negb (list_eqb Pos.eqb gs (t_groups t0))
                       then consolidate_to_different_gpu n t else update_task n t in
              match r with
              | Ok n1 => Some (aset nid n1 ns, true)
              | Err => None
              end
          | None =>
              (* a nomination is never refused by the replay: whether it stays within
                 idle + releasing of the node is only observed ([pipe_within]) *)
              match add_task n t with
              | Ok n1 => Some (aset nid n1 ns, true)
              | Err => None
              end
          end
      | _, _ => None
      end
  end.

(** Does a nomination stay within idle + releasing of its node in the state
    reached by the committed calls?  The properties do not demand it (a nominated
    pod holds nothing until it is bound in a later cycle) and the real actions
    occasionally exceed it: a pod that was nominated earlier in the cycle can be
    chosen as a victim by a later action; evicting it "releases" capacity that was
    never real, the preemptor is nominated onto it and the victim is then
    un-evicted back into its nomination (observation flag 100, see DESIGN.md). *)
Definition pipe_within (ts : list tinfo) (ns : amap node) (c : call) : bool :=
  match c with
  | CPipe p nid gs =>
      match find_ti ts p, alookup nid ns with
      | Some ti, Some n =>
          match alookup p (n_pods n) with
          | Some _ => true
          | None => pipe_guard n (with_status (ti_task ti) Pipelined gs) gs
          end
      | _, _ => true
      end
  | _ => true
  end.

(** replay all calls: (final nodes, all admissible) or None when a call is impossible in the model *)
Fixpoint replay (ts : list tinfo) (ns : amap node) (cs : list call) : option (amap node * bool) :=
  match cs with
  | [] => Some (ns, true)
  | c :: r =>
      match apply_call ts ns c with
      | Some (ns1, ok) => match replay ts ns1 r with
                          | Some (ns2, ok2) => Some (ns2, ok && ok2)
                          | None => None
                          end
      | None => None
      end
  end.

(** A node is exposed to the device-count guard quirk (known finding
    C14-device-guard, see Model/NodeSpec.v) when it hosts shared-GPU work and a
    nominated pod holding GPUs was placed on it during the cycle: discarded
    simulations may then have shifted its whole-GPU idle / releasing counts. *)
Definition node_exposed (k : ccase) (nid : positive) (n : node) : bool :=
  let ts := map snd (n_pods n) in
  existsb is_shared ts
  && (existsb (fun t => is_st Pipelined t && holds_gpu t) ts
      || existsb (fun c => match c with
                           | CPipe p n' _ => Pos.eqb n' nid
                           | _ => false
                           end) (c_calls k)).

Definition cycle_result (k : ccase) : bool * bool :=   (* (agrees, quirk manifested) *)
  match replay (c_tasks k) (c_nodes k) (c_calls k) with
  | Some (ns, ok) =>
      let strict := amap_eqb2 obs_matches_cycle ns (c_final k) in
      let loose := amap_eqb2 (fun n o => obs_matches_cycle_nogpu n o) ns (c_final k) in
      let excused := forallb (fun kn => match alookup (fst kn) (c_final k) with
                                        | Some o => obs_matches_cycle (snd kn) o || node_exposed k (fst kn) (snd kn)
                                        | None => false
                                        end) ns in
      (ok && (strict || (loose && excused)), ok && negb strict && loose && excused)
  | None => (false, false)
  end.
Definition cycle_agrees (k : ccase) : bool := fst (cycle_result k).
Fixpoint nominations_within (ts : list tinfo) (ns : amap node) (cs : list call) : bool :=
  match cs with
  | [] => true
  | c :: r => pipe_within ts ns c
              && match apply_call ts ns c with
                 | Some (ns1, _) => nominations_within ts ns1 r
                 | None => true
                 end
  end.
(** a pod is evicted, nominated elsewhere and evicted again by a later statement of the
    same cycle (two Cache.Evict calls for one pod; every single commit evicts it once) *)
Fixpoint evicted_again_go (seen : list positive) (cs : list call) : bool :=
  match cs with
  | [] => false
  | CEvict p _ _ :: r => existsb (Pos.eqb p) seen || evicted_again_go (p :: seen) r
  | _ :: r => evicted_again_go seen r
  end.
Definition evicted_again (cs : list call) : bool := evicted_again_go [] cs.
(** flag 1: the device-count guard quirk manifested (known finding C14-device-guard);
    flag 100 (an observation, never an alarm): some nomination of the cycle exceeds
    idle + releasing of its node in the committed state; flag 110 (an observation):
    a pod is evicted a second time in the cycle after having been nominated elsewhere *)
Definition cycle_flags (k : ccase) : list nat :=
  (if snd (cycle_result k) then [1%nat] else [])
  ++ (if nominations_within (c_tasks k) (c_nodes k) (c_calls k) then [] else [100%nat])
  ++ (if evicted_again (c_calls k) then [110%nat] else []).
Definition cycle_run_flags (cs : list (nat * ccase)) : list (nat * list nat) :=
  filter (fun p => negb (Nat.eqb (List.length (snd p)) 0)) (map (fun c => (fst c, cycle_flags (snd c))) cs).

(** * Snapshot-and-calls views used by the monitors *)

Definition bound_calls (k : ccase) : list (positive * positive * list positive) :=
  flat_map (fun c => match c with CBind p n gs => [(p, n, gs)] | _ => [] end) (c_calls k).
Definition piped_calls (k : ccase) : list (positive * positive * list positive) :=
  flat_map (fun c => match c with CPipe p n gs => [(p, n, gs)] | _ => [] end) (c_calls k).
Definition evicted (k : ccase) : list positive :=
  flat_map (fun c => match c with CEvict p _ _ => [p] | _ => [] end) (c_calls k).

(** pods occupying node [nid] in the snapshot: everything on it that is not merely nominated *)
Definition occupying (k : ccase) (nid : positive) : list task :=
  match alookup nid (c_nodes k) with
  | Some n => filter (fun t => negb (status_eqb (t_status t) Pipelined)) (map snd (n_pods n))
  | None => []
  end.
(** pods bound to [nid] in this cycle, as tasks with their bound groups *)
Definition bound_on (k : ccase) (nid : positive) : list task :=
  flat_map (fun b => let '(p, n, gs) := b in
              if Pos.eqb n nid then
                match find_ti (c_tasks k) p with
                | Some ti => [with_status (ti_task ti) Allocated gs]
                | None => []
                end
              else []) (bound_calls k).

(** ** C01: occupying + bound never exceeds allocatable (terminating and
    evicted-this-cycle pods still occupy: they are in the snapshot) *)
Definition c01_node_ok (k : ccase) (nid : positive) (n : node) : bool :=
  let demand := rsum (map charge (occupying k nid ++ bound_on k nid)) in
  (cpu demand <=? cpu (n_alloc n)) && (mem demand <=? mem (n_alloc n))
  && (gpu demand <=? gpu (n_alloc n)) && (pods demand <=? pods (n_alloc n))
  && (mig demand <=? mig (n_alloc n)) && (ext demand <=? ext (n_alloc n))
  (* whole GPUs: a device shared by fractional pods is not available to whole-GPU pods either *)
  && (let ts := occupying k nid ++ bound_on k nid in
      let gs := nodup_pos (all_groups ts) in
      gpu demand + Z.of_nat (List.length (filter (fun g => 0 <? spec_gused g ts) gs)) <=? n_ngpu n).
Definition c01_ok (k : ccase) : bool :=
  forallb (fun kn => c01_node_ok k (fst kn) (snd kn)) (c_nodes k)
  (* every bind names a known pod and node, at most once per pod *)
  && forallb (fun b => let '(p, n, _) := b in
                match find_ti (c_tasks k) p with Some _ => amem n (c_nodes k) | None => false end) (bound_calls k)
  && nodup_posb (map (fun b => fst (fst b)) (bound_calls k)).

(** ** C02: per shared device and per node *)
Definition c02_node_ok (k : ccase) (nid : positive) (n : node) : bool :=
  let ts := occupying k nid ++ bound_on k nid in
  let gs := nodup_pos (all_groups ts) in
  forallb (fun g => spec_gused g ts <=? n_gpumem n) gs
  && (gpu (rsum (map charge ts)) + Z.of_nat (List.length (filter (fun g => 0 <? spec_gused g ts) gs)) <=? n_ngpu n)
  && forallb (fun t => negb (is_shared t) || (nodup_posb (t_groups t) && (Z.of_nat (List.length (t_groups t)) =? t_ndev t)
                                              && (1 <=? t_ndev t)))
             (bound_on k nid).
Definition c02_ok (k : ccase) : bool := forallb (fun kn => c02_node_ok k (fst kn) (snd kn)) (c_nodes k).

(** ** C03: gang integrity per job and pod set *)
Definition in_pos (x : positive) (l : list positive) : bool := existsb (Pos.eqb x) l.
Definition job_tasks (k : ccase) (j : positive) : list tinfo :=
  filter (fun ti => Pos.eqb (t_job (ti_task ti)) j) (c_tasks k).
Definition count {A} (p : A -> bool) (l : list A) : Z := Z.of_nat (List.length (filter p l)).

Definition c03_job_ok (k : ccase) (j : jinfo) : bool :=
  let tis := job_tasks k (j_id j) in
  let bound := map (fun b => fst (fst b)) (bound_calls k) in
  let piped := map (fun b => fst (fst b)) (piped_calls k) in
  let ev := evicted k in
  let tid ti := t_id (ti_task ti) in
  let st ti := t_status (ti_task ti) in
  let active0 ti := active_allocated (st ti) in
  let pset_tis ps := filter (fun ti => Pos.eqb (ti_pset ti) ps) tis in
  (* (a) a pod set that received a bind reaches its minimum *)
  forallb (fun pm => let '(ps, minav) := pm in
             let l := pset_tis ps in
             (* a pod bound and then evicted again in the same cycle ends evicted - unless the same cycle
                re-places it (consolidation / consolidating reclaim): then it is moved, not lost, as in (c) *)
             let lost := filter (fun p => negb (in_pos p piped)) ev in
             let nb := count (fun ti => in_pos (tid ti) bound && negb (in_pos (tid ti) lost)) l in
             (nb =? 0) ||
             (minav <=? count (fun ti => active0 ti && negb (in_pos (tid ti) lost)) l + nb)) (j_psets j)
  (* (b) nothing is bound for a job one of whose pod sets is nominated below its minimum *)
  && (let has_bind := 0 <? count (fun ti => in_pos (tid ti) bound) tis in
      let partial := existsb (fun pm => let '(ps, minav) := pm in
                        let l := pset_tis ps in
                        (0 <? count (fun ti => in_pos (tid ti) piped && negb (active0 ti)) l)
                        && (count (fun ti => (active0 ti && negb (status_eqb (st ti) Pipelined) && negb (in_pos (tid ti) ev))
                                              || in_pos (tid ti) bound) l <? minav)) (j_psets j) in
      negb (has_bind && partial))
  (* (c) evictions keep every pod set at or above its minimum, or take all active pods of the job;
         a victim that the same cycle re-places (consolidation / consolidating reclaim) is moved, not lost *)
  && (let ev := filter (fun p => negb (in_pos p piped)) ev in
      let nev := count (fun ti => in_pos (tid ti) ev) tis in
      (nev =? 0)
      || forallb (fun pm => let '(ps, minav) := pm in
                    minav <=? count (fun ti => active0 ti && negb (in_pos (tid ti) ev)) (pset_tis ps)) (j_psets j)
      || (count (fun ti => active_used (st ti) && negb (status_eqb (st ti) Releasing) && negb (in_pos (tid ti) ev)) tis =? 0)).
Definition c03_ok (k : ccase) : bool := forallb (c03_job_ok k) (c_jobs k).
