(** C03: cycle-level monitor (Run/Cycle.v) + function-level correspondence for
    the gang bookkeeping (Model/Gang.v). *)
From KaiV Require Export Run.Cycle Model.Gang Model.GangAttempt.
Open Scope Z_scope.

Record gcase := mkG {
  g_sets : list pset;               (* pod sets in pop order of the order function used by the harness *)
  g_real : bool;                    (* isRealAllocation *)
  g_alloc : list (positive * Z);    (* observed GetTasksToAllocate: tasks per pod set *)
  g_evict : list (positive * Z);    (* observed GetTasksToEvict: tasks per pod set *)
  g_more : bool;                    (* observed hasMoreTasks *)
  g_ready : bool; g_sat : bool; g_pipe : bool;   (* IsReadyForScheduling, IsGangSatisfied, ShouldPipelineJob *)
}.

(** One gang through the real allocate action (harness/internal/cycle/attempt.go):
    pod sets before the action in the production pop order, the Bind /
    TaskPipelined calls of its pods per pod set in commit order (the placement
    oracle of Model/GangAttempt.v), pods per status (Allocated or Binding,
    Pipelined, Pending) in every pod set afterwards. *)
Record gacase := mkGA {
  ga_sets : list pset;
  ga_oracle : omap;
  ga_final : list (positive * (Z * Z * Z));
  ga_panic : bool;
}.

Inductive c03case := GCycle (k : ccase) | GGang (g : gcase) | GAttempt (a : gacase).

Definition zlookup (k : positive) (l : list (positive * Z)) : Z :=
  match find (fun p => Pos.eqb (fst p) k) l with Some p => snd p | None => 0 end.
Definition counts_agree (pss : list pset) (a b : list (positive * Z)) : bool :=
  forallb (fun ps => zlookup (ps_id ps) a =? zlookup (ps_id ps) b) pss.

Definition gang_agrees (g : gcase) : bool :=
  counts_agree (g_sets g) (tasks_to_allocate (g_real g) (g_sets g)) (g_alloc g)
  && counts_agree (g_sets g) (tasks_to_evict (rev (g_sets g))) (g_evict g)
  && Bool.eqb (evict_has_more (rev (g_sets g))) (g_more g)
  && Bool.eqb (forallb ready (g_sets g)) (g_ready g)
  && Bool.eqb (forallb gang_satisfied (g_sets g)) (g_sat g)
  && Bool.eqb (should_pipeline (g_sets g)) (g_pipe g).

(** The gang clauses on what the real functions returned:
    - a ready job's tasks to allocate bring every pod set they touch to its minimum;
    - the tasks to evict keep every pod set at or above its minimum or are all the job's active pods. *)
Definition gang_monitor (g : gcase) : bool :=
  (if g_ready g && g_real g then
     forallb (fun ps => let c := zlookup (ps_id ps) (g_alloc g) in
                (c =? 0) || (ps_min ps <=? n_active_alloc ps + c)) (g_sets g)
   else true)
  (* a workload whose pod sets are all at or above their minimum is either kept that way or evicted entirely *)
  && (if forallb (fun ps => ps_min ps <=? n_active_alloc ps) (g_sets g) then
        forallb (fun ps => ps_min ps <=? n_active_alloc ps - zlookup (ps_id ps) (g_evict g)) (g_sets g)
        || forallb (fun ps => n_active_alloc ps - zlookup (ps_id ps) (g_evict g) =? 0) (g_sets g)
      else true).

Definition n_status (s : status) (ps : pset) : Z := countb (fun t => status_eqb (pt_status t) s) (ps_tasks ps).
Definition final_lookup (id : positive) (l : list (positive * (Z * Z * Z))) : option (Z * Z * Z) :=
  match find (fun p => Pos.eqb (fst p) id) l with Some p => Some (snd p) | None => None end.

(** the model's loop (allocate_job), driven by the observed placements, ends in the observed statuses
    and consumes exactly the observed calls *)
Definition attempt_agrees (a : gacase) : bool :=
  negb (ga_panic a)
  && let fuel := S (List.length (flat_map ps_tasks (ga_sets a))) in
     let res := if forallb ready (ga_sets a) && has_tasks true (ga_sets a)
                then allocate_job fuel true (ga_oracle a) (ga_sets a)
                else ([], ga_sets a, ga_oracle a) in
     match res with
     | (_, fin, o) =>
         forallb (fun ps => match final_lookup (ps_id ps) (ga_final a) with
                            | Some (al, pi, pe) => (n_status Allocated ps =? al) && (n_status Pipelined ps =? pi) && (n_status Pending ps =? pe)
                            | None => false
                            end) fin
         && forallb (fun ps => match olook (ps_id ps) o with [] => true | _ => false end) (ga_sets a)
     end.

(** the gang clause on the real calls alone: a pod set of which something is bound has its minimum
    of pods that hold resources; a pod set of which something is placed (bound or nominated) gets at
    least what it misses to its minimum *)
Definition n_out (o : outcome) (l : list outcome) : Z :=
  countb (fun x => match x, o with OBound, OBound | OPiped, OPiped | OFail, OFail => true | _, _ => false end) l.
Definition attempt_monitor (a : gacase) : bool :=
  forallb (fun ps => let os := olook (ps_id ps) (ga_oracle a) in
             let b := n_out OBound os in let p := n_out OPiped os in
             (n_out OFail os =? 0)
             && ((b =? 0) || (ps_min ps <=? n_holding ps + b))
             && ((b + p =? 0) || (ps_min ps <=? n_active_alloc ps + b + p)))
          (ga_sets a).

Definition model_agrees (c : c03case) : bool :=
  match c with GCycle k => cycle_agrees k | GGang g => gang_agrees g | GAttempt a => attempt_agrees a end.
Definition monitor_ok (c : c03case) : bool :=
  match c with GCycle k => c03_ok k | GGang g => gang_monitor g | GAttempt a => attempt_monitor a end.
Definition run_mismatches (cs : list (nat * c03case)) : list nat := failing (fun k => negb (model_agrees k)) cs.
Definition run_monitor (cs : list (nat * c03case)) : list nat := failing (fun k => negb (monitor_ok k)) cs.
Definition run_flags (cs : list (nat * c03case)) : list (nat * list nat) :=
  filter (fun p => negb (Nat.eqb (List.length (snd p)) 0))
         (map (fun c => (fst c, match snd c with GCycle k => cycle_flags k | _ => [] end)) cs).
