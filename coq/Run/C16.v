(** Correspondence + monitor entry points for C16 (used by generated cases).

    Three kinds of case:
    - [CPQ]: a push/pop/fix program run on the real scheduler_util.PriorityQueue
      with Session.JobOrderFn (priority + elastic plugins) as lessFn;
    - [CJO]: a PushJob/PopNextJob program run on the real utils.JobsOrderByQueues
      over a generated queue hierarchy, with the harness's queue order function
      [h_qord] registered through Session.AddQueueOrderFn;
    - [CAL]: one run of the real allocate action (default plugins, proportion
      queue order) on a generated cluster: the pending jobs, and the UIDs of the
      placed jobs in the order of their first allocation; the quotas and limits of
      all queues, the running jobs, for every job the spec.preemptibility it was
      given and the Preemptibility the snapshot holds, and for every eligible
      pending job the verdicts of the real Session.IsJobOverQueueCapacityFn and
      Session.IsNonPreemptibleJobOverQueueQuotaFn when the session opens.
      [jobs] holds every ready pod group with a pending pod, "ghosts" included
      (pod groups whose queue is missing from the snapshot, whose queue's parent
      is missing, or whose queue is not a leaf); [coll] is what the real
      utils.JobsOrderByQueues hands out, pop by pop, after the real
      InitializeWithJobs over the session's pod groups (options of the allocate
      action), and [pops] the jobs the allocate action itself attempted, in
      order (one call of the job-level capacity gate per popped job).
      Every job carries [j_last_start], the PodGroupInfo.LastStartTimestamp the
      scheduler holds (given through the real SetPodGroup from the annotation
      kai.scheduler/last-start-timestamp); the model's order does not read it and
      no monitor does. *)
From KaiV Require Export Run.Prelude Model.JobOrder Model.JobOrderSpec Model.QuotaGate Model.QuotaGateSpec.
Open Scope Z_scope.

Inductive pqop :=
| PPush (j : job)
| PPop
| PFix (i : nat)        (* Fix(i), i < Len() *)
| PReprio (p : Z).      (* set the priority of Peek() to p, then Fix(0) *)

Inductive joop :=
| JPush (j : job)
| JPop.

(** what the pod group said ([po_spec]) and what PodGroupInfo.Preemptibility holds ([po_seen]) *)
Record pre_obs := { po_uid : Z; po_spec : preemptibility; po_seen : preemptibility }.
(** the real gates' verdicts for a pending job and all its pending pods at session open *)
Record gate_obs := { go_uid : Z; go_capacity : verdict; go_np_quota : verdict }.

Inductive case :=
| CPQ (maxsize : Z) (ops : list pqop) (obs : list (option Z))
| CJO (qs : list qinfo) (depth : Z) (ops : list joop) (obs : list (option Z))
| CAL (qs : list qinfo) (depth : Z) (jobs : list job) (order : list Z)
      (quotas : qstate) (running : list job) (pobs : list pre_obs) (gobs : list gate_obs)
      (coll pops : list Z).

Definition set_prio (j : job) (p : Z) : job :=
  {| j_uid := j_uid j; j_queue := j_queue j; j_prio := p; j_subgroups := j_subgroups j;
     j_ctime := j_ctime j; j_shape := j_shape j; j_pre := j_pre j; j_req := j_req j; j_last_start := j_last_start j |}.

Definition oz_eqb (a b : option Z) : bool :=
  match a, b with
  | Some x, Some y => x =? y
  | None, None => true
  | _, _ => false
  end.
Fixpoint list_eqb {A} (e : A -> A -> bool) (a b : list A) : bool :=
  match a, b with
  | [], [] => true
  | x :: r, y :: s => e x y && list_eqb e r s
  | _, _ => false
  end.

(** ** the model run on the same programs *)
Fixpoint pq_run (max : Z) (l : list job) (ops : list pqop) : res (list (option Z)) :=
  match ops with
  | [] => Ok []
  | PPush j :: r => l' <- pq_push job_less max l j ;; o <- pq_run max l' r ;; Ok (None :: o)
  | PPop :: r => p <- pq_pop job_less l ;; o <- pq_run max (snd p) r ;; Ok (option_map j_uid (fst p) :: o)
  | PFix i :: r => l' <- pq_fix job_less l i ;; o <- pq_run max l' r ;; Ok (None :: o)
  | PReprio p :: r =>
      match l with
      | [] => o <- pq_run max l r ;; Ok (None :: o)
      | x :: t => l' <- pq_fix job_less (set_prio x p :: t) 0 ;; o <- pq_run max l' r ;; Ok (Some (j_uid x) :: o)
      end
  end.

(** the queue order function the harness registers: best pending job's priority
    (higher first), then queue id *)
Definition h_qord (lq rq : Z) (lj rj : option job) : bool :=
  match lj, rj with
  | Some a, Some b => if j_prio a =? j_prio b then lq <? rq else j_prio b <? j_prio a
  | _, _ => lq <? rq
  end.

Fixpoint jo_run (qs : list qinfo) (depth : Z) (st : jo) (ops : list joop) : res (list (option Z)) :=
  match ops with
  | [] => Ok []
  | JPush j :: r => st' <- push_job qs h_qord depth st j ;; o <- jo_run qs depth st' r ;; Ok (None :: o)
  | JPop :: r => p <- pop_next_job h_qord st ;; o <- jo_run qs depth (snd p) r ;; Ok (option_map j_uid (fst p) :: o)
  end.

Definition res_eqb (r : res (list (option Z))) (obs : list (option Z)) : bool :=
  match r with Ok o => list_eqb oz_eqb o obs | _ => false end.

Definition memz (x : Z) (l : list Z) : bool := existsb (Z.eqb x) l.

(** placed jobs of the model's allocate loop, with the observed queue depth, when
    the oracle places exactly the observed set (within-leaf order does not depend
    on the queue order function; which jobs a bounded leaf queue keeps does not
    depend on the order in which the jobs are pushed: C16_leaf_queue_keeps_d_best) *)
Definition al_model_order (qs : list qinfo) (depth : Z) (jobs : list job) (order : list Z) : res (list job) :=
  r <- allocate qs h_qord depth (fun j (c : unit) => if memz (j_uid j) order then Some (c, None) else None)
                (S (List.length jobs)) jobs tt ;;
  Ok (map fst (filter snd r)).

Definition job_of (jobs : list job) (u : Z) : option job := find (fun j => j_uid j =? u) jobs.

(** the jobs the model's action pops, in order, when nothing can be placed: the
    collection ([initialize]: ghosts skipped one by one) drained by PopNextJob *)
Definition al_model_pops (qs : list qinfo) (depth : Z) (jobs : list job) : res (list job) :=
  r <- allocate qs h_qord depth (fun _ (c : unit) => None) (S (List.length jobs)) jobs tt ;;
  Ok (map fst r).

Definition per_leaf_agree (qs : list qinfo) (jobs : list job) (model : list job) (order : list Z) : bool :=
  forallb (fun qi =>
             let q := qi_id qi in
             let m := map j_uid (filter (fun j => j_queue j =? q) model) in
             let o := filter (fun u => match job_of jobs u with Some j => j_queue j =? q | None => false end) order in
             list_eqb Z.eqb m o) qs.

Definition pre_eqb (a b : preemptibility) : bool :=
  match a, b with
  | PUnset, PUnset | PPreemptible, PPreemptible | PNonPreemptible, PNonPreemptible => true
  | _, _ => false
  end.

Definition res_verdict_eqb (r : res verdict) (v : verdict) : bool :=
  match r with Ok x => verdict_eqb x v | _ => false end.

(** [j_pre] of every job is CalculatePreemptibility of what its pod group said and
    its priority, and it is what the snapshot holds *)
Definition pre_agree (jobs : list job) (pobs : list pre_obs) : bool :=
  forallb (fun j => existsb (fun o => po_uid o =? j_uid j) pobs) jobs
  && forallb (fun o => match job_of jobs (po_uid o) with
                       | Some j => pre_eqb (calculate_preemptibility (po_spec o) (j_prio j)) (j_pre j)
                                   && pre_eqb (po_seen o) (j_pre j)
                       | None => false
                       end) pobs.

(** the modelled gates on the usage accounted from the running jobs give the real
    verdicts (asked for every eligible pending job; a ghost has no queue to ask about) *)
Definition gate_agree (qs : list qinfo) (quotas : qstate) (running jobs : list job) (gobs : list gate_obs) : bool :=
  match account_all is_preemptible_job quotas running with
  | Ok st =>
      forallb (fun j => negb (eligible qs j) || existsb (fun o => go_uid o =? j_uid j) gobs) jobs
      && forallb (fun o => match job_of jobs (go_uid o) with
                           | Some j => res_verdict_eqb (job_over_queue_capacity st j) (go_capacity o)
                                       && res_verdict_eqb (np_job_over_quota st j) (go_np_quota o)
                           | None => false
                           end) gobs
  | _ => false
  end.

Definition model_agrees (k : case) : bool :=
  match k with
  | CPQ max ops obs => res_eqb (pq_run max [] ops) obs
  | CJO qs depth ops obs => res_eqb (jo_run qs depth jo_empty ops) obs
  | CAL qs depth jobs order quotas running pobs gobs coll pops =>
      match al_model_order qs depth jobs order with
      | Ok m => per_leaf_agree qs jobs m order
      | _ => false
      end
      && pre_agree (jobs ++ running) pobs
      && gate_agree qs quotas running jobs gobs
      (* the collection: what each leaf queue hands out, in order, is what the model's does *)
      && match al_model_pops qs depth jobs with
         | Ok m => per_leaf_agree qs jobs m coll && per_leaf_agree qs jobs m pops
                   && (List.length m =? List.length coll)%nat && (List.length m =? List.length pops)%nat
         | _ => false
         end
  end.

(** ** the property evaluated on what the real code returned *)
(** a queue that keeps the [depth] best jobs and pops the least one *)
Definition head_uid (l : list job) : option Z := match l with [] => None | x :: _ => Some (j_uid x) end.

Fixpoint pq_monitor (max : Z) (ideal : list job) (ops : list pqop) (obs : list (option Z)) : bool :=
  match ops, obs with
  | [], [] => true
  | PPush j :: r, _ :: s => pq_monitor max (ideal_push job_less max ideal j) r s
  | PPop :: r, o :: s => oz_eqb o (head_uid ideal) && pq_monitor max (snd (ideal_pop ideal)) r s
  | PFix _ :: r, _ :: s => pq_monitor max ideal r s
  | PReprio p :: r, o :: s =>
      oz_eqb o (head_uid ideal)
      && match ideal with
         | [] => pq_monitor max ideal r s
         | x :: t => pq_monitor max (insert_sorted job_less (set_prio x p) t) r s
         end
  | _, _ => false
  end.

Definition leaves := list (Z * list job).
Definition leaf_get (ls : leaves) (q : Z) : list job := match lookup q ls with Some l => l | None => [] end.

(** pop the leaf whose least job has UID [u]; [None] when no leaf has it as its least job *)
Fixpoint pop_uid (ls : leaves) (u : Z) : option leaves :=
  match ls with
  | [] => None
  | (q, l) :: r =>
      match l with
      | x :: t => if j_uid x =? u then Some ((q, t) :: r)
                  else option_map (cons (q, l)) (pop_uid r u)
      | [] => option_map (cons (q, l)) (pop_uid r u)
      end
  end.

Definition is_leaf_queue (qs : list qinfo) (q : Z) : bool :=
  match lookup_q qs q with Some qi => qi_leaf qi | None => false end.

Fixpoint jo_monitor (qs : list qinfo) (depth : Z) (ls : leaves) (ops : list joop) (obs : list (option Z)) : bool :=
  match ops, obs with
  | [], [] => true
  | JPush j :: r, _ :: s =>
      if is_leaf_queue qs (j_queue j)
      then jo_monitor qs depth (set_key (j_queue j) (ideal_push job_less depth (leaf_get ls (j_queue j)) j) ls) r s
      else jo_monitor qs depth ls r s
  | JPop :: r, Some u :: s =>
      match pop_uid ls u with
      | Some ls' => jo_monitor qs depth ls' r s
      | None => false
      end
  | JPop :: r, None :: s => jo_monitor qs depth ls r s
  | _, _ => false
  end.

(** identical workloads of one leaf queue ([same_workload], decidable): same queue,
    same shape (template, gang size), same request, and the same preemptibility -
    the one the scheduler is supposed to see: what the pod group says, else derived
    from the priority ([j_pre], checked against CalculatePreemptibility by [pre_agree]) *)
Definition comparable (a b : job) : bool :=
  (j_queue a =? j_queue b) && (j_shape a =? j_shape b) && list_eqb Z.eqb (j_req a) (j_req b)
  && pre_eqb (j_pre a) (j_pre b).

(** C16 on the decisions of a real allocate run: among identical workloads of one
    leaf queue, a job is not placed while one that the comparator chain orders
    before it (higher priority, then older) is left unplaced *)
Definition al_monitor (jobs : list job) (order : list Z) : bool :=
  forallb (fun b =>
             negb (memz (j_uid b) order)
             || forallb (fun a => negb (comparable a b && job_less a b) || memz (j_uid a) order) jobs) jobs.

(** ** the collection of a cycle, on what the real code popped *)
(** the ideal collection: leaf queue [q] keeps the [depth] best eligible jobs of
    [q], sorted by the comparator chain (declarative: [ideal_push] does not know
    the heap; ghosts are not eligible and never enter) *)
Definition collect_ideal (qs : list qinfo) (depth : Z) (jobs : list job) : leaves :=
  fold_left (fun ls j =>
               if eligible qs j
               then set_key (j_queue j) (ideal_push job_less depth (leaf_get ls (j_queue j)) j) ls
               else ls) jobs [].

Fixpoint drain (ls : leaves) (pops : list Z) : option leaves :=
  match pops with
  | [] => Some ls
  | u :: r => match pop_uid ls u with Some ls' => drain ls' r | None => None end
  end.

Definition all_drained (ls : leaves) : bool :=
  forallb (fun p => match snd p with [] => true | _ => false end) ls.

(** every pop hands out the least job left of some leaf queue (so within a leaf:
    priority, then FIFO), and when the pops end every eligible job (that a bounded
    leaf keeps) has been popped exactly once; no ghost, no running job, no job
    twice *)
Definition popped_exactly_eligible (qs : list qinfo) (depth : Z) (jobs : list job) (pops : list Z) : bool :=
  match drain (collect_ideal qs depth jobs) pops with
  | Some ls => all_drained ls
  | None => false
  end.

(** [ua] occurs in [l], and before the first occurrence of [ub] *)
Fixpoint seen_before (ua ub : Z) (l : list Z) : bool :=
  match l with
  | [] => false
  | x :: r => if x =? ua then true else if x =? ub then false else seen_before ua ub r
  end.

(** comparable pairs: the job the chain orders first (higher priority, then older)
    is attempted, and attempted first, whenever the other one is attempted *)
Definition attempt_order_ok (jobs : list job) (pops : list Z) : bool :=
  forallb (fun b =>
             negb (memz (j_uid b) pops)
             || forallb (fun a => negb (comparable a b && job_less a b) || seen_before (j_uid a) (j_uid b) pops) jobs)
          jobs.

(** FIFO, read directly (not through [job_less]) and whatever the last-start
    stamps ([j_last_start] is not looked at): of two comparable workloads of equal
    priority and equal elastic state, the one created earlier is handed out by the
    collection first, attempted first, and placed whenever the other one is *)
Definition mas_eqb (a b : job) : bool :=
  let '(ab, aa, ae) := min_available_state a in
  let '(bb, ba, be) := min_available_state b in
  Bool.eqb ab bb && Bool.eqb aa ba && Bool.eqb ae be.

Definition fifo_pair (a b : job) : bool :=
  comparable a b && (j_prio a =? j_prio b) && mas_eqb a b && (j_ctime a <? j_ctime b).

Definition fifo_monitor (jobs : list job) (order coll pops : list Z) : bool :=
  forallb (fun b =>
     forallb (fun a =>
        negb (fifo_pair a b)
        || ((negb (memz (j_uid b) order) || memz (j_uid a) order)
            && (negb (memz (j_uid b) coll) || seen_before (j_uid a) (j_uid b) coll)
            && (negb (memz (j_uid b) pops) || seen_before (j_uid a) (j_uid b) pops))) jobs) jobs.

(** a job is placed only by an attempt *)
Definition placed_were_attempted (order pops : list Z) : bool := forallb (fun u => memz u pops) order.

Definition collection_monitor (qs : list qinfo) (depth : Z) (jobs : list job) (order coll pops : list Z) : bool :=
  popped_exactly_eligible qs depth jobs coll && popped_exactly_eligible qs depth jobs pops
  && attempt_order_ok jobs coll && attempt_order_ok jobs pops
  && placed_were_attempted order pops
  && fifo_monitor jobs order coll pops.

(** the real gates do not tell identical workloads apart: the verdicts observed at
    session open are equal on every comparable pair, whatever the priorities *)
Definition gate_monitor (jobs : list job) (gobs : list gate_obs) : bool :=
  forallb (fun oa =>
     forallb (fun ob =>
        match job_of jobs (go_uid oa), job_of jobs (go_uid ob) with
        | Some a, Some b =>
            negb (comparable a b)
            || (verdict_eqb (go_capacity oa) (go_capacity ob) && verdict_eqb (go_np_quota oa) (go_np_quota ob))
        | _, _ => true
        end) gobs) gobs.

Definition monitor_ok (k : case) : bool :=
  match k with
  | CPQ max ops obs => pq_monitor max [] ops obs
  | CJO qs depth ops obs => jo_monitor qs depth [] ops obs
  | CAL qs depth jobs order _ _ _ gobs coll pops =>
      al_monitor jobs order && gate_monitor jobs gobs && collection_monitor qs depth jobs order coll pops
  end.

Definition run_mismatches (cs : list (nat * case)) : list nat := failing (fun k => negb (model_agrees k)) cs.
Definition run_monitor (cs : list (nat * case)) : list nat := failing (fun k => negb (monitor_ok k)) cs.
