(** Correspondence + monitor entry points for C16 (used by generated cases).

    Three kinds of case:
    - [CPQ]: a push/pop/fix program run on the real scheduler_util.PriorityQueue
      with Session.JobOrderFn (priority + elastic plugins) as lessFn;
    - [CJO]: a PushJob/PopNextJob program run on the real utils.JobsOrderByQueues
      over a generated queue hierarchy, with the harness's queue order function
      [h_qord] registered through Session.AddQueueOrderFn;
    - [CAL]: one run of the real allocate action (default plugins, proportion
      queue order) on a generated cluster: the jobs, and the UIDs of the placed
      jobs in the order of their first allocation. *)
From KaiV Require Export Run.Prelude Model.JobOrder Model.JobOrderSpec.
Open Scope Z_scope.

Inductive pqop :=
| PPush (j : job)
| PPop
| PFix (i : nat)        (* Fix(i), i < Len() *)
| PReprio (p : Z).      (* set the priority of Peek() to p, then Fix(0) *)

Inductive joop :=
| JPush (j : job)
| JPop.

Inductive case :=
| CPQ (maxsize : Z) (ops : list pqop) (obs : list (option Z))
| CJO (qs : list qinfo) (depth : Z) (ops : list joop) (obs : list (option Z))
| CAL (qs : list qinfo) (depth : Z) (jobs : list job) (order : list Z).

Definition set_prio (j : job) (p : Z) : job :=
  {| j_uid := j_uid j; j_queue := j_queue j; j_prio := p; j_subgroups := j_subgroups j;
     j_ctime := j_ctime j; j_shape := j_shape j |}.

Definition oz_eqb (a b : option Z) : bool :=
  match a, b with
  | Some x, Some y => x =? y
  | None, None => true
  | _, _ => false
  end.
Fixpoint list_eqb {A} (e : A -> A -> bool) (a b : list A) : bool :=
  match a, b with
  | [], [] => true
  | x :: r, y :: s => e x y && list_eqb e r s
  | _, _ => false
  end.

(** ** the model run on the same programs *)
Fixpoint pq_run (max : Z) (l : list job) (ops : list pqop) : res (list (option Z)) :=
  match ops with
  | [] => Ok []
  | PPush j :: r => l' <- pq_push job_less max l j ;; o <- pq_run max l' r ;; Ok (None :: o)
  | PPop :: r => p <- pq_pop job_less l ;; o <- pq_run max (snd p) r ;; Ok (option_map j_uid (fst p) :: o)
  | PFix i :: r => l' <- pq_fix job_less l i ;; o <- pq_run max l' r ;; Ok (None :: o)
  | PReprio p :: r =>
      match l with
      | [] => o <- pq_run max l r ;; Ok (None :: o)
      | x :: t => l' <- pq_fix job_less (set_prio x p :: t) 0 ;; o <- pq_run max l' r ;; Ok (Some (j_uid x) :: o)
      end
  end.

(** the queue order function the harness registers: best pending job's priority
    (higher first), then queue id *)
Definition h_qord (lq rq : Z) (lj rj : option job) : bool :=
  match lj, rj with
  | Some a, Some b => if j_prio a =? j_prio b then lq <? rq else j_prio b <? j_prio a
  | _, _ => lq <? rq
  end.

Fixpoint jo_run (qs : list qinfo) (depth : Z) (st : jo) (ops : list joop) : res (list (option Z)) :=
  match ops with
  | [] => Ok []
  | JPush j :: r => st' <- push_job qs h_qord depth st j ;; o <- jo_run qs depth st' r ;; Ok (None :: o)
  | JPop :: r => p <- pop_next_job h_qord st ;; o <- jo_run qs depth (snd p) r ;; Ok (option_map j_uid (fst p) :: o)
  end.

Definition res_eqb (r : res (list (option Z))) (obs : list (option Z)) : bool :=
  match r with Ok o => list_eqb oz_eqb o obs | _ => false end.

Definition memz (x : Z) (l : list Z) : bool := existsb (Z.eqb x) l.

(** placed jobs of the model's allocate loop, with the observed queue depth, when
    the oracle places exactly the observed set (within-leaf order does not depend
    on the queue order function; which jobs a bounded leaf queue keeps does not
    depend on the order in which the jobs are pushed: C16_leaf_queue_keeps_d_best) *)
Definition al_model_order (qs : list qinfo) (depth : Z) (jobs : list job) (order : list Z) : res (list job) :=
  r <- allocate qs h_qord depth (fun j (c : unit) => if memz (j_uid j) order then Some (c, None) else None)
                (S (List.length jobs)) jobs tt ;;
  Ok (map fst (filter snd r)).

Definition job_of (jobs : list job) (u : Z) : option job := find (fun j => j_uid j =? u) jobs.

Definition per_leaf_agree (qs : list qinfo) (jobs : list job) (model : list job) (order : list Z) : bool :=
  forallb (fun qi =>
             let q := qi_id qi in
             let m := map j_uid (filter (fun j => j_queue j =? q) model) in
             let o := filter (fun u => match job_of jobs u with Some j => j_queue j =? q | None => false end) order in
             list_eqb Z.eqb m o) qs.

Definition model_agrees (k : case) : bool :=
  match k with
  | CPQ max ops obs => res_eqb (pq_run max [] ops) obs
  | CJO qs depth ops obs => res_eqb (jo_run qs depth jo_empty ops) obs
  | CAL qs depth jobs order =>
      match al_model_order qs depth jobs order with
      | Ok m => per_leaf_agree qs jobs m order
      | _ => false
      end
  end.

(** ** the property evaluated on what the real code returned *)
(** a queue that keeps the [depth] best jobs and pops the least one *)
Definition head_uid (l : list job) : option Z := match l with [] => None | x :: _ => Some (j_uid x) end.

Fixpoint pq_monitor (max : Z) (ideal : list job) (ops : list pqop) (obs : list (option Z)) : bool :=
  match ops, obs with
  | [], [] => true
  | PPush j :: r, _ :: s => pq_monitor max (ideal_push job_less max ideal j) r s
  | PPop :: r, o :: s => oz_eqb o (head_uid ideal) && pq_monitor max (snd (ideal_pop ideal)) r s
  | PFix _ :: r, _ :: s => pq_monitor max ideal r s
  | PReprio p :: r, o :: s =>
      oz_eqb o (head_uid ideal)
      && match ideal with
         | [] => pq_monitor max ideal r s
         | x :: t => pq_monitor max (insert_sorted job_less (set_prio x p) t) r s
         end
  | _, _ => false
  end.

Definition leaves := list (Z * list job).
Definition leaf_get (ls : leaves) (q : Z) : list job := match lookup q ls with Some l => l | None => [] end.

(** pop the leaf whose least job has UID [u]; [None] when no leaf has it as its least job *)
Fixpoint pop_uid (ls : leaves) (u : Z) : option leaves :=
  match ls with
  | [] => None
  | (q, l) :: r =>
      match l with
      | x :: t => if j_uid x =? u then Some ((q, t) :: r)
                  else option_map (cons (q, l)) (pop_uid r u)
      | [] => option_map (cons (q, l)) (pop_uid r u)
      end
  end.

Definition is_leaf_queue (qs : list qinfo) (q : Z) : bool :=
  match lookup_q qs q with Some qi => qi_leaf qi | None => false end.

Fixpoint jo_monitor (qs : list qinfo) (depth : Z) (ls : leaves) (ops : list joop) (obs : list (option Z)) : bool :=
  match ops, obs with
  | [], [] => true
  | JPush j :: r, _ :: s =>
      if is_leaf_queue qs (j_queue j)
      then jo_monitor qs depth (set_key (j_queue j) (ideal_push job_less depth (leaf_get ls (j_queue j)) j) ls) r s
      else jo_monitor qs depth ls r s
  | JPop :: r, Some u :: s =>
      match pop_uid ls u with
      | Some ls' => jo_monitor qs depth ls' r s
      | None => false
      end
  | JPop :: r, None :: s => jo_monitor qs depth ls r s
  | _, _ => false
  end.

(** C16 on the decisions of a real allocate run: among jobs of one leaf queue with
    the same shape (template, gang size, preemptibility), a job is not placed while
    one that the comparator chain orders before it is left unplaced *)
Definition al_monitor (jobs : list job) (order : list Z) : bool :=
  forallb (fun b =>
             negb (memz (j_uid b) order)
             || forallb (fun a =>
                           negb ((j_queue a =? j_queue b) && (j_shape a =? j_shape b) && job_less a b)
                           || memz (j_uid a) order) jobs) jobs.

Definition monitor_ok (k : case) : bool :=
  match k with
  | CPQ max ops obs => pq_monitor max [] ops obs
  | CJO qs depth ops obs => jo_monitor qs depth [] ops obs
  | CAL _ _ jobs order => al_monitor jobs order
  end.

Definition run_mismatches (cs : list (nat * case)) : list nat := failing (fun k => negb (model_agrees k)) cs.
Definition run_monitor (cs : list (nat * case)) : list nat := failing (fun k => negb (monitor_ok k)) cs.
