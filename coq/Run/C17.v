(** Correspondence + monitor entry points for C17 (used by generated cases).

    A case is a set of consumer pods and a history of steps; for every step the
    harness records what the REAL code did on the fake API server: how the step
    ended, the ordered list of API calls, and the whole pod store afterwards
    (labels, phases, node names, index annotations, the indices handed to the
    plugins).  The oracles of a step (fault positions, device-plugin answers)
    are inputs; the Go map orders are read off the real run.

    [model_agrees] replays the history through Model/Reservation.v and compares
    every step.  [monitor_ok] evaluates the property on the observed stores only.

    RACES.  A case may end with a controlled interleaving of two operations A
    and B of the real code (the raw service calls ReserveGpuDevice and
    SyncForGpuGroup, or any event: Binder.Bind + Rollback, the pod handlers,
    the BindRequest delete handler, SyncForNode), started from the state the
    history reached: one of them was parked just before its k-th API call, the
    other one was started and ran until it finished or blocked on a lock, then
    the first one was released and both ran to completion.  The model has no
    interleavings -- every critical section of a group is one atomic piece of
    it.  That is sound only if the real sections are atomic, so the oracle is
    LINEARIZABILITY: the observed outcomes and final store must be what the
    model gives for A;B or for B;A from the same pre-state (reservation pod
    identities, which are creation order, are canonicalised away) -- required
    when both operations are single critical sections ([strict]; operations
    made of several sections interleave legitimately between their sections).
    The property clauses are evaluated on the real final store on their own
    ([race_ok]), for every interleaving. *)
From KaiV Require Export Run.Prelude Model.Reservation.

Record obs := mkObs {
  o_out : nat;              (* 0: finished, 1: returned an error (SyncForNode / Sync), 2: crashed *)
  o_calls : list call;      (* API calls in the order they were issued *)
  o_store : list pod        (* consumers in name order, then reservation pods in creation order *)
}.

(** ** operations of a race *)
Inductive rop :=
| RReserve (c : pid) (n : node) (g : group)   (* service.ReserveGpuDevice(pod c, node n, group g) *)
| RSyncGroup (g : group)                      (* service.SyncForGpuGroup(g) *)
| REvent (e : event).                         (* as in a history (no restart / outside deletion in races) *)

Record rstep := mkRStep {
  r_op : rop;
  r_fl : faults;
  r_ord : list (list group);
  r_dp : list (option gidx)
}.

Definition rout := (nat * option gidx)%type.   (* 0 ok / 1 error / 2 crash / 3 hang (never the model's), index returned by ReserveGpuDevice *)

Record race := mkRace {
  ra_a : rstep;
  ra_b : rstep;
  ra_first_a : bool;              (* the schedule: A was parked and B injected (false: the symmetric schedule) *)
  ra_k : nat;                     (* ... before its k-th API call *)
  ra_parked : bool;               (* the parked operation did reach call k (false: it makes fewer calls; the run was sequential) *)
  ra_blocked : bool;              (* the injected operation blocked on a lock until the parked one went on *)
  ra_out_a : rout;
  ra_out_b : rout;
  ra_calls_a : list call;         (* calls of A, in the order it issued them *)
  ra_calls_b : list call;
  ra_trace : list (bool * call);  (* all calls in the order the API server saw them; true: A's (replay information) *)
  ra_store : list pod             (* final store *)
}.

Record case := mkCase {
  k_pods : list (pid * mfkind);
  k_steps : list (step * obs);
  k_smoke : list (list pod);   (* final stores of runs with real concurrent reconciles (validation only) *)
  k_race_free : bool;          (* concurrent runs: no call failed, and the race detector (when used) stayed silent *)
  k_race : option race         (* a controlled interleaving of two operations after the history *)
}.

(** ** equality on observables *)
Definition opos_eqb (a b : option positive) : bool :=
  match a, b with
  | Some x, Some y => Pos.eqb x y
  | None, None => true
  | _, _ => false
  end.
Fixpoint list_eqb {A} (e : A -> A -> bool) (a b : list A) : bool :=
  match a, b with
  | [], [] => true
  | x :: r, y :: s => e x y && list_eqb e r s
  | _, _ => false
  end.
Definition mf_eqb (a b : mfkind) : bool :=
  match a, b with MfNo, MfNo | MfYes, MfYes | MfErr, MfErr => true | _, _ => false end.
Definition call_eqb (a b : call) : bool :=
  match a, b with
  | CList, CList | CCreate, CCreate | CWatch, CWatch | CDelete, CDelete
  | CPatch, CPatch | CBind, CBind | CGet, CGet => true
  | _, _ => false
  end.
Definition gi_eqb (a b : group * gidx) : bool := Pos.eqb (fst a) (fst b) && Pos.eqb (snd a) (snd b).
Definition pod_eqb (a b : pod) : bool :=
  Pos.eqb (p_id a) (p_id b) && Bool.eqb (p_res a) (p_res b) && opos_eqb (p_node a) (p_node b)
  && opos_eqb (p_plain a) (p_plain b) && list_eqb Pos.eqb (p_multi a) (p_multi b)
  && phase_eqb (p_phase a) (p_phase b) && opos_eqb (p_index a) (p_index b)
  && mf_eqb (p_mf a) (p_mf b) && list_eqb gi_eqb (p_given a) (p_given b).

Definition out_code {A} (o : out A) : nat := match o with Ok _ => 0 | Err => 1 | Crash => 2 end.

(** ** correspondence *)
Definition step_agrees (s : pstate) (st : step) (o : obs) : bool * pstate :=
  let (r, w) := exec_world st s in
  (Nat.eqb (out_code r) (o_out o)
   && list_eqb call_eqb (rev (w_log w)) (o_calls o)
   && list_eqb pod_eqb (w_store w) (o_store o)
   && (match r, w_pend w with Ok _, _ :: _ => false | _, _ => true end),
   persist w).

Fixpoint steps_run (s : pstate) (l : list (step * obs)) : bool * pstate :=
  match l with
  | [] => (true, s)
  | (st, o) :: r => let (b, s') := step_agrees s st o in
                    let (b', s'') := steps_run s' r in (b && b', s'')
  end.

(** ** races: the sequential model of one operation, and linearizability *)
Definition rop_prog (o : rop) : M (option gidx) :=
  match o with
  | RReserve c n g =>
      fun w => match find_consumer c (w_store w) with
               | None => (Ok None, w)
               | Some p => match p_node p with
                           | Some _ => (Ok None, w)      (* bound already: the reconciler does not get this far *)
                           | None => (i <- reserve c n g ;; ret (Some i)) (set_mem (Some p) w)
                           end
               end
  | RSyncGroup g => sync_group g ;;; ret None
  | REvent e => run_event e ;;; ret None
  end.

(** the operation, then the delivery of the watch events it caused (as [exec_world]) *)
Definition exec_rop (st : rstep) (s : pstate) : out (option gidx) * world :=
  let fuel := S (List.length (ps_store s)) in
  (r <- try (rop_prog (r_op st)) ;;
   match r with
   | Some v => drain fuel ;;; ret v
   | None => drain fuel ;;; fail
   end) (mkW (ps_store s) (ps_next s) (ps_brs s) 0 [] (r_fl st) (r_ord st) (r_dp st) None []).

Definition rcode (r : out (option gidx)) : rout :=
  match r with Ok v => (0, v) | Err => (1, None) | Crash => (2, None) end.
Definition rout_eqb (a b : rout) : bool := Nat.eqb (fst a) (fst b) && opos_eqb (snd a) (snd b).

(** canonical form of a store: consumers as they are; reservation pods without
    their identity (creation order -- it depends on who came first), sorted by
    (group, index, node) *)
Definition ocmp (a b : option positive) : comparison :=
  match a, b with
  | None, None => Eq
  | None, Some _ => Lt
  | Some _, None => Gt
  | Some x, Some y => Pos.compare x y
  end.
Definition res_leb (a b : pod) : bool :=
  match ocmp (p_plain a) (p_plain b) with
  | Lt => true
  | Gt => false
  | Eq => match ocmp (p_index a) (p_index b) with
          | Lt => true
          | Gt => false
          | Eq => match ocmp (p_node a) (p_node b) with Gt => false | _ => true end
          end
  end.
Fixpoint ins_res (p : pod) (l : list pod) : list pod :=
  match l with
  | [] => [p]
  | q :: r => if res_leb p q then p :: l else q :: ins_res p r
  end.
Definition clear_id (p : pod) : pod :=
  mkPod 1%positive (p_res p) (p_node p) (p_plain p) (p_multi p) (p_phase p) (p_index p) (p_mf p) (p_given p).
Definition canon (s : list pod) : list pod :=
  filter (fun p => negb (p_res p)) s
  ++ fold_right ins_res [] (map clear_id (filter p_res s)).

(** x, then y, from state s: outcomes, call logs, final store *)
Definition seq2 (x y : rstep) (s : pstate) : (rout * list call) * (rout * list call) * list pod :=
  let (rx, wx) := exec_rop x s in
  let (ry, wy) := exec_rop y (persist wx) in
  ((rcode rx, rev (w_log wx)), (rcode ry, rev (w_log wy)), w_store wy).

Definition lin_ab (calls : bool) (s : pstate) (r : race) : bool :=
  let '((oa, ca), (ob, cb), st) := seq2 (ra_a r) (ra_b r) s in
  rout_eqb oa (ra_out_a r) && rout_eqb ob (ra_out_b r)
  && list_eqb pod_eqb (canon st) (canon (ra_store r))
  && (negb calls || (list_eqb call_eqb ca (ra_calls_a r) && list_eqb call_eqb cb (ra_calls_b r))).
Definition lin_ba (calls : bool) (s : pstate) (r : race) : bool :=
  let '((ob, cb), (oa, ca), st) := seq2 (ra_b r) (ra_a r) s in
  rout_eqb oa (ra_out_a r) && rout_eqb ob (ra_out_b r)
  && list_eqb pod_eqb (canon st) (canon (ra_store r))
  && (negb calls || (list_eqb call_eqb ca (ra_calls_a r) && list_eqb call_eqb cb (ra_calls_b r))).

(** How many critical sections (plus separate environment actions) an
    operation consists of in state s.  ReserveGpuDevice and SyncForGpuGroup are
    one section each.  A handler runs one section per group of its pod /
    BindRequest, SyncForNode one per group found on the node, Binder.Bind is
    SyncForNode + one section per selected group + the patches: between two of
    its sections the other operation may run, and then the result need not be
    that of either sequential order -- whole-operation linearizability is a
    property of the code only for operations of at most one section. *)
Definition br_groups (c : pid) (s : pstate) : list group :=
  match br_get c (ps_brs s) with Some gs => gs | None => [] end.
Definition sections (o : rop) (s : pstate) : nat :=
  match o with
  | RReserve _ _ _ => 1
  | RSyncGroup _ => 1
  | REvent (EvPhase c ph) =>
      match find_consumer c (ps_store s) with
      | Some p => if completed ph then List.length (get_gpu_groups p) else 0
      | None => 0
      end
  | REvent (EvDelete c) =>
      match find_consumer c (ps_store s) with
      | Some p => List.length (get_gpu_groups p) + List.length (br_groups c s)
      | None => 0
      end
  | REvent (EvBRDelete c) => List.length (br_groups c s)
  | REvent (EvNodeSync n) =>
      List.length (dedup (flat_map get_gpu_groups (filter (fun p => labelled p && on_node n p) (ps_store s))))
  | REvent _ => 2
  end.
Definition single_section (x y : rstep) (s : pstate) : bool :=
  Nat.leb (sections (r_op x) s) 1
  && Nat.leb (sections (r_op x) (persist (snd (exec_rop y s)))) 1.
Definition strict (s : pstate) (r : race) : bool :=
  single_section (ra_a r) (ra_b r) s && single_section (ra_b r) (ra_a r) s.

(** A schedule whose parked operation never reached call k was the sequential
    run "first ; second": it must agree with that order, API calls included.
    A real interleaving of two single-section operations must be linearizable:
    one of the two orders.  (Other interleavings: the monitor, and flag 104.) *)
Definition race_agrees (s : pstate) (r : race) : bool :=
  if ra_parked r then negb (strict s r) || lin_ab false s r || lin_ba false s r
  else if ra_first_a r then lin_ab true s r else lin_ba true s r.

Definition model_agrees (k : case) : bool :=
  let (b, s) := steps_run (init_state (k_pods k)) (k_steps k) in
  b && match k_race k with Some r => race_agrees s r | None => true end.

(** ** the property on observed stores *)
Definition consumers (s : list pod) : list pod := filter (fun p => negb (p_res p)) s.
Definition all_groups (s : list pod) : list group :=
  dedup (flat_map (fun p => (match p_plain p with Some g => [g] | None => [] end) ++ p_multi p) s).

Definition has_res_b (s : list pod) (g : group) : bool :=
  match res_of g s with [] => false | _ => true end.
Definition live_carrier_b (s : list pod) (g : group) : bool :=
  existsb (fun p => negb (p_res p) && live_phase (p_phase p) && carries_b g p) s.

Definition amo_b (s : list pod) : bool :=
  forallb (fun g => Nat.leb (List.length (res_of g s)) 1) (all_groups s).
Definition index_b (s : list pod) : bool :=
  forallb (fun p =>
             if negb (p_res p) && live_phase (p_phase p)
             then forallb (fun gi => if carries_b (fst gi) p
                                     then existsb (fun r => opos_eqb (p_index r) (Some (snd gi)))
                                                  (res_of (fst gi) s)
                                     else true) (p_given p)
             else true) s.
Definition exact_b (s : list pod) (g : group) : bool := Bool.eqb (has_res_b s g) (live_carrier_b s g).
Definition orphan_free_b (s : list pod) : bool :=
  forallb (fun p =>
             if negb (p_res p) && phase_eqb (p_phase p) Running
             then forallb (has_res_b s) ((match p_plain p with Some g => [g] | None => [] end) ++ p_multi p)
             else true) s.

Definition is_res_gone (e : event) : bool := match e with EvResGone _ => true | _ => false end.
Definition fault_free (st : step) : bool :=
  match f_err (s_fl st), f_crash (s_fl st) with [], None => true | _, _ => false end.

(** groups whose sync the handlers owe after this event: those carried by the
    pod that completed or was deleted *)
Definition owed_groups (pre : list pod) (e : event) : list group :=
  match e with
  | EvPhase c ph =>
      match find_consumer c pre with
      | Some p => if completed ph && Nat.ltb (phase_rank (p_phase p)) (phase_rank ph)
                  then (match p_plain p with Some g => [g] | None => [] end) ++ p_multi p else []
      | None => []
      end
  | EvDelete c =>
      match find_consumer c pre with
      | Some p => (match p_plain p with Some g => [g] | None => [] end) ++ p_multi p
      | None => []
      end
  | _ => []
  end.

Definition res_on_node (n : node) (s : list pod) : list pod := filter (fun p => p_res p && on_node n p) s.

(** [tampered]: some reservation pod was deleted behind the binder's back
    earlier in the history -- the "iff" clauses are then not expected (a Pending
    consumer legitimately keeps its labels), only "at most one" and "no running
    orphan after the sync". *)
Fixpoint monitor_steps (pre : list pod) (tampered : bool) (l : list (step * obs)) : bool :=
  match l with
  | [] => true
  | (st, o) :: r =>
      let s := o_store o in
      let t := tampered || is_res_gone (s_ev st) in
      let settled := fault_free st && Nat.eqb (o_out o) 0 in
      amo_b s
      && (t || index_b s)
      && (if settled && negb t then forallb (exact_b s) (owed_groups pre (s_ev st)) else true)
      && (match s_ev st with
          | EvRestart =>
              if settled then orphan_free_b s && (t || forallb (exact_b s) (all_groups s)) else true
          | EvNodeSync n =>
              if settled && negb t
              then forallb (fun rp => match p_plain rp with Some g => live_carrier_b s g | None => true end)
                           (res_on_node n s)
              else true
          | _ => true
          end)
      && monitor_steps s t r
  end.

Definition smoke_ok (s : list pod) : bool :=
  amo_b s && index_b s && orphan_free_b s && forallb (exact_b s) (all_groups s).

(** the clauses on the final store of a race (the history before it is tamper
    free): at most one reservation pod per group; every group a live pod carries
    has a reservation pod (so no running pod is orphaned); the indices handed out
    -- to the plugins, or returned by ReserveGpuDevice -- are those annotated on
    the groups' reservation pods *)
Definition live_reserved_b (s : list pod) : bool :=
  forallb (fun p =>
             if negb (p_res p) && live_phase (p_phase p)
             then forallb (has_res_b s) (get_gpu_groups p)
             else true) s.
Definition reserve_answer_b (s : list pod) (st : rstep) (o : rout) : bool :=
  match r_op st, o with
  | RReserve c _ g, (0, Some i) =>
      match find_consumer c s with
      | Some p => if live_phase (p_phase p) && carries_b g p
                  then existsb (fun r => opos_eqb (p_index r) (Some i)) (res_of g s)
                  else true
      | None => true
      end
  | _, _ => true
  end.
Definition race_ok (r : race) : bool :=
  let s := ra_store r in
  amo_b s && live_reserved_b s && orphan_free_b s && index_b s
  && reserve_answer_b s (ra_a r) (ra_out_a r) && reserve_answer_b s (ra_b r) (ra_out_b r).

Definition monitor_ok (k : case) : bool :=
  monitor_steps (ps_store (init_state (k_pods k))) false (k_steps k)
  && forallb smoke_ok (k_smoke k) && k_race_free k
  && match k_race k with Some r => race_ok r | None => true end.

(** observation flags (counted in the evidence, never an alarm): which
    sequential order(s) a real interleaving is equal to (101 A;B only, 102 B;A
    only, 103 both, 104 neither -- an alarm through [model_agrees] when both
    operations are single sections, which is flag 105) *)
Definition race_flags (k : case) : list nat :=
  match k_race k with
  | Some r =>
      if ra_parked r then
        let s := snd (steps_run (init_state (k_pods k)) (k_steps k)) in
        match lin_ab false s r, lin_ba false s r with
        | true, true => [103]
        | true, false => [101]
        | false, true => [102]
        | false, false => [104]
        end ++ (if strict s r then [105] else [])
      else []
  | None => []
  end.
Definition run_flags (cs : list (nat * case)) : list (nat * list nat) :=
  filter (fun x => match snd x with [] => false | _ => true end)
         (map (fun x => (fst x, race_flags (snd x))) cs).

Definition run_mismatches (cs : list (nat * case)) : list nat := failing (fun k => negb (model_agrees k)) cs.
Definition run_monitor (cs : list (nat * case)) : list nat := failing (fun k => negb (monitor_ok k)) cs.
