(** Correspondence + monitor entry points for C17 (used by generated cases).

    A case is a set of consumer pods and a history of steps; for every step the
    harness records what the REAL code did on the fake API server: how the step
    ended, the ordered list of API calls, and the whole pod store afterwards
    (labels, phases, node names, index annotations, the indices handed to the
    plugins).  The oracles of a step (fault positions, device-plugin answers)
    are inputs; the Go map orders are read off the real run.

    [model_agrees] replays the history through Model/Reservation.v and compares
    every step.  [monitor_ok] evaluates the property on the observed stores only. *)
From KaiV Require Export Run.Prelude Model.Reservation.

Record obs := mkObs {
  o_out : nat;              (* 0: finished, 1: returned an error (SyncForNode / Sync), 2: crashed *)
  o_calls : list call;      (* API calls in the order they were issued *)
  o_store : list pod        (* consumers in name order, then reservation pods in creation order *)
}.

Record case := mkCase {
  k_pods : list (pid * mfkind);
  k_steps : list (step * obs);
  k_smoke : list (list pod);   (* final stores of runs with real concurrent reconciles (validation only) *)
  k_race_free : bool           (* concurrent runs: no call failed, and the race detector (when used) stayed silent *)
}.

(** ** equality on observables *)
Definition opos_eqb (a b : option positive) : bool :=
  match a, b with
  | Some x, Some y => Pos.eqb x y
  | None, None => true
  | _, _ => false
  end.
Fixpoint list_eqb {A} (e : A -> A -> bool) (a b : list A) : bool :=
  match a, b with
  | [], [] => true
  | x :: r, y :: s => e x y && list_eqb e r s
  | _, _ => false
  end.
Definition mf_eqb (a b : mfkind) : bool :=
  match a, b with MfNo, MfNo | MfYes, MfYes | MfErr, MfErr => true | _, _ => false end.
Definition call_eqb (a b : call) : bool :=
  match a, b with
  | CList, CList | CCreate, CCreate | CWatch, CWatch | CDelete, CDelete
  | CPatch, CPatch | CBind, CBind | CGet, CGet => true
  | _, _ => false
  end.
Definition gi_eqb (a b : group * gidx) : bool := Pos.eqb (fst a) (fst b) && Pos.eqb (snd a) (snd b).
Definition pod_eqb (a b : pod) : bool :=
  Pos.eqb (p_id a) (p_id b) && Bool.eqb (p_res a) (p_res b) && opos_eqb (p_node a) (p_node b)
  && opos_eqb (p_plain a) (p_plain b) && list_eqb Pos.eqb (p_multi a) (p_multi b)
  && phase_eqb (p_phase a) (p_phase b) && opos_eqb (p_index a) (p_index b)
  && mf_eqb (p_mf a) (p_mf b) && list_eqb gi_eqb (p_given a) (p_given b).

Definition out_code {A} (o : out A) : nat := match o with Ok _ => 0 | Err => 1 | Crash => 2 end.

(** ** correspondence *)
Definition step_agrees (s : pstate) (st : step) (o : obs) : bool * pstate :=
  let (r, w) := exec_world st s in
  (Nat.eqb (out_code r) (o_out o)
   && list_eqb call_eqb (rev (w_log w)) (o_calls o)
   && list_eqb pod_eqb (w_store w) (o_store o)
   && (match r, w_pend w with Ok _, _ :: _ => false | _, _ => true end),
   persist w).

Fixpoint steps_agree (s : pstate) (l : list (step * obs)) : bool :=
  match l with
  | [] => true
  | (st, o) :: r => let (b, s') := step_agrees s st o in b && steps_agree s' r
  end.

Definition model_agrees (k : case) : bool := steps_agree (init_state (k_pods k)) (k_steps k).

(** ** the property on observed stores *)
Definition consumers (s : list pod) : list pod := filter (fun p => negb (p_res p)) s.
Definition all_groups (s : list pod) : list group :=
  dedup (flat_map (fun p => (match p_plain p with Some g => [g] | None => [] end) ++ p_multi p) s).

Definition has_res_b (s : list pod) (g : group) : bool :=
  match res_of g s with [] => false | _ => true end.
Definition live_carrier_b (s : list pod) (g : group) : bool :=
  existsb (fun p => negb (p_res p) && live_phase (p_phase p) && carries_b g p) s.

Definition amo_b (s : list pod) : bool :=
  forallb (fun g => Nat.leb (List.length (res_of g s)) 1) (all_groups s).
Definition index_b (s : list pod) : bool :=
  forallb (fun p =>
             if negb (p_res p) && live_phase (p_phase p)
             then forallb (fun gi => if carries_b (fst gi) p
                                     then existsb (fun r => opos_eqb (p_index r) (Some (snd gi)))
                                                  (res_of (fst gi) s)
                                     else true) (p_given p)
             else true) s.
Definition exact_b (s : list pod) (g : group) : bool := Bool.eqb (has_res_b s g) (live_carrier_b s g).
Definition orphan_free_b (s : list pod) : bool :=
  forallb (fun p =>
             if negb (p_res p) && phase_eqb (p_phase p) Running
             then forallb (has_res_b s) ((match p_plain p with Some g => [g] | None => [] end) ++ p_multi p)
             else true) s.

Definition is_res_gone (e : event) : bool := match e with EvResGone _ => true | _ => false end.
Definition fault_free (st : step) : bool :=
  match f_err (s_fl st), f_crash (s_fl st) with [], None => true | _, _ => false end.

(** groups whose sync the handlers owe after this event: those carried by the
    pod that completed or was deleted *)
Definition owed_groups (pre : list pod) (e : event) : list group :=
  match e with
  | EvPhase c ph =>
      match find_consumer c pre with
      | Some p => if completed ph && Nat.ltb (phase_rank (p_phase p)) (phase_rank ph)
                  then (match p_plain p with Some g => [g] | None => [] end) ++ p_multi p else []
      | None => []
      end
  | EvDelete c =>
      match find_consumer c pre with
      | Some p => (match p_plain p with Some g => [g] | None => [] end) ++ p_multi p
      | None => []
      end
  | _ => []
  end.

Definition res_on_node (n : node) (s : list pod) : list pod := filter (fun p => p_res p && on_node n p) s.

(** [tampered]: some reservation pod was deleted behind the binder's back
    earlier in the history -- the "iff" clauses are then not expected (a Pending
    consumer legitimately keeps its labels), only "at most one" and "no running
    orphan after the sync". *)
Fixpoint monitor_steps (pre : list pod) (tampered : bool) (l : list (step * obs)) : bool :=
  match l with
  | [] => true
  | (st, o) :: r =>
      let s := o_store o in
      let t := tampered || is_res_gone (s_ev st) in
      let settled := fault_free st && Nat.eqb (o_out o) 0 in
      amo_b s
      && (t || index_b s)
      && (if settled && negb t then forallb (exact_b s) (owed_groups pre (s_ev st)) else true)
      && (match s_ev st with
          | EvRestart =>
              if settled then orphan_free_b s && (t || forallb (exact_b s) (all_groups s)) else true
          | EvNodeSync n =>
              if settled && negb t
              then forallb (fun rp => match p_plain rp with Some g => live_carrier_b s g | None => true end)
                           (res_on_node n s)
              else true
          | _ => true
          end)
      && monitor_steps s t r
  end.

Definition smoke_ok (s : list pod) : bool :=
  amo_b s && index_b s && orphan_free_b s && forallb (exact_b s) (all_groups s).

Definition monitor_ok (k : case) : bool :=
  monitor_steps (ps_store (init_state (k_pods k))) false (k_steps k)
  && forallb smoke_ok (k_smoke k) && k_race_free k.

Definition run_mismatches (cs : list (nat * case)) : list nat := failing (fun k => negb (model_agrees k)) cs.
Definition run_monitor (cs : list (nat * case)) : list nat := failing (fun k => negb (monitor_ok k)) cs.
