(** Correspondence + monitor entry points for node accounting (C14; reused by C01/C02). *)
From KaiV Require Export Run.Prelude Model.Res Model.Status Model.AMap Model.Node Model.NodeSpec Run.NodeObs.
Open Scope Z_scope.

Inductive nop :=
| OAdd (t : task)
| ORemove (t : task)     (* RemoveTask(ti): only the key of ti is used *)
| OUpdate (t : task)
| OConsolidate (t : task).

(** probe of the allocatability predicates on the current state *)
Record probe := mkProbe {
  pr_task : task;
  pr_alloc : bool;         (* IsTaskAllocatable *)
  pr_alloc_rel : bool;     (* IsTaskAllocatableOnReleasingOrIdle *)
  pr_groups : list (positive * bool * bool);  (* group, IsTaskFitOnGpuGroup, EnoughIdleResourcesOnGpu *)
}.

Record step := mkStep { s_op : nop; s_err : bool; s_obs : obs; s_probes : list probe }.

Record case := mkCase { k_init : node; k_sessionlike : bool; k_steps : list step }.

Definition apply_op (n : node) (o : nop) : result node :=
  match o with
  | OAdd t => add_task n t
  | ORemove t => remove_task n (t_id t)
  | OUpdate t => update_task n t
  | OConsolidate t => consolidate_to_different_gpu n t
  end.

Definition probe_matches (n : node) (p : probe) : bool :=
  Bool.eqb (is_task_allocatable n (pr_task p)) (pr_alloc p)
  && Bool.eqb (is_task_allocatable_on_releasing_or_idle n (pr_task p)) (pr_alloc_rel p)
  && forallb (fun gfe => let '(g, f, e) := gfe in
                Bool.eqb (fits_gpu_group n (t_gmem (pr_task p)) g) f
                && Bool.eqb (enough_idle_on_gpu n (t_gmem (pr_task p)) g) e) (pr_groups p).

Fixpoint steps_agree (n : node) (ss : list step) : bool :=
  match ss with
  | [] => true
  | s :: r =>
      match apply_op n (s_op s) with
      | Err => s_err s && obs_matches n (s_obs s) && forallb (probe_matches n) (s_probes s) && steps_agree n r
      | Ok n1 => negb (s_err s) && obs_matches n1 (s_obs s) && forallb (probe_matches n1) (s_probes s)
                 && steps_agree n1 r
      end
  end.

Definition model_agrees (k : case) : bool := steps_agree (k_init k) (k_steps k).

(** ** Monitor: the real node's books against the ground truth recomputed
    from the pods it holds (spec in Model/NodeSpec.v). The monitor keeps its own
    table "pod id -> task as last passed in" and takes statuses/groups from
    the observed pod list, i.e. it does not use the model's transition function. *)
Definition task_of_op (o : nop) : option task :=
  match o with OAdd t | OUpdate t | OConsolidate t => Some t | ORemove _ => None end.

Definition present_tasks (tbl : amap task) (o : obs) : list task :=
  flat_map (fun kv => match alookup (fst kv) tbl with
                      | Some t => [mkTask (t_id t) (t_job t) (fst (snd kv)) (t_kind t) (t_req t) (t_ndev t)
                                          (t_gmem t) (snd (snd kv)) (t_resv t) (t_besteffort t)]
                      | None => []
                      end) (o_pods o).

Definition obs_node (init : node) (o : obs) : node :=
  mkNode (n_alloc init) (o_idle o) (o_used o) (o_rel o) (n_ngpu init) (n_gpumem init) []
         (o_gused o) (o_galloc o) (o_grel o) (map (fun g => (g, tt)) (o_gmark o)).

Definition col_agree (al a b : Z) : bool := (al =? 0) || (a =? b).
Definition vec_agree (alloc s v : res) : bool :=
  (cpu s =? cpu v) && (mem s =? mem v) && (gpu s =? gpu v) && (pods s =? pods v)
  && col_agree (mig alloc) (mig s) (mig v) && col_agree (ext alloc) (ext s) (ext v).

(** [mode]: 0 = compare everything, 1 = the device-guard quirk has been exposed
    (whole-GPU idle/releasing counts no longer compared), 2 = tainted by an
    in-place consolidate (only representation agreement is compared). *)
Definition step_monitor (init : node) (sessionlike : bool) (mode : nat) (tbl : amap task) (o : obs) : bool :=
  let ts := present_tasks tbl o in
  vec_agree (n_alloc init) (o_idle o) (o_idle_v o) && vec_agree (n_alloc init) (o_used o) (o_used_v o)
  && vec_agree (n_alloc init) (o_rel o) (o_rel_v o)
  && (Nat.eqb (List.length ts) (List.length (o_pods o)))
  && match mode with
     | O => books_ok sessionlike (obs_node init o) ts
     | S O => books_ok false (obs_node init o) ts
     | _ => true
     end.

Definition moved_task (o : nop) : task :=
  match o with OAdd t | ORemove t | OUpdate t | OConsolidate t => t end.

(** returns (ok, quirk_manifested) *)
Fixpoint steps_monitor (init : node) (sl : bool) (mode : nat) (tbl : amap task) (prev : list task) (ss : list step)
  : bool * bool :=
  match ss with
  | [] => (true, false)
  | s :: r =>
      let tbl1 := if s_err s then tbl else
                    match task_of_op (s_op s) with Some t => aset (t_id t) t tbl | None => tbl end in
      let ts := present_tasks tbl1 (s_obs s) in
      let mt := match alookup (t_id (moved_task (s_op s))) tbl with Some t => t | None => moved_task (s_op s) end in
      let mode1 :=
        match s_op s with
        | OConsolidate t => if negb (s_err s) && amem (t_id t) tbl then 2%nat else mode
        | _ => mode
        end in
      let mode2 := if Nat.eqb mode1 0 && negb (s_err s) && (exposed prev mt || exposed ts mt) then 1%nat else mode1 in
      let here := step_monitor init sl mode2 tbl1 (s_obs s) in
      let manifested := Nat.eqb mode2 1 && sl && negb (books_ok true (obs_node init (s_obs s)) ts) in
      let '(ok, m) := steps_monitor init sl mode2 tbl1 ts r in
      (here && ok, manifested || m)
  end.

Definition monitor_ok (k : case) : bool := fst (steps_monitor (k_init k) (k_sessionlike k) 0 [] [] (k_steps k)).
(** flag 1: the device-guard quirk changed the whole-GPU books (known finding C14-device-guard) *)
Definition flags (k : case) : list nat := if snd (steps_monitor (k_init k) (k_sessionlike k) 0 [] [] (k_steps k)) then [1%nat] else [].
Definition run_flags (cs : list (nat * case)) : list (nat * list nat) :=
  filter (fun p => negb (Nat.eqb (List.length (snd p)) 0)) (map (fun c => (fst c, flags (snd c))) cs).

Definition run_mismatches (cs : list (nat * case)) : list nat := failing (fun k => negb (model_agrees k)) cs.
Definition run_monitor (cs : list (nat * case)) : list nat := failing (fun k => negb (monitor_ok k)) cs.
