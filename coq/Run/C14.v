(** Correspondence + monitor entry points for C14: node accounting (first part; reused by C01/C02)
    and workload (pod group / pod set) accounting (second part, Model/JobBooks.v). *)
From KaiV Require Export Run.Prelude Model.Res Model.Status Model.AMap Model.Node Model.NodeSpec Run.NodeObs Model.JobBooks.
Open Scope Z_scope.

Inductive nop :=
| OAdd (t : task)
| ORemove (t : task)     (* RemoveTask(ti): only the key of ti is used *)
| OUpdate (t : task)
| OConsolidate (t : task).

(** probe of the allocatability predicates on the current state *)
Record probe := mkProbe {
  pr_task : task;
  pr_alloc : bool;         (* IsTaskAllocatable *)
  pr_alloc_rel : bool;     (* IsTaskAllocatableOnReleasingOrIdle *)
  pr_groups : list (positive * bool * bool);  (* group, IsTaskFitOnGpuGroup, EnoughIdleResourcesOnGpu *)
}.

Record step := mkStep { s_op : nop; s_err : bool; s_obs : obs; s_probes : list probe }.

Record ncase := mkCase { k_init : node; k_sessionlike : bool; k_steps : list step }.

Definition apply_op (n : node) (o : nop) : result node :=
  match o with
  | OAdd t => add_task n t
  | ORemove t => remove_task n (t_id t)
  | OUpdate t => update_task n t
  | OConsolidate t => consolidate_to_different_gpu n t
  end.

Definition probe_matches (n : node) (p : probe) : bool :=
  Bool.eqb (is_task_allocatable n (pr_task p)) (pr_alloc p)
  && Bool.eqb (is_task_allocatable_on_releasing_or_idle n (pr_task p)) (pr_alloc_rel p)
  && forallb (fun gfe => let '(g, f, e) := gfe in
                Bool.eqb (fits_gpu_group n (t_gmem (pr_task p)) g) f
                && Bool.eqb (enough_idle_on_gpu n (t_gmem (pr_task p)) g) e) (pr_groups p).

Fixpoint steps_agree (n : node) (ss : list step) : bool :=
  match ss with
  | [] => true
  | s :: r =>
      match apply_op n (s_op s) with
      | Err => s_err s && obs_matches n (s_obs s) && forallb (probe_matches n) (s_probes s) && steps_agree n r
      | Ok n1 => negb (s_err s) && obs_matches n1 (s_obs s) && forallb (probe_matches n1) (s_probes s)
                 && steps_agree n1 r
      end
  end.

Definition nmodel_agrees (k : ncase) : bool := steps_agree (k_init k) (k_steps k).

(** ** Monitor: the real node's books against the ground truth recomputed
    from the pods it holds (spec in Model/NodeSpec.v). The monitor keeps its own
    table "pod id -> task as last passed in" and takes statuses/groups from
    the observed pod list, i.e. it does not use the model's transition function. *)
Definition task_of_op (o : nop) : option task :=
  match o with OAdd t | OUpdate t | OConsolidate t => Some t | ORemove _ => None end.

Definition present_tasks (tbl : amap task) (o : obs) : list task :=
  flat_map (fun kv => match alookup (fst kv) tbl with
                      | Some t => [mkTask (t_id t) (t_job t) (fst (snd kv)) (t_kind t) (t_req t) (t_ndev t)
                                          (t_gmem t) (snd (snd kv)) (t_resv t) (t_besteffort t)]
                      | None => []
                      end) (o_pods o).

Definition obs_node (init : node) (o : obs) : node :=
  mkNode (n_alloc init) (o_idle o) (o_used o) (o_rel o) (n_ngpu init) (n_gpumem init) []
         (o_gused o) (o_galloc o) (o_grel o) (map (fun g => (g, tt)) (o_gmark o)).

Definition col_agree (al a b : Z) : bool := (al =? 0) || (a =? b).
Definition vec_agree (alloc s v : res) : bool :=
  (cpu s =? cpu v) && (mem s =? mem v) && (gpu s =? gpu v) && (pods s =? pods v)
  && col_agree (mig alloc) (mig s) (mig v) && col_agree (ext alloc) (ext s) (ext v).

(** [mode]: 0 = compare everything, 1 = the device-guard quirk has been exposed
    (whole-GPU idle/releasing counts no longer compared), 2 = tainted by an
    in-place consolidate (only representation agreement is compared). *)
Definition step_monitor (init : node) (sessionlike : bool) (mode : nat) (tbl : amap task) (o : obs) : bool :=
  let ts := present_tasks tbl o in
  vec_agree (n_alloc init) (o_idle o) (o_idle_v o) && vec_agree (n_alloc init) (o_used o) (o_used_v o)
  && vec_agree (n_alloc init) (o_rel o) (o_rel_v o)
  && (Nat.eqb (List.length ts) (List.length (o_pods o)))
  && match mode with
     | O => books_ok sessionlike (obs_node init o) ts
     | S O => books_ok false (obs_node init o) ts
     | _ => true
     end.

Definition moved_task (o : nop) : task :=
  match o with OAdd t | ORemove t | OUpdate t | OConsolidate t => t end.

(** returns (ok, quirk_manifested) *)
Fixpoint steps_monitor (init : node) (sl : bool) (mode : nat) (tbl : amap task) (prev : list task) (ss : list step)
  : bool * bool :=
  match ss with
  | [] => (true, false)
  | s :: r =>
      let tbl1 := if s_err s then tbl else
                    match task_of_op (s_op s) with Some t => aset (t_id t) t tbl | None => tbl end in
      let ts := present_tasks tbl1 (s_obs s) in
      let mt := match alookup (t_id (moved_task (s_op s))) tbl with Some t => t | None => moved_task (s_op s) end in
      let mode1 :=
        match s_op s with
        | OConsolidate t => if negb (s_err s) && amem (t_id t) tbl then 2%nat else mode
        | _ => mode
        end in
      let mode2 := if Nat.eqb mode1 0 && negb (s_err s) && (exposed prev mt || exposed ts mt) then 1%nat else mode1 in
      let here := step_monitor init sl mode2 tbl1 (s_obs s) in
      let manifested := Nat.eqb mode2 1 && sl && negb (books_ok true (obs_node init (s_obs s)) ts) in
      let '(ok, m) := steps_monitor init sl mode2 tbl1 ts r in
      (here && ok, manifested || m)
  end.

Definition nmonitor_ok (k : ncase) : bool := fst (steps_monitor (k_init k) (k_sessionlike k) 0 [] [] (k_steps k)).
(** flag 1: the device-guard quirk changed the whole-GPU books (known finding C14-device-guard) *)
Definition nflags (k : ncase) : list nat := if snd (steps_monitor (k_init k) (k_sessionlike k) 0 [] [] (k_steps k)) then [1%nat] else [].

(** * Workload accounting: PodGroupInfo / PodSet (Model/JobBooks.v)

    A job case is a history of observations of real PodGroupInfo objects: after every operation the driver
    dumps what the scheduler BELIEVES about the workload (every exported counter, getter and gang predicate of
    job_info.go and subgroup_info/podset.go, PodStatusIndex member by member) next to the pods it holds and their
    statuses.  Three kinds of histories share the format:
      - operation programs on one PodGroupInfo ([js_ops = Some os]: AddTaskInfo / UpdateTaskStatus with the
        passed status explicit, every status pair; CloneWithTasks);
      - real Statement programs on a real session (Pipeline / Allocate / Evict / Unevict / Checkpoint /
        Rollback / Discard / Commit / ConvertAllAllocatedToPipelined, common.AllocateJob with its own
        checkpoints and rollbacks): one observation of the affected job inside every allocate / deallocate
        event (i.e. after every primitive and every undo of it) and one of all jobs after every command;
      - the real actions (allocate, consolidation, reclaim, preempt, stalegangeviction) on generated
        clusters, observed the same way, so that every simulation step of the scenario solvers is seen.
    For the last two [js_ops = None]: the model is driven by the status changes read off the pods of two
    consecutive observations of a job ([diff_ops]).

    [jmodel_agrees]: the model's incremental counters follow the real ones (correspondence).
    [jmonitor_ok]: every dumped belief equals its recomputation from the dumped pods; it reads nothing of
    the model's transition functions.  A failure is a concrete violation of C14 on the real objects. *)

Record psdump := mkPSD {
  pd_min : Z; pd_n : Z;                 (* GetMinAvailable, len(GetPodInfos()) *)
  pd_aa : Z; pd_au : Z; pd_alive : Z;   (* GetNumActiveAllocatedTasks, GetNumActiveUsedTasks, GetNumAliveTasks *)
  pd_pending : Z; pd_gated : Z;         (* GetNumPendingTasks, GetNumGatedTasks *)
  pd_sat : bool; pd_ready : bool; pd_elastic : bool;   (* IsGangSatisfied, IsReadyForScheduling, IsElastic *)
}.

Record jdump := mkJD {
  jd_pods : list (positive * status);   (* GetAllPodsMap: uid, Status; sorted by uid *)
  jd_alloc : res; jd_allocv : res;      (* Allocated, AllocatedVector *)
  jd_active : Z;                        (* GetActiveAllocatedTasksCount *)
  jd_idx : list (list positive);        (* PodStatusIndex[s] for the 12 statuses in the order of [all_statuses]; sorted uids *)
  jd_nums : list Z;                     (* GetNumPendingTasks; GetNumGatedTasks; GetNumActiveUsedTasks; GetNumAllocatedTasks;
                                           GetNumAliveTasks; GetActivelyRunningTasksCount *)
  jd_preds : list bool;                 (* IsGangSatisfied; IsReadyForScheduling; IsStale; ShouldPipelineJob; IsElastic *)
  jd_psets : amap psdump;
}.

(** what does not change along a history: the pod's job, pod set and request in both representations *)
Record jstatic := mkJSt { st_job : positive; st_pset : positive; st_req : res; st_reqv : res }.

(** [js_ops = Some os]: the operations that were issued since the previous observation of this job (one
    AddTaskInfo / UpdateTaskStatus; for CloneWithTasks, which rebuilds the pod group from a subset of its pods, one
    removal per dropped pod); [None]: read them off the pods ([diff_ops]). [js_err]: an error was returned. *)
Record jstep := mkJS { js_job : positive; js_ops : option (list jop); js_err : bool; js_dump : jdump }.

Record jcase := mkJCase {
  jc_monitored : bool;          (* false: a history the scheduler does not issue (stale copy, double add): correspondence only *)
  jc_mask : res;                (* 1 in the columns the resource vector map has an index for *)
  jc_mins : amap (amap Z);      (* job -> pod set -> minAvailable *)
  jc_tbl : amap jstatic;
  jc_steps : list jstep;
}.

Definition pod_of (tbl : amap jstatic) (jid : positive) (e : positive * status) : list jpod :=
  match alookup (fst e) tbl with
  | Some x => if Pos.eqb (st_job x) jid then [mkJP (fst e) (snd e) (st_pset x) (st_req x) (st_reqv x)] else []
  | None => []
  end.
Definition dump_pods (tbl : amap jstatic) (jid : positive) (d : jdump) : list jpod := flat_map (pod_of tbl jid) (jd_pods d).

(** ** Correspondence *)
Definition diff_ops (tbl : amap jstatic) (jid : positive) (j : jobb) (d : jdump) : list jop :=
  flat_map (fun kv => if amem (fst kv) (jd_pods d) then [] else [JRemove (fst kv) (jp_status (snd kv))]) (jb_pods j)
  ++ flat_map (fun e => match alookup (fst e) (jb_pods j) with
                        | Some cur => if status_eqb (jp_status cur) (snd e) then [] else [JUpdate (fst e) (jp_status cur) (snd e)]
                        | None => map JAdd (pod_of tbl jid e)
                        end) (jd_pods d).

Definition bool_list_eqb := list_eqb Bool.eqb.
Definition z_list_eqb := list_eqb Z.eqb.

Fixpoint idx_matches (i : ix) (ss : list status) (ds : list (list positive)) : bool :=
  match ss, ds with
  | [], [] => true
  | s :: sr, ids :: dr =>
      (ix_size s i =? Z.of_nat (List.length ids)) && forallb (fun id => ix_mem (s, id) i) ids && idx_matches i sr dr
  | _, _ => false
  end.

Definition pset_matches (l : list jpod) (k : positive) (ps : psetb) (pd : psdump) : bool :=
  let lk := filter (in_pset k) l in
  (pb_min ps =? pd_min pd) && (Z.of_nat (List.length lk) =? pd_n pd)
  && (pb_aa ps =? pd_aa pd) && (pb_au ps =? pd_au pd) && (pb_alive ps =? pd_alive pd)
  && (ps_num_pending ps =? pd_pending pd) && (ps_num_gated ps =? pd_gated pd)
  && Bool.eqb (ps_gang_satisfied ps) (pd_sat pd) && Bool.eqb (ps_ready ps) (pd_ready pd)
  && Bool.eqb (pb_min ps <? Z.of_nat (List.length lk)) (pd_elastic pd).

Fixpoint psets_match (l : list jpod) (a : amap psetb) (b : amap psdump) : bool :=
  match a, b with
  | [], [] => true
  | (k, ps) :: r, (k', pd) :: r' => Pos.eqb k k' && pset_matches l k ps pd && psets_match l r r'
  | _, _ => false
  end.

Definition jview_matches (j : jobb) (d : jdump) : bool :=
  list_eqb (fun a b => Pos.eqb (fst a) (fst b) && status_eqb (snd a) (snd b))
           (map (fun kv => (fst kv, jp_status (snd kv))) (jb_pods j)) (jd_pods d)
  && (jb_active j =? jd_active d)
  && idx_matches (jb_idx j) all_statuses (jd_idx d)
  && req (jb_alloc j) (jd_alloc d) && req (jb_allocv j) (jd_allocv d)
  && z_list_eqb [num_pending j; num_gated j; num_active_used j; num_allocated j; num_alive j; num_active_used j] (jd_nums d)
  && bool_list_eqb [is_gang_satisfied j; is_ready j; is_stale j; should_pipeline j; is_elastic j] (jd_preds d)
  && psets_match (pods_of j) (jb_psets j) (jd_psets d).

Definition japply_list (j : jobb) (os : list jop) : jobb * bool :=
  fold_left (fun a o => let '(j1, e) := japply (fst a) o in (j1, snd a || e)) os (j, false).

Definition jstep_model (tbl : amap jstatic) (js : amap jobb) (s : jstep) : option (amap jobb * bool) :=
  match alookup (js_job s) js with
  | None => None
  | Some j =>
      let '(j1, err) := match js_ops s with
                        | Some os => japply_list j os
                        | None => (jrun j (diff_ops tbl (js_job s) j (js_dump s)), false)
                        end in
      Some (aset (js_job s) j1 js, Bool.eqb err (js_err s) && jview_matches j1 (js_dump s))
  end.

Fixpoint jsteps_agree (tbl : amap jstatic) (js : amap jobb) (ss : list jstep) : bool :=
  match ss with
  | [] => true
  | s :: r => match jstep_model tbl js s with
              | Some (js1, ok) => ok && jsteps_agree tbl js1 r
              | None => false
              end
  end.

Definition jinit (k : jcase) : amap jobb := map (fun kv => (fst kv, jb_init (snd kv))) (jc_mins k).
Definition jmodel_agrees (k : jcase) : bool := jsteps_agree (jc_tbl k) (jinit k) (jc_steps k).

(** ** Monitor: beliefs against the recomputation from the dumped pods *)
Definition masked_eq (m a b : res) : bool :=
  (cpu a =? cpu b) && (mem a =? mem b) && (gpu a =? gpu b)
  && col_agree (pods m) (pods a) (pods b) && col_agree (mig m) (mig a) (mig b) && col_agree (ext m) (ext a) (ext b).

Fixpoint idx_exact (l : list jpod) (ss : list status) (ds : list (list positive)) : bool :=
  match ss, ds with
  | [], [] => true
  | s :: sr, ids :: dr => list_eqb Pos.eqb ids (rc_ids s l) && idx_exact l sr dr
  | _, _ => false
  end.

Definition pset_exact (l : list jpod) (kv : positive * psdump) : bool :=
  let lk := filter (in_pset (fst kv)) l in
  let pd := snd kv in
  (pd_n pd =? Z.of_nat (List.length lk))
  && (pd_aa pd =? rc_active lk) && (pd_au pd =? rc_used lk) && (pd_alive pd =? rc_alive lk)
  && (pd_pending pd =? rc_size Pending lk) && (pd_gated pd =? rc_size Gated lk)
  && Bool.eqb (pd_sat pd) (pd_min pd <=? rc_used lk)
  && Bool.eqb (pd_ready pd) (pd_min pd <=? rc_alive lk - rc_size Gated lk)
  && Bool.eqb (pd_elastic pd) (pd_min pd <? Z.of_nat (List.length lk)).

Definition preds_exact (l : list jpod) (d : jdump) : list bool :=
  let sat kv := pd_min (snd kv) <=? rc_used (filter (in_pset (fst kv)) l) in
  [ forallb sat (jd_psets d);
    forallb (fun kv => let lk := filter (in_pset (fst kv)) l in pd_min (snd kv) <=? rc_alive lk - rc_size Gated lk) (jd_psets d);
    (if 0 <? rc_size Succeeded l then false else if rc_used l =? 0 then false else existsb (fun kv => negb (sat kv)) (jd_psets d));
    existsb (fun kv => should_pipeline_l (pd_min (snd kv)) (filter (in_pset (fst kv)) l)) (jd_psets d);
    existsb (fun kv => pd_min (snd kv) <? Z.of_nat (List.length (filter (in_pset (fst kv)) l))) (jd_psets d) ].

Definition dump_ok (mask : res) (tbl : amap jstatic) (jid : positive) (d : jdump) : bool :=
  let l := dump_pods tbl jid d in
  Nat.eqb (List.length l) (List.length (jd_pods d))
  && forallb (fun p => amem (jp_pset p) (jd_psets d)) l
  && (jd_active d =? rc_active l)
  && idx_exact l all_statuses (jd_idx d)
  && req (jd_alloc d) (rc_alloc l)
  && masked_eq mask (jd_allocv d) (rc_allocv l)
  && masked_eq mask (jd_alloc d) (jd_allocv d)
  && z_list_eqb (jd_nums d) [rc_size Pending l; rc_size Gated l; rc_used l; cnt is_alloc l; rc_alive l; rc_used l]
  && forallb (pset_exact l) (jd_psets d)
  && bool_list_eqb (jd_preds d) (preds_exact l d).

Definition jstep_ok (k : jcase) (s : jstep) : bool := dump_ok (jc_mask k) (jc_tbl k) (js_job s) (js_dump s).
Definition jmonitor_ok (k : jcase) : bool := negb (jc_monitored k) || forallb (jstep_ok k) (jc_steps k).

(** position of the first observation the monitor rejects (for reading a replay) *)
Fixpoint first_bad {A} (f : A -> bool) (l : list A) (i : nat) : option nat :=
  match l with [] => None | x :: r => if f x then first_bad f r (S i) else Some i end.
Definition jmonitor_first_bad (k : jcase) : option nat := first_bad (jstep_ok k) (jc_steps k) 0.

(** * Queue accounting: the proportion plugin's books (third part)

    A queue case is ONE real session opened with the real proportion plugin (all default plugins) on a generated
    cluster: queue forests of depth 1-3, pods in every status, whole-GPU / fraction / gpu-memory (one and several
    devices) / cpu-only requests, nodes whose devices differ in memory.  At session open and after every real
    Statement command / action the driver dumps, for EVERY queue, what the plugin believes - Allocated,
    AllocatedNotPreemptible and Request of each of CPU, memory and GPU, read from the plugin's own
    rs.QueueAttributes, the float64 values printed exactly (mantissa and exponent; +Inf / NaN tagged) - next to the
    pods with their statuses and the nodes they are on, and Session.QueueAllocatedResources.

    [qmonitor_ok] recomputes from scratch, in exact rational arithmetic:
      allocated(q)   = sum over the pods of the jobs in q's subtree whose status holds resources
                       (Allocated, Pipelined, Binding, Bound, Running) of what they hold: cpu, memory, and the GPU
                       share  whole GPUs | devices x round(100 portion)/100 | gpu-memory: devices x
                       ceil(100 MiB / device memory OF THE NODE THE POD IS ON)/100;
      non-preemptible(q) = the same over non-preemptible jobs;
      requested(q)   = fixed at session open: pods in Allocated / Binding / Bound / Running with what they hold +
                       Pending pods with what they ask for, a gpu-memory request counting
                       devices x MiB / ClusterInfo.MinNodeGPUMemory GPUs.
    Believed = recomputed: exactly for CPU and memory, exactly for GPUs when every pod of the cluster asks for
    whole GPUs or none, otherwise within [gpu_tol] = 10^-9 GPU (float64 sums of at most 2^12 updates of totals
    below 2^10 GPUs are off by less than 2^12 * 2^10 * 2^-53 = 2^-31 < 10^-9; the driver's sessions are far
    smaller).  +Inf and NaN are never equal to anything.  The getter is compared with ITS OWN rule applied to the
    believed raw value (whole GPUs from 1 GPU on), so the known one-ulp drift of the float sum (known finding
    C13-queue-usage-float-drift: 2 + 0.3 - 0.3 = 1.9999999999999998, the getter says 1) is inside the tolerance on
    the raw value and consistent on the getter: it is not reported again here.  The recomputation charges a
    multi-device gpu-memory pod devices x portion, i.e. what the handlers charge; that the capacity GATES look at
    less (known finding C08-multidevice-gpu-memory) is not a statement about the books and does not show here. *)
From Coq Require Import QArith Qreduction Qround.
Open Scope Z_scope.

Inductive fl := FNum (m e : Z) | FInf (neg : bool) | FNaN.     (* float64: m * 2^e *)
Inductive gkind := GNone | GWhole (n : Z) | GFrac (hund ndev : Z) | GMem (mib ndev : Z).
Record qpod := mkQP { qp_job : positive; qp_cpu : Z; qp_mem : Z; qp_g : gkind }.
Record qjob := mkQJ { qj_queue : positive; qj_preempt : bool }.
(** [cpu; memory; gpu] of Allocated, AllocatedNotPreemptible, Request; Session.QueueAllocatedResources *)
Record qshare := mkQS { qs_alloc : list fl; qs_np : list fl; qs_req : list fl; qs_get : list fl }.
Record qobs := mkQO { qo_pods : list (positive * (status * Z)); qo_queues : list (positive * qshare) }.
Record qcase := mkQCase {
  qc_minmem : Z;                    (* ClusterInfo.MinNodeGPUMemory *)
  qc_nodes : list (Z * Z);          (* node -> MemoryOfEveryGpuOnNode *)
  qc_parent : amap Z;               (* every queue -> its parent (0: none) *)
  qc_jobs : amap qjob;
  qc_pods : amap qpod;
  qc_obs : list qobs;               (* the first one is taken right after session open *)
}.

Definition fl_q (f : fl) : option Q :=
  match f with
  | FNum m e => Some (if 0 <=? e then inject_Z (m * 2 ^ e) else Qred (Qmake m (Z.to_pos (2 ^ (- e)))))
  | _ => None
  end.

Fixpoint qchain (fuel : nat) (par : amap Z) (q : Z) : list positive :=
  match fuel with
  | O => []
  | S n => match q with
           | Zpos p => match alookup p par with Some up => p :: qchain n par up | None => [] end
           | _ => []
           end
  end.
Definition q_in_subtree (k : qcase) (a : positive) (jq : positive) : bool :=
  existsb (Pos.eqb a) (qchain (S (List.length (qc_parent k))) (qc_parent k) (Zpos jq)).

Fixpoint zlookup (x : Z) (l : list (Z * Z)) : option Z :=
  match l with [] => None | (y, v) :: r => if x =? y then Some v else zlookup x r end.

Definition ceil_div (a b : Z) : Z := (a + b - 1) / b.
(** GPUs a pod holds on [node] *)
Definition g_held (k : qcase) (node : Z) (g : gkind) : Q :=
  match g with
  | GNone => 0%Q
  | GWhole n => inject_Z n
  | GFrac h d => Qred (Qmake (h * d) 100)
  | GMem mib d => match zlookup node (qc_nodes k) with
                  | Some M => if 0 <? M then Qred (Qmake (ceil_div (100 * mib) M * d) 100) else 0%Q
                  | None => 0%Q
                  end
  end.
(** GPUs a Pending pod asks for *)
Definition g_pending (k : qcase) (g : gkind) : option Q :=
  match g with
  | GNone => Some 0%Q
  | GWhole n => Some (inject_Z n)
  | GFrac h d => Some (Qred (Qmake (h * d) 100))
  | GMem mib d => if 0 <? qc_minmem k then Some (Qred (Qmake (d * mib) (Z.to_pos (qc_minmem k)))) else None
  end.

Definition q3 := (Q * Q * Q)%type.
Definition q3_add (a b : q3) : q3 :=
  let '(a1, a2, a3) := a in let '(b1, b2, b3) := b in (Qred (a1 + b1), Qred (a2 + b2), Qred (a3 + b3))%Q.
Definition q3_zero : q3 := (0, 0, 0)%Q.

(** what pod [e] of an observation adds to queue [a]: (allocated, non-preemptible) *)
Definition held_part (k : qcase) (a : positive) (e : positive * (status * Z)) : option (q3 * q3) :=
  match alookup (fst e) (qc_pods k) with
  | None => None
  | Some p =>
      match alookup (qp_job p) (qc_jobs k) with
      | None => None
      | Some j =>
          if active_allocated (fst (snd e)) && q_in_subtree k a (qj_queue j) then
            let x := (inject_Z (qp_cpu p), inject_Z (qp_mem p), g_held k (snd (snd e)) (qp_g p)) in
            Some (x, if qj_preempt j then q3_zero else x)
          else Some (q3_zero, q3_zero)
      end
  end.
(** what it adds to Request at session open *)
Definition req_part (k : qcase) (a : positive) (e : positive * (status * Z)) : option q3 :=
  match alookup (fst e) (qc_pods k) with
  | None => None
  | Some p =>
      match alookup (qp_job p) (qc_jobs k) with
      | None => None
      | Some j =>
          if negb (q_in_subtree k a (qj_queue j)) then Some q3_zero
          else if allocated_status (fst (snd e)) then
            Some (inject_Z (qp_cpu p), inject_Z (qp_mem p), g_held k (snd (snd e)) (qp_g p))
          else if status_eqb (fst (snd e)) Pending then
            match g_pending k (qp_g p) with
            | Some g => Some (inject_Z (qp_cpu p), inject_Z (qp_mem p), g)
            | None => None
            end
          else Some q3_zero
      end
  end.

Fixpoint sum_opt {A B} (f : A -> option B) (add : B -> B -> B) (z : B) (l : list A) : option B :=
  match l with
  | [] => Some z
  | x :: r => match f x, sum_opt f add z r with Some v, Some acc => Some (add v acc) | _, _ => None end
  end.
Definition pair_add (a b : q3 * q3) : q3 * q3 := (q3_add (fst a) (fst b), q3_add (snd a) (snd b)).

Definition gpu_tol : Q := (1 # 1000000000)%Q.
Definition whole_only (k : qcase) : bool :=
  forallb (fun kv => match qp_g (snd kv) with GNone | GWhole _ => true | _ => false end) (qc_pods k).
Definition q_close (tol : Q) (believed : fl) (truth : Q) : bool :=
  match fl_q believed with
  | Some b => Qle_bool (Qred (b - truth)) tol && Qle_bool (Qred (truth - b)) tol
  | None => false
  end.
Definition q3_close (k : qcase) (bs : list fl) (t : q3) : bool :=
  let '(c, m, g) := t in
  match bs with
  | [bc; bm; bg] => q_close 0 bc c && q_close 0 bm m && q_close (if whole_only k then 0%Q else gpu_tol) bg g
  | _ => false
  end.

(** the getter's own rule: NewResourceRequirements(gpus, cpu, memory).GPUs() is the whole part from 1 GPU on, 0 up
    to 0, and the nearest hundredth in between (compared as the number of hundredths: 0.7 is not a float) *)
Definition hundredths (x : Q) : Z := Qfloor (x * 100 + (1 # 2))%Q.
Definition getter_gpu_ok (raw got : Q) : bool :=
  if Qle_bool 1 raw then Qeq_bool got (inject_Z (Qfloor raw))
  else if Qle_bool raw 0 then Qeq_bool got 0
  else (hundredths got =? hundredths raw) && q_close gpu_tol (FNum (hundredths raw) 0) (got * 100)%Q.
Definition getter_ok (sh : qshare) : bool :=
  match qs_alloc sh, qs_get sh with
  | [ac; am; ag], [gc; gm; gg] =>
      match fl_q ac, fl_q am, fl_q ag, fl_q gc, fl_q gm, fl_q gg with
      | Some ac, Some am, Some ag, Some gc, Some gm, Some gg =>
          Qeq_bool ac gc && Qeq_bool am gm && getter_gpu_ok ag gg
      | _, _, _, _, _, _ => false
      end
  | _, _ => false
  end.

Definition qqueue_ok (k : qcase) (open_pods pods : list (positive * (status * Z))) (qsh : positive * qshare) : bool :=
  let a := fst qsh in
  match sum_opt (held_part k a) pair_add (q3_zero, q3_zero) pods, sum_opt (req_part k a) q3_add q3_zero open_pods with
  | Some (al, np), Some rq =>
      q3_close k (qs_alloc (snd qsh)) al && q3_close k (qs_np (snd qsh)) np && q3_close k (qs_req (snd qsh)) rq
      && getter_ok (snd qsh)
  | _, _ => false
  end.

Definition qobs_ok (k : qcase) (open_pods : list (positive * (status * Z))) (o : qobs) : bool :=
  list_eqb Pos.eqb (map fst (qo_queues o)) (map fst (qc_parent k))
  && forallb (qqueue_ok k open_pods (qo_pods o)) (qo_queues o).

Definition qmonitor_ok (k : qcase) : bool :=
  match qc_obs k with
  | [] => false
  | o :: _ => forallb (qobs_ok k (qo_pods o)) (qc_obs k)
  end.
Definition qmonitor_first_bad (k : qcase) : option nat :=
  match qc_obs k with [] => None | o :: _ => first_bad (qobs_ok k (qo_pods o)) (qc_obs k) 0 end.
(** the queues the monitor rejects at observation [i] *)
Definition qmonitor_bad_queues (k : qcase) (i : nat) : list positive :=
  match qc_obs k, nth_error (qc_obs k) i with
  | o0 :: _, Some o => map fst (filter (fun x => negb (qqueue_ok k (qo_pods o0) (qo_pods o) x)) (qo_queues o))
  | _, _ => []
  end.

(** * Cases of the three kinds *)
Inductive case := CNode (k : ncase) | CJob (k : jcase) | CQueue (k : qcase).

Definition model_agrees (c : case) : bool := match c with CNode k => nmodel_agrees k | CJob k => jmodel_agrees k | CQueue _ => true end.
Definition monitor_ok (c : case) : bool := match c with CNode k => nmonitor_ok k | CJob k => jmonitor_ok k | CQueue k => qmonitor_ok k end.
Definition flags (c : case) : list nat := match c with CNode k => nflags k | CJob _ => [] | CQueue _ => [] end.
Definition run_flags (cs : list (nat * case)) : list (nat * list nat) :=
  filter (fun p => negb (Nat.eqb (List.length (snd p)) 0)) (map (fun c => (fst c, flags (snd c))) cs).

Definition run_mismatches (cs : list (nat * case)) : list nat := failing (fun k => negb (model_agrees k)) cs.
Definition run_monitor (cs : list (nat * case)) : list nat := failing (fun k => negb (monitor_ok k)) cs.
