(** Correspondence + monitor entry points for C07 (used by generated cases). *)
From Coq Require Export QArith.
From KaiV Require Export Run.Prelude Model.Reclaim Model.ReclaimSpec.

(** what one call of the real code did *)
Inductive obs := ObsTrue | ObsFalse | ObsPanic.

(** one direct call of strategies.FitsReclaimStrategy(reclaimer resources, queues[f_rq],
    queues[f_eq], f_rem) *)
Record fitcase := { f_rq : qid; f_eq : qid; f_rem : vec; f_obs : bool }.

Record case := {
  k_m : Q;                              (* saturation multiplier given to reclaimable.New *)
  k_qs : list queue;                    (* the queue map, sorted by id *)
  k_rc : reclaimer;
  k_victims : list (qid * list res);    (* the reclaimee map, sorted by queue id *)
  k_can : obs;                          (* observed: CanReclaimResources *)
  (* observed: Reclaimable was called repeatedly on the same input (Go randomises the
     iteration order of the reclaimee map); which outcomes were seen *)
  k_true : bool;
  k_false : bool;
  k_panic : bool;
  k_fits : list fitcase;                (* observed: FitsReclaimStrategy *)
}.

Fixpoint inserts {A} (x : A) (l : list A) : list (list A) :=
  match l with
  | [] => [[x]]
  | y :: r => (x :: l) :: map (cons y) (inserts x r)
  end.
Fixpoint perms {A} (l : list A) : list (list A) :=
  match l with
  | [] => [[]]
  | x :: r => flat_map (inserts x) (perms r)
  end.

Definition is_res (o : obs) (r : result bool) : bool :=
  match o, r with
  | ObsTrue, Ok true | ObsFalse, Ok false | ObsPanic, Panic => true
  | _, _ => false
  end.

Definition implb' (a b : bool) : bool := if a then b else true.

Definition fit_agrees (k : case) (f : fitcase) : bool :=
  match lookup (k_qs k) (f_rq f), lookup (k_qs k) (f_eq f) with
  | Some rq, Some eq => Bool.eqb (fits_strategy (rc_res (k_rc k)) rq eq (f_rem f)) (f_obs f)
  | _, _ => false
  end.

Definition model_agrees (k : case) : bool :=
  let outcomes := map (reclaimable (k_m k) (k_qs k) (k_rc k)) (perms (k_victims k)) in
  is_res (k_can k) (can_reclaim (k_qs k) (k_rc k))
  && implb' (k_true k) (existsb (is_res ObsTrue) outcomes)
  && implb' (k_false k) (existsb (is_res ObsFalse) outcomes)
  && implb' (k_panic k) (existsb (is_res ObsPanic) outcomes)
  && (k_true k || k_false k || k_panic k)
  && forallb (fit_agrees k) (k_fits k).

(** the clauses of the property for one examination order, recomputed from the scenario
    with the declarative functions of ReclaimSpec.v *)
Definition clauses (k : case) (order : list (qid * list res)) : bool :=
  victims_unprotected (k_qs k) (rc_queue (k_rc k)) [] (flatten order)
  && nonpreemptible_within_quota (k_qs k) (k_rc k)
  && (negb (antichain_keys (k_qs k) (map fst order)) || negb (Qgtb (k_m k) 0)
      || saturation_order (k_m k) (k_qs k) (k_rc k) order).

Definition fit_monitor (k : case) (f : fitcase) : bool :=
  match lookup (k_qs k) (f_eq f) with
  | Some eq => implb' (f_obs f && no_sentinelb (f_rem f)) (negb (protectedb eq (f_rem f)))
  | None => false
  end.

(** The property itself, evaluated on what the real code returned. *)
Definition monitor_ok (k : case) : bool :=
  let req := quantify (rc_res (k_rc k)) in
  (* CanReclaimResources said yes => reclaimer's queue within fair share (and quota) *)
  (match k_can k with
   | ObsTrue =>
       match lookup (k_qs k) (rc_queue (k_rc k)) with
       | Some q => within_allb (vadd (alloc_vec q) req) (fair_vec q)
                   && (rc_preemptible (k_rc k) || within_allb (vadd (allocnp_vec q) req) (deserved_vec q))
       | None => false
       end
   | _ => true
   end)
  (* Reclaimable said yes under some iteration order => under some order no protected queue
     was touched, the non-preemptible bound holds up the tree and the saturation order holds *)
  && implb' (k_true k) (existsb (clauses k) (perms (k_victims k)))
  (* FitsReclaimStrategy said yes => the reclaimee queue was not protected *)
  && forallb (fit_monitor k) (k_fits k).

Definition run_mismatches (cs : list (nat * case)) : list nat := failing (fun k => negb (model_agrees k)) cs.
Definition run_monitor (cs : list (nat * case)) : list nat := failing (fun k => negb (monitor_ok k)) cs.
