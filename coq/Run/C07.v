(** Correspondence + monitor entry points for C07 (used by generated cases). *)
From Coq Require Export QArith.
From KaiV Require Export Run.Prelude Model.Reclaim Model.ReclaimSpec Model.ReclaimSession.

(** what one call of the real code did *)
Inductive obs := ObsTrue | ObsFalse | ObsPanic.

(** one direct call of strategies.FitsReclaimStrategy(reclaimer resources, queues[f_rq],
    queues[f_eq], f_rem) *)
Record fitcase := { f_rq : qid; f_eq : qid; f_rem : vec; f_obs : bool }.

Record fcase := {
  k_m : Q;                              (* saturation multiplier given to reclaimable.New *)
  k_qs : list queue;                    (* the queue map, sorted by id *)
  k_rc : reclaimer;
  k_victims : list (qid * list res);    (* the reclaimee map, sorted by queue id *)
  k_can : obs;                          (* observed: CanReclaimResources *)
  (* observed: Reclaimable was called repeatedly on the same input (Go randomises the
     iteration order of the reclaimee map); which outcomes were seen *)
  k_true : bool;
  k_false : bool;
  k_panic : bool;
  k_fits : list fitcase;                (* observed: FitsReclaimStrategy *)
}.

Fixpoint inserts {A} (x : A) (l : list A) : list (list A) :=
  match l with
  | [] => [[x]]
  | y :: r => (x :: l) :: map (cons y) (inserts x r)
  end.
Fixpoint perms {A} (l : list A) : list (list A) :=
  match l with
  | [] => [[]]
  | x :: r => flat_map (inserts x) (perms r)
  end.

Definition is_res (o : obs) (r : result bool) : bool :=
  match o, r with
  | ObsTrue, Ok true | ObsFalse, Ok false | ObsPanic, Panic => true
  | _, _ => false
  end.

Definition implb' (a b : bool) : bool := if a then b else true.

Definition fit_agrees (k : fcase) (f : fitcase) : bool :=
  match lookup (k_qs k) (f_rq f), lookup (k_qs k) (f_eq f) with
  | Some rq, Some eq => Bool.eqb (fits_strategy (rc_res (k_rc k)) rq eq (f_rem f)) (f_obs f)
  | _, _ => false
  end.

Definition fn_agrees (k : fcase) : bool :=
  let outcomes := map (reclaimable (k_m k) (k_qs k) (k_rc k)) (perms (k_victims k)) in
  is_res (k_can k) (can_reclaim (k_qs k) (k_rc k))
  && implb' (k_true k) (existsb (is_res ObsTrue) outcomes)
  && implb' (k_false k) (existsb (is_res ObsFalse) outcomes)
  && implb' (k_panic k) (existsb (is_res ObsPanic) outcomes)
  && (k_true k || k_false k || k_panic k)
  && forallb (fit_agrees k) (k_fits k).

(** the clauses of the property for one examination order, recomputed from the scenario
    with the declarative functions of ReclaimSpec.v *)
Definition clauses_on (m : Q) (qs : list queue) (rc : reclaimer) (order : list (qid * list res)) : bool :=
  victims_unprotected qs (rc_queue rc) [] (flatten order)
  && nonpreemptible_within_quota qs rc
  && (negb (antichain_keys qs (map fst order)) || negb (Qgtb m 0)
      || saturation_order m qs rc order).

Definition clauses (k : fcase) (order : list (qid * list res)) : bool :=
  clauses_on (k_m k) (k_qs k) (k_rc k) order.

(** the gate: the reclaimer's queue within fair share (and, not preemptible, within quota) *)
Definition gate_ok (qs : list queue) (rc : reclaimer) : bool :=
  let req := quantify (rc_res rc) in
  match lookup qs (rc_queue rc) with
  | Some q => within_allb (vadd (alloc_vec q) req) (fair_vec q)
              && (rc_preemptible rc || within_allb (vadd (allocnp_vec q) req) (deserved_vec q))
  | None => false
  end.

Definition fit_monitor (k : fcase) (f : fitcase) : bool :=
  match lookup (k_qs k) (f_eq f) with
  | Some eq => implb' (f_obs f && no_sentinelb (f_rem f)) (negb (protectedb eq (f_rem f)))
  | None => false
  end.

(** The property itself, evaluated on what the real code returned. *)
Definition fn_monitor (k : fcase) : bool :=
  (* CanReclaimResources said yes => reclaimer's queue within fair share (and quota) *)
  (match k_can k with
   | ObsTrue => gate_ok (k_qs k) (k_rc k)
   | _ => true
   end)
  (* Reclaimable said yes under some iteration order => under some order no protected queue
     was touched, the non-preemptible bound holds up the tree and the saturation order holds *)
  && implb' (k_true k) (existsb (clauses k) (perms (k_victims k)))
  (* FitsReclaimStrategy said yes => the reclaimee queue was not protected *)
  && forallb (fit_monitor k) (k_fits k).

(** * Whole sessions: the real allocate and reclaim actions on a generated cluster *)

(** a pod of the session's snapshot; all pods of a job form one gang *)
Record pod := {
  p_id : positive;
  p_job : positive;
  p_queue : qid;        (* leaf queue of the job *)
  p_res : res;          (* what the proportion plugin charges for it *)
  p_preempt : bool;     (* the job is preemptible *)
  p_alloc : bool;       (* allocated (running) in the snapshot *)
}.

(** the cache calls of one committed reclaim statement, in call order: Evict calls naming one
    preemptor job, then TaskPipelined calls (the reclaimer's pods, and victims that were moved
    to another node instead of being evicted for good) *)
Record rcalls := { e_preemptor : positive; e_evicted : list positive; e_piped : list positive }.

Record scase := {
  z_m : Q;
  z_qs : list queue;           (* tree, deserved quota, limit, fair share of the session; the
                                  allocation fields are not used: they are recomputed below *)
  z_pods : list pod;
  z_bound : list positive;     (* pods bound / pipelined by the allocate action before reclaim *)
  z_commits : list rcalls;
}.

Inductive case := Fn (k : fcase) | Ssn (s : scase).

Definition memp (x : positive) (l : list positive) : bool := existsb (Pos.eqb x) l.
Definition vzero : vec := mkvec 0 0 0.
Definition rzero : res := {| r_cpu := 0; r_mem := 0; r_gpus := 0; r_mig := 0 |}.
Definition radd (a b : res) : res :=
  {| r_cpu := Qred (r_cpu a + r_cpu b); r_mem := Qred (r_mem a + r_mem b);
     r_gpus := Qred (r_gpus a + r_gpus b); r_mig := Qred (r_mig a + r_mig b) |}.
Definition vaddr (a b : vec) : vec :=
  mkvec (Qred (v_cpu a + v_cpu b)) (Qred (v_mem a + v_mem b)) (Qred (v_gpu a + v_gpu b)).

(** The truth at one point of the session: every queue's allocation recomputed from the pods
    that are allocated at that point ([live]), each pod charged to its queue and to every
    ancestor; the non-preemptible allocation from the pods of non-preemptible jobs. *)
Definition truth (qs : list queue) (pods : list pod) (live : list positive) : list queue :=
  map (fun q =>
         let mine := filter (fun p => memp (p_id p) live && on_chain qs (p_queue p) (q_id q)) pods in
         set_queue_alloc q
           (fold_left (fun acc p => vaddr acc (quantify (p_res p))) mine vzero)
           (fold_left (fun acc p => if p_preempt p then acc else vaddr acc (quantify (p_res p))) mine vzero))
      qs.

(** the victims of a commit: evicted and not placed again by the same statement; one entry per
    job (all pods of a job are core pods of one gang: proportion.getVictimResources sums them),
    grouped by leaf queue *)
Definition victim_pods (pods : list pod) (e : rcalls) : list pod :=
  filter (fun p => memp (p_id p) (e_evicted e) && negb (memp (p_id p) (e_piped e))) pods.

Definition job_sums (ps : list pod) : list (positive * (qid * res)) :=
  fold_left (fun acc p => match aget acc (p_job p) with
                          | Some (q, r) => aset acc (p_job p) (q, radd r (p_res p))
                          | None => aset acc (p_job p) (p_queue p, radd rzero (p_res p))
                          end) ps [].

Definition by_queue (js : list (positive * (qid * res))) : list (qid * list res) :=
  fold_left (fun acc j => match aget acc (fst (snd j)) with
                          | Some l => aset acc (fst (snd j)) (l ++ [snd (snd j)])
                          | None => aset acc (fst (snd j)) [snd (snd j)]
                          end) js [].

(** the reclaimer of a commit: the preemptor job's pods that the statement placed *)
Definition reclaimer_of (pods : list pod) (e : rcalls) : option reclaimer :=
  let mine := filter (fun p => memp (p_id p) (e_piped e) && Pos.eqb (p_job p) (e_preemptor e)) pods in
  match mine with
  | [] => None
  | p :: _ => Some {| rc_queue := p_queue p;
                      rc_res := fold_left (fun a x => radd a (p_res x)) mine rzero;
                      rc_preemptible := p_preempt p |}
  end.

(** every order in which the reclaimee map and the victims of one queue may have been examined
    (bounded: beyond 5 victims only the orders of the queues, beyond 4 queues only one) *)
Fixpoint inner_orders (v : list (qid * list res)) : list (list (qid * list res)) :=
  match v with
  | [] => [[]]
  | (k, l) :: r => flat_map (fun l' => map (cons (k, l')) (inner_orders r)) (perms l)
  end.
Definition orders (v : list (qid * list res)) : list (list (qid * list res)) :=
  if (List.length v <=? 4)%nat
  then (if (List.length (flatten v) <=? 5)%nat then flat_map inner_orders (perms v) else perms v)
  else [v].

Definition veqb (a b : vec) : bool :=
  forallb (fun r => Qeq_bool (vget a r) (vget b r)) all_res.
Fixpoint same_alloc (a b : list queue) : bool :=
  match a, b with
  | [], [] => true
  | x :: ra, y :: rb => Pos.eqb (q_id x) (q_id y) && veqb (alloc_vec x) (alloc_vec y)
                        && veqb (allocnp_vec x) (allocnp_vec y) && same_alloc ra rb
  | _, _ => false
  end.

(** One pass over the commits.  Before commit k the allocations are the truth recomputed from
    the pods allocated at that point: snapshot pods, pods bound by allocate, minus the pods
    evicted by commits 1..k-1, plus the pods those commits placed.
    First component (refinement): the model's gate and validator, evaluated on that truth, accept
    the reclaimer and the victim set the real action committed.
    Second component (monitor): the clauses of C07 hold on that truth. *)
Fixpoint session_loop (m : Q) (qs : list queue) (pods : list pod) (live : list positive)
         (cs : list rcalls) : bool * bool :=
  match cs with
  | [] => (true, true)
  | e :: r =>
      let st := truth qs pods live in
      let live' := filter (fun x => negb (memp x (e_evicted e))) live ++ e_piped e in
      let here :=
        match reclaimer_of pods e with
        | None => (false, true)
        | Some rc =>
            let os := orders (by_queue (job_sums (victim_pods pods e))) in
            let vs := by_queue (job_sums (victim_pods pods e)) in
            (is_ok_true (can_reclaim st rc) && existsb (fun o => is_ok_true (reclaimable m st rc o)) os
             (* the model's state update (ReclaimSession.apply_commit, the one the session theorems
                are about) yields the truth recomputed from the pods after the commit *)
             && same_alloc (apply_commit st {| c_rc := rc; c_victims := vs |}) (truth qs pods live'),
             gate_ok st rc && existsb (clauses_on m st rc) os)
        end in
      let rest := session_loop m qs pods live' r in
      (fst here && fst rest, snd here && snd rest)
  end.

Definition live0 (s : scase) : list positive :=
  map p_id (filter p_alloc (z_pods s)) ++ z_bound s.

Definition ssn_agrees (s : scase) : bool :=
  fst (session_loop (z_m s) (z_qs s) (z_pods s) (live0 s) (z_commits s)).
Definition ssn_monitor (s : scase) : bool :=
  snd (session_loop (z_m s) (z_qs s) (z_pods s) (live0 s) (z_commits s)).

Definition model_agrees (c : case) : bool :=
  match c with Fn k => fn_agrees k | Ssn s => ssn_agrees s end.
Definition monitor_ok (c : case) : bool :=
  match c with Fn k => fn_monitor k | Ssn s => ssn_monitor s end.

Definition run_mismatches (cs : list (nat * case)) : list nat := failing (fun k => negb (model_agrees k)) cs.
Definition run_monitor (cs : list (nat * case)) : list nat := failing (fun k => negb (monitor_ok k)) cs.
