(** C01 lifted to the replay function the cycle-level check evaluates
    (Run/Cycle.v): if every call of a cycle is admissible ([replay] returns
    [ok = true]) then no node ends with a negative idle amount of CPU, memory,
    pod slots, MIG instances or extended resources — whatever the calls are. *)
From Coq Require Import List ZArith PArith Bool Lia Permutation.
From KaiV Require Import Model.Res Model.Status Model.AMap Model.Node Model.NodeSpec
     Proofs.Node Proofs.Admissible Run.NodeObs Run.Cycle.
Import ListNotations.
Set Default Timeout 60.
Open Scope Z_scope.

Definition NodesNN (ns : amap node) : Prop := Forall (fun kn => NonNegIdle (snd kn)) ns.
Definition TasksWf (ts : list tinfo) : Prop := Forall (fun ti => wf_req (ti_task ti)) ts.

Lemma alookup_in {V} k (v : V) m : alookup k m = Some v -> In (k, v) m.
Proof.
  induction m as [|[k' v'] m IH]; cbn [alookup]; [discriminate|].
  destruct (Pos.eqb_spec k k') as [->|N]; intros H; [inversion H; now left|right; now apply IH].
Qed.

Lemma Forall_aset_val {V} (P : positive * V -> Prop) k v m : P (k, v) -> Forall P m -> Forall P (aset k v m).
Proof.
  intros Pk. induction m as [|[k' v'] m IH]; intros F; cbn [aset]; [constructor; [exact Pk|constructor]|].
  inversion F; subst. destruct (Pos.compare k k'); constructor; auto.
Qed.

Lemma NodesNN_set ns nid n : NodesNN ns -> NonNegIdle n -> NodesNN (aset nid n ns).
Proof. intros F N. apply Forall_aset_val; assumption. Qed.

Lemma NodesNN_get ns nid n : NodesNN ns -> alookup nid ns = Some n -> NonNegIdle n.
Proof.
  intros F A. apply alookup_in in A. unfold NodesNN in F. rewrite Forall_forall in F. exact (F _ A).
Qed.

Lemma find_ti_wf ts p ti : TasksWf ts -> find_ti ts p = Some ti -> wf_req (ti_task ti).
Proof.
  unfold find_ti. intros W F. apply find_some in F as [I _]. unfold TasksWf in W. rewrite Forall_forall in W. now apply W.
Qed.

Lemma wf_with_status t s gs : wf_req t -> wf_req (with_status t s gs).
Proof. unfold wf_req, with_status, is_shared. cbn. auto. Qed.

Lemma charge_with_status t s gs : charge (with_status t s gs) = charge t.
Proof. reflexivity. Qed.

(** the Bind guard of the replay keeps the idle columns non-negative *)
Lemma bind_guard_keeps_nn n t gs :
  wf_req t -> NonNegIdle n -> bind_guard n t gs = true -> nn (rsub (n_idle n) (charge t)).
Proof.
  intros W N G. unfold bind_guard in G. destruct (is_shared t) eqn:S.
  - destruct W as (Hr & Hg & Hs & Hb).
    apply andb_true_iff in G as [G _]. apply andb_true_iff in G as [G _]. apply andb_true_iff in G as [_ L].
    destruct Hr as (R1&R2&R3&R4&R5). destruct N as (N1&N2&N3&N4&N5).
    destruct (charge_nogpu t) as (C1&C2&C3&C4&C5).
    unfold nn. cbn [rsub cpu mem pods mig ext]. rewrite C1, C2, C3, C4, C5.
    unfold base_le in L.
    apply andb_true_iff in L as [L L4]. apply andb_true_iff in L as [L L3]. apply andb_true_iff in L as [L1 L2].
    apply Z.leb_le in L1, L2.
    pose proof (scal_le_sub _ _ R3 N3 L3). pose proof (scal_le_sub _ _ R5 N5 L4).
    rewrite (Hs S). repeat split; lia.
  - apply guard_keeps_nn; assumption.
Qed.

(** evictions of this cycle hit pods that occupy their node (not pods that were only nominated) *)
Definition evicts_occupying (ns : amap node) (c : call) : bool :=
  match c with
  | CEvict p _ _ =>
      match holder ns p with
      | Some nid => match alookup nid ns with
                    | Some n => match alookup p (n_pods n) with
                                | Some t0 => negb (status_eqb (t_status t0) Pipelined)
                                | None => true
                                end
                    | None => true
                    end
      | None => true
      end
  | _ => true
  end.

Lemma add_keeps n t n' : add_task n t = Ok n' -> nn (d_idle t (n_idle n)) -> NonNegIdle n'.
Proof. intros H N. unfold NonNegIdle. eapply nn_eq_nogpu; [apply eq_nogpu_sym, (add_idle _ _ _ H)|exact N]. Qed.

Lemma consolidate_idle n t n' :
  consolidate_to_different_gpu n t = Ok n' -> eq_nogpu (n_idle n') (d_idle t (n_idle n)).
Proof.
  unfold consolidate_to_different_gpu, add_task_gen. destruct (amem (t_id t) (n_pods n) && negb (is_shared t && true)); [discriminate|].
  intros H. injection H as <-.
  destruct (add_resources_spec (set_pods n (aset (t_id t) t (n_pods n))) t) as [F _].
  destruct F as (_&_&_&_&_&Fi&_). exact Fi.
Qed.

(** one admissible call keeps every node's idle columns non-negative *)
Lemma apply_call_nn ts ns c ns' :
  TasksWf ts -> NodesNN ns ->
  Forall (fun kn => Forall wf_req (tasks_of (snd kn)) /\ wf_pods (n_pods (snd kn))) ns ->
  evicts_occupying ns c = true ->
  apply_call ts ns c = Some (ns', true) -> NodesNN ns'.
Proof.
  intros TW NN WF EO H. destruct c as [p nid gs|p act pre|p nid gs]; cbn [apply_call] in H.
  - destruct (find_ti ts p) as [ti|] eqn:F; [|discriminate].
    destruct (alookup nid ns) as [n|] eqn:A; [|discriminate].
    destruct (add_task n (with_status (ti_task ti) Allocated gs)) as [n1|] eqn:E; [|discriminate].
    inversion H; subst. apply NodesNN_set; [exact NN|].
    eapply add_keeps; [exact E|].
    rewrite d_idle_other by (cbn; discriminate). rewrite charge_with_status.
    pose proof (bind_guard_keeps_nn n (with_status (ti_task ti) Allocated gs) gs) as K.
    rewrite charge_with_status in K. apply K; [apply wf_with_status, (find_ti_wf _ _ _ TW F)|exact (NodesNN_get _ _ _ NN A)|assumption].
  - destruct (holder ns p) as [nid|] eqn:Ho; [|discriminate].
    destruct (alookup nid ns) as [n|] eqn:A; [|discriminate].
    destruct (alookup p (n_pods n)) as [t0|] eqn:A0; [|discriminate].
    destruct (update_task n (with_status t0 Releasing (t_groups t0))) as [n1|] eqn:E; [|discriminate].
    inversion H; subst. apply NodesNN_set; [exact NN|].
    cbn [evicts_occupying] in EO. rewrite Ho, A, A0 in EO. apply negb_true_iff in EO.
    (* update = remove t0 (occupying) then add the same charge as Releasing *)
    destruct (update_task_inv _ _ _ E) as (n2 & E1 & E2).
    destruct (remove_idle _ _ _ E1) as (t0' & A0' & I1).
    assert (Wn : Forall wf_req (tasks_of n) /\ wf_pods (n_pods n)).
    { apply alookup_in in A. rewrite Forall_forall in WF. exact (WF _ A). }
    destruct Wn as [Wn WP].
    assert (Hid : t_id t0 = p).
    { destruct WP as [_ Fid]. apply alookup_in in A0. rewrite Forall_forall in Fid. exact (Fid _ A0). }
    cbn [with_status t_id] in A0'. rewrite Hid, A0 in A0'. inversion A0'; subst t0'.
    pose proof (NodesNN_get _ _ _ NN A) as N0.
    pose proof (add_idle _ _ _ E2) as I2.
    unfold NonNegIdle. eapply nn_eq_nogpu; [apply eq_nogpu_sym, I2|].
    rewrite d_idle_other by (cbn; discriminate). rewrite charge_with_status.
    assert (U : u_idle t0 (n_idle n) = radd (n_idle n) (charge t0)).
    { unfold u_idle. destruct (t_status t0); try reflexivity. discriminate. }
    rewrite U in I1. destruct I1 as (e1&e2&e3&e4&e5). destruct N0 as (a1&a2&a3&a4&a5).
    unfold nn. cbn [rsub radd cpu mem pods mig ext] in *. repeat split; lia.
  - destruct (find_ti ts p) as [ti|] eqn:F; [|discriminate].
    destruct (alookup nid ns) as [n|] eqn:A; [|discriminate].
    pose proof (NodesNN_get _ _ _ NN A) as N0.
    destruct (alookup p (n_pods n)) as [t0|] eqn:A0.
    + (* already on this node: moved in place; the nominated copy takes nothing from idle *)
      destruct (is_shared (with_status (ti_task ti) Pipelined gs) && negb (list_eqb Pos.eqb gs (t_groups t0))).
      * destruct (consolidate_to_different_gpu n (with_status (ti_task ti) Pipelined gs)) as [n1|] eqn:E; [|discriminate].
        inversion H; subst. apply NodesNN_set; [exact NN|].
        unfold NonNegIdle. eapply nn_eq_nogpu; [apply eq_nogpu_sym, (consolidate_idle _ _ _ E)|].
        rewrite d_idle_pipelined by reflexivity. exact N0.
      * destruct (update_task n (with_status (ti_task ti) Pipelined gs)) as [n1|] eqn:E; [|discriminate].
        inversion H; subst. apply NodesNN_set; [exact NN|].
        destruct (update_task_inv _ _ _ E) as (n2 & E1 & E2).
        destruct (remove_idle _ _ _ E1) as (t0' & A0' & I1).
        assert (Wn : Forall wf_req (tasks_of n) /\ wf_pods (n_pods n)).
        { apply alookup_in in A. rewrite Forall_forall in WF. exact (WF _ A). }
        destruct Wn as [Wn WP].
        pose proof (add_idle _ _ _ E2) as I2.
        unfold NonNegIdle. eapply nn_eq_nogpu; [apply eq_nogpu_sym, I2|].
        rewrite d_idle_pipelined by reflexivity.
        eapply nn_eq_nogpu; [apply eq_nogpu_sym, I1|].
        apply u_idle_nn; [|exact N0].
        apply nn_charge. unfold tasks_of in Wn. rewrite Forall_forall in Wn. apply Wn.
        apply alookup_in in A0'. apply (in_map snd) in A0'. exact A0'.
    + destruct (add_task n (with_status (ti_task ti) Pipelined gs)) as [n1|] eqn:E; [|discriminate].
      inversion H; subst. apply NodesNN_set; [exact NN|].
      eapply add_keeps; [exact E|]. rewrite d_idle_pipelined by reflexivity. exact N0.
Qed.

(** ** Lifting to a whole cycle *)

Definition node_wf (n : node) : Prop := Forall wf_req (tasks_of n) /\ wf_pods (n_pods n).
Definition NodesWf (ns : amap node) : Prop := Forall (fun kn => node_wf (snd kn)) ns.

Lemma wf_pods_add n t n' : wf_pods (n_pods n) -> add_task n t = Ok n' -> wf_pods (n_pods n').
Proof.
  intros [Sk Fk] H. destruct (add_task_inv _ _ _ H) as [_ ->].
  rewrite n_pods_add_resources. cbn [n_pods set_pods]. split; [apply sorted_aset; exact Sk|apply Forall_aset; [exact Fk|reflexivity]].
Qed.

Lemma wf_pods_remove n id n' : wf_pods (n_pods n) -> remove_task n id = Ok n' -> wf_pods (n_pods n').
Proof.
  intros [Sk Fk] H. destruct (remove_task_inv _ _ _ H) as (t' & _ & ->).
  rewrite n_pods_remove_resources. cbn [n_pods set_pods]. split; [apply sorted_adel; exact Sk|apply Forall_adel; exact Fk].
Qed.

Lemma node_wf_add n t n' : node_wf n -> wf_req t -> add_task n t = Ok n' -> node_wf n'.
Proof. intros [W P] Wt H. split; [eapply Wf_add; eassumption|eapply wf_pods_add; eassumption]. Qed.

Lemma node_wf_remove n id n' : node_wf n -> remove_task n id = Ok n' -> node_wf n'.
Proof. intros [W P] H. split; [eapply Wf_remove; eassumption|eapply wf_pods_remove; eassumption]. Qed.

Lemma node_wf_update n t n' : node_wf n -> wf_req t -> update_task n t = Ok n' -> node_wf n'.
Proof.
  intros W Wt H. destruct (update_task_inv _ _ _ H) as (n1 & H1 & H2).
  eapply node_wf_add; [eapply node_wf_remove; eassumption|exact Wt|exact H2].
Qed.

Lemma Forall_map_aset {V} (P : V -> Prop) k v (m : amap V) :
  P v -> Forall P (map snd m) -> Forall P (map snd (aset k v m)).
Proof.
  intros Pv. induction m as [|[k' v'] m IH]; intros F; cbn [aset map snd]; [constructor; [exact Pv|constructor]|].
  cbn [map snd] in F. inversion F; subst.
  destruct (Pos.compare k k'); cbn [map snd]; repeat constructor; auto.
Qed.

Lemma node_wf_consolidate n t n' :
  node_wf n -> wf_req t -> consolidate_to_different_gpu n t = Ok n' -> node_wf n'.
Proof.
  intros [W [Sk Fk]] Wt. unfold consolidate_to_different_gpu, add_task_gen.
  destruct (amem (t_id t) (n_pods n) && negb (is_shared t && true)); [discriminate|].
  intros H. injection H as <-. split.
  - unfold tasks_of. rewrite n_pods_add_resources. cbn [n_pods set_pods]. apply Forall_map_aset; assumption.
  - rewrite n_pods_add_resources. cbn [n_pods set_pods]. split; [apply sorted_aset; exact Sk|apply Forall_aset; [exact Fk|reflexivity]].
Qed.

Lemma NodesWf_get ns nid n : NodesWf ns -> alookup nid ns = Some n -> node_wf n.
Proof. intros F A. apply alookup_in in A. unfold NodesWf in F. rewrite Forall_forall in F. exact (F _ A). Qed.

Lemma NodesWf_set ns nid n : NodesWf ns -> node_wf n -> NodesWf (aset nid n ns).
Proof. intros F N. apply (Forall_aset_val (fun kn => node_wf (snd kn))); assumption. Qed.

Lemma lookup_wf n p t0 : node_wf n -> alookup p (n_pods n) = Some t0 -> wf_req t0.
Proof.
  intros [W _] A. unfold tasks_of in W. rewrite Forall_forall in W. apply W.
  apply alookup_in in A. apply (in_map snd) in A. exact A.
Qed.

Lemma apply_call_wf ts ns c ns' ok :
  TasksWf ts -> NodesWf ns -> apply_call ts ns c = Some (ns', ok) -> NodesWf ns'.
Proof.
  intros TW WF H. destruct c as [p nid gs|p act pre|p nid gs]; cbn [apply_call] in H.
  - destruct (find_ti ts p) as [ti|] eqn:F; [|discriminate].
    destruct (alookup nid ns) as [n|] eqn:A; [|discriminate].
    destruct (add_task n (with_status (ti_task ti) Allocated gs)) as [n1|] eqn:E; [|discriminate].
    inversion H; subst. apply NodesWf_set; [exact WF|].
    eapply node_wf_add; [exact (NodesWf_get _ _ _ WF A)|apply wf_with_status, (find_ti_wf _ _ _ TW F)|exact E].
  - destruct (holder ns p) as [nid|]; [|discriminate].
    destruct (alookup nid ns) as [n|] eqn:A; [|discriminate].
    destruct (alookup p (n_pods n)) as [t0|] eqn:A0; [|discriminate].
    destruct (update_task n (with_status t0 Releasing (t_groups t0))) as [n1|] eqn:E; [|discriminate].
    inversion H; subst. apply NodesWf_set; [exact WF|].
    pose proof (NodesWf_get _ _ _ WF A) as Wn.
    eapply node_wf_update; [exact Wn|apply wf_with_status, (lookup_wf _ _ _ Wn A0)|exact E].
  - destruct (find_ti ts p) as [ti|] eqn:F; [|discriminate].
    destruct (alookup nid ns) as [n|] eqn:A; [|discriminate].
    pose proof (NodesWf_get _ _ _ WF A) as Wn.
    pose proof (wf_with_status _ Pipelined gs (find_ti_wf _ _ _ TW F)) as Wt.
    destruct (alookup p (n_pods n)) as [t0|].
    + destruct (is_shared (with_status (ti_task ti) Pipelined gs) && negb (list_eqb Pos.eqb gs (t_groups t0))).
      * destruct (consolidate_to_different_gpu n (with_status (ti_task ti) Pipelined gs)) as [n1|] eqn:E; [|discriminate].
        inversion H; subst. apply NodesWf_set; [exact WF|]. eapply node_wf_consolidate; eassumption.
      * destruct (update_task n (with_status (ti_task ti) Pipelined gs)) as [n1|] eqn:E; [|discriminate].
        inversion H; subst. apply NodesWf_set; [exact WF|]. eapply node_wf_update; eassumption.
    + destruct (add_task n (with_status (ti_task ti) Pipelined gs)) as [n1|] eqn:E; [|discriminate].
      inversion H; subst. apply NodesWf_set; [exact WF|]. eapply node_wf_add; eassumption.
Qed.

(** every eviction of the cycle hits a pod that occupies its node at that point of the replay *)
Fixpoint all_evict_occupying (ts : list tinfo) (ns : amap node) (cs : list call) : bool :=
  match cs with
  | [] => true
  | c :: r => evicts_occupying ns c
              && match apply_call ts ns c with
                 | Some (ns1, _) => all_evict_occupying ts ns1 r
                 | None => true
                 end
  end.

Theorem cycle_idle_never_negative ts : forall cs ns ns',
  TasksWf ts -> NodesWf ns -> NodesNN ns ->
  all_evict_occupying ts ns cs = true ->
  replay ts ns cs = Some (ns', true) -> NodesNN ns'.
Proof.
  induction cs as [|c cs IH]; intros ns ns' TW WF NN EO H; cbn [replay] in H.
  - inversion H; subst. exact NN.
  - cbn [all_evict_occupying] in EO. apply andb_true_iff in EO as [EO1 EO2].
    destruct (apply_call ts ns c) as [[ns1 ok]|] eqn:E; [|discriminate].
    destruct (replay ts ns1 cs) as [[ns2 ok2]|] eqn:E2; [|discriminate].
    inversion H; subst. apply andb_true_iff in H2 as [-> ->].
    eapply IH; [exact TW|eapply apply_call_wf; eassumption| |exact EO2|exact E2].
    eapply apply_call_nn; eassumption.
Qed.
