(** C14 / C02 — the whole-GPU idle / releasing columns of a node that hosts
    shared-GPU work, and the device-count clause of C02.

    Proofs/Node.v proves the books invariant [Books] for every column except the
    whole-GPU idle / releasing counts, and those two only for nodes without
    shared pods.  Here they are proved for nodes WITH shared pods, on every
    history along which no nominated (Pipelined) pod holds GPUs on the node
    (the negation of [exposed] of Model/NodeSpec.v).  With such a pod the code's
    device-count guards make the counts history dependent
    (C14_device_guard_refuted) and the statement is false
    ([full_books_needs_no_nominated] below).

    Contents
      1. counting lemmas (duplicate-free lists, sorted association lists)
      2. well-formed tasks, "no nominated GPU holder", spec-level bounds
      3. the map-level invariant [MInv] and the four shared-group steps
      4. folds over a task's groups; add_resources / remove_resources
      5. [FullBooks]: definition, equivalence with the map-level invariant,
         preservation by add / remove / update and by operation sequences
      6. devices in use <= GPU count; guarded binds keep idle GPUs >= 0;
         guarded histories
      7. non-vacuity, necessity of the side conditions
      8. the same for the replay of a cycle (Run/Cycle.v) *)
Set Default Timeout 60.
From Coq Require Import List ZArith PArith Bool Lia ZifyBool Permutation.
From KaiV Require Import Model.Res Model.Status Model.AMap Model.Node Model.NodeSpec Proofs.Node Run.NodeObs Run.Cycle.
Import ListNotations.
Open Scope Z_scope.

(** * 1. Counting *)

Lemma length_filter_perm (P1 P2 : positive -> bool) l1 l2 :
  NoDup l1 -> NoDup l2 ->
  (forall x, (In x l1 /\ P1 x = true) <-> (In x l2 /\ P2 x = true)) ->
  List.length (filter P1 l1) = List.length (filter P2 l2).
Proof.
  intros N1 N2 H. apply Permutation_length, NoDup_Permutation.
  - apply NoDup_filter. exact N1.
  - apply NoDup_filter. exact N2.
  - intros x. rewrite !filter_In. apply H.
Qed.

Lemma length_perm_filter (P2 : positive -> bool) l1 l2 :
  NoDup l1 -> NoDup l2 ->
  (forall x, In x l1 <-> (In x l2 /\ P2 x = true)) ->
  List.length l1 = List.length (filter P2 l2).
Proof.
  intros N1 N2 H. apply Permutation_length, NoDup_Permutation.
  - exact N1.
  - apply NoDup_filter. exact N2.
  - intros x. rewrite filter_In. apply H.
Qed.

Lemma existsb_eqb_In g l : existsb (Pos.eqb g) l = true <-> In g l.
Proof.
  rewrite existsb_exists. split.
  - intros (x & Hx & E). apply Pos.eqb_eq in E. subst. exact Hx.
  - intros H. exists g. split; [exact H|apply Pos.eqb_refl].
Qed.

Lemma nodup_pos_cons g l :
  nodup_pos (g :: l) = if existsb (Pos.eqb g) (nodup_pos l) then nodup_pos l else g :: nodup_pos l.
Proof. reflexivity. Qed.

Lemma nodup_pos_In g l : In g (nodup_pos l) <-> In g l.
Proof.
  revert g. induction l as [|x l IH]; intros g; [reflexivity|].
  rewrite nodup_pos_cons. destruct (existsb (Pos.eqb x) (nodup_pos l)) eqn:E.
  - apply existsb_eqb_In in E. apply IH in E. cbn [In]. rewrite IH. intuition (subst; assumption).
  - cbn [In]. rewrite IH. reflexivity.
Qed.

Lemma nodup_pos_NoDup l : NoDup (nodup_pos l).
Proof.
  induction l as [|x l IH]; [constructor|].
  rewrite nodup_pos_cons. destruct (existsb (Pos.eqb x) (nodup_pos l)) eqn:E; [exact IH|].
  constructor; [|exact IH]. intros H. apply existsb_eqb_In in H. congruence.
Qed.

Lemma alookup_None_iff {V} k (m : amap V) : alookup k m = None <-> ~ In k (akeys m).
Proof.
  induction m as [|[k' v'] r IH]; cbn [alookup akeys map fst In].
  - intuition.
  - fold (akeys r). destruct (Pos.eqb_spec k k') as [E|N].
    + subst. split; [discriminate|]. intros H. exfalso. apply H. left. reflexivity.
    + rewrite IH. intuition congruence.
Qed.

Lemma marked_In g mk : marked g mk = true <-> In g (akeys mk).
Proof.
  unfold marked, amem. pose proof (alookup_None_iff g mk) as H.
  destruct (alookup g mk) as [v|].
  - split; [|reflexivity]. intros _. destruct (in_dec Pos.eq_dec g (akeys mk)) as [I|NI]; [exact I|].
    apply H in NI. discriminate.
  - split; [discriminate|]. intros I. exfalso. apply (proj1 H eq_refl). exact I.
Qed.

Lemma zget_nonzero_In g (u : amap Z) : zget g u <> 0 -> In g (akeys u).
Proof.
  intros H. destruct (in_dec Pos.eq_dec g (akeys u)) as [I|NI]; [exact I|].
  apply alookup_None_iff in NI. unfold zget in H. rewrite NI in H. contradiction.
Qed.

Lemma sorted_lb_notin {V} k (r : amap V) : Forall (fun kv => (k < fst kv)%positive) r -> ~ In k (akeys r).
Proof.
  intros F I. unfold akeys in I. apply in_map_iff in I as ([k' v'] & E & I). cbn in E. subst k'.
  rewrite Forall_forall in F. specialize (F _ I). cbn in F. lia.
Qed.

Lemma sorted_NoDup {V} (m : amap V) : sorted_keys m -> NoDup (akeys m).
Proof.
  induction m as [|[k v] r IH]; cbn [sorted_keys akeys map fst]; [constructor|].
  fold (akeys r). intros [F S]. constructor; [apply sorted_lb_notin; exact F|apply IH; exact S].
Qed.

Lemma usg_keys u :
  sorted_keys u ->
  used_shared_gpus u = Z.of_nat (List.length (filter (fun g => 0 <? zget g u) (akeys u))).
Proof.
  induction u as [|[k v] r IH]; [reflexivity|].
  intros [F S]. rewrite usg_cons, (IH S). cbn [akeys map fst filter]. fold (akeys r).
  rewrite zget_cons, Pos.eqb_refl.
  assert (E : filter (fun g => 0 <? zget g ((k, v) :: r)) (akeys r) = filter (fun g => 0 <? zget g r) (akeys r)).
  { apply filter_ext_in. intros g I. rewrite zget_cons.
    destruct (Pos.eqb_spec g k) as [->|N]; [|reflexivity].
    exfalso. exact (sorted_lb_notin _ _ F I). }
  rewrite E. unfold posb. destruct (0 <? v); cbn [List.length]; lia.
Qed.

(** two sorted maps that agree through [zget] have the same number of devices in use *)
Lemma usg_ext u1 u2 :
  sorted_keys u1 -> sorted_keys u2 -> (forall g, zget g u1 = zget g u2) ->
  used_shared_gpus u1 = used_shared_gpus u2.
Proof.
  intros S1 S2 E. rewrite (usg_keys _ S1), (usg_keys _ S2). f_equal.
  apply length_filter_perm; [apply sorted_NoDup; exact S1|apply sorted_NoDup; exact S2|].
  intros x. rewrite E. split; intros [I P]; (split; [|exact P]); apply zget_nonzero_In; rewrite ?E; lia.
Qed.

Lemma length_aset_new {V} k (v : V) m :
  alookup k m = None -> List.length (aset k v m) = S (List.length m).
Proof.
  intros A. pose proof (Permutation_length (perm_aset k v m A)) as L.
  rewrite !map_length in L. cbn [List.length] in L. rewrite map_length in L. exact L.
Qed.

Lemma length_adel_old {V} k (t : V) m :
  alookup k m = Some t -> List.length m = S (List.length (adel k m)).
Proof.
  intros A. pose proof (Permutation_length (perm_adel k t m A)) as L.
  rewrite !map_length in L. cbn [List.length] in L. rewrite map_length in L. exact L.
Qed.

Lemma marks_len_aset g mk :
  marked g mk = false -> Z.of_nat (List.length (aset g tt mk)) = Z.of_nat (List.length mk) + 1.
Proof.
  unfold marked, amem. intros M. destruct (alookup g mk) eqn:A; [discriminate|].
  rewrite (length_aset_new _ _ _ A). lia.
Qed.

Lemma marks_len_adel g mk :
  marked g mk = true -> Z.of_nat (List.length (adel g mk)) = Z.of_nat (List.length mk) - 1.
Proof.
  unfold marked, amem. intros M. destruct (alookup g mk) as [v|] eqn:A; [|discriminate].
  rewrite (length_adel_old _ _ _ A). lia.
Qed.

(** * 2. Well-formed tasks, no nominated GPU holder, spec-level bounds *)

(** a request is well formed for the device count when it asks for a
    non-negative number of whole GPUs and, if shared, for a positive amount of
    device memory *)
Definition task_wf (t : task) : bool :=
  (0 <=? gpu (t_req t)) && (negb (is_shared t) || (0 <? t_gmem t)).

(** a nominated (Pipelined) pod that holds GPUs: exactly the pods that make a
    node [exposed] (Model/NodeSpec.v) *)
Definition nominated_holder (t : task) : bool := is_st Pipelined t && holds_gpu t.
Definition no_nominated_gpu (ts : list task) : bool := negb (existsb nominated_holder ts).

Lemma exposed_no_nominated ts moved :
  no_nominated_gpu ts = true -> exposed ts moved = false.
Proof.
  unfold no_nominated_gpu, exposed, nominated_holder. intros H. apply negb_true_iff in H.
  rewrite H. apply andb_false_r.
Qed.

Definition TW (ts : list task) : Prop := Forall (fun t => task_wf t = true) ts.
Definition NH (ts : list task) : Prop := Forall (fun t => nominated_holder t = false) ts.

Lemma TW_forallb ts : forallb task_wf ts = true <-> TW ts.
Proof. unfold TW. rewrite forallb_forall, Forall_forall. reflexivity. Qed.

Lemma NH_bool ts : no_nominated_gpu ts = true <-> NH ts.
Proof.
  unfold no_nominated_gpu, NH. rewrite negb_true_iff, Forall_forall. split.
  - intros H t I. destruct (nominated_holder t) eqn:E; [|reflexivity].
    assert (X : existsb nominated_holder ts = true) by (apply existsb_exists; exists t; split; assumption).
    congruence.
  - intros H. destruct (existsb nominated_holder ts) eqn:E; [|reflexivity].
    apply existsb_exists in E as (t & I & E). rewrite (H t I) in E. discriminate.
Qed.

Lemma gpu_charge_cases t : gpu (charge t) = 0 \/ gpu (charge t) = gpu (t_req t).
Proof. unfold charge. destruct (is_shared t || t_resv t); [left|right]; reflexivity. Qed.

Lemma gpu_charge_nonneg t : task_wf t = true -> 0 <= gpu (charge t).
Proof. unfold task_wf. intros W. destruct (gpu_charge_cases t); lia. Qed.

Lemma status_is_st t s : is_st s t = true <-> t_status t = s.
Proof. unfold is_st. destruct (t_status t), s; cbn; split; intros; try discriminate; reflexivity. Qed.

(** what "not a nominated holder" gives for a Pipelined task *)
Lemma nh_pipelined t :
  task_wf t = true -> nominated_holder t = false -> t_status t = Pipelined ->
  gpu (charge t) = 0 /\ (is_shared t = true -> t_groups t = []).
Proof.
  intros W N P. pose proof (gpu_charge_nonneg t W) as C.
  unfold nominated_holder in N. rewrite (proj2 (status_is_st t Pipelined) P) in N. cbn [andb] in N.
  unfold holds_gpu in N. apply orb_false_iff in N as [N1 N2]. split; [lia|].
  intros S. rewrite S in N2. cbn [andb] in N2. apply negb_false_iff in N2.
  apply Nat.eqb_eq in N2. destruct (t_groups t); [reflexivity|discriminate].
Qed.

Lemma nh_not_pipelined t : t_status t <> Pipelined -> nominated_holder t = false.
Proof.
  intros P. unfold nominated_holder. destruct (is_st Pipelined t) eqn:E; [|reflexivity].
  apply status_is_st in E. contradiction.
Qed.

Lemma occurrences_nonneg g t : 0 <= occurrences g t.
Proof. unfold occurrences. destruct (is_shared t); lia. Qed.

(** memory a task puts on device [g] *)
Definition occm (g : positive) (t : task) : Z := occurrences g t * t_gmem t.

Lemma occm_nonneg g t : task_wf t = true -> 0 <= occm g t.
Proof.
  unfold occm, task_wf, occurrences. intros W. destruct (is_shared t); cbn [negb orb] in W; [|lia].
  apply Z.mul_nonneg_nonneg; lia.
Qed.

Lemma occm_pipelined g t :
  task_wf t = true -> nominated_holder t = false -> t_status t = Pipelined -> occm g t = 0.
Proof.
  intros W N P. destruct (nh_pipelined t W N P) as [_ G]. unfold occm, occurrences.
  destruct (is_shared t); [|reflexivity]. rewrite (G eq_refl). reflexivity.
Qed.

(** whole GPUs: used = allocatable - idle (recomputed), when nominated pods hold none *)
Lemma gpu_used_idle al ts : TW ts -> NH ts -> gpu (spec_used ts) = gpu al - gpu (spec_idle al ts).
Proof.
  induction ts as [|t ts IH]; intros W N.
  - unfold spec_used, spec_idle. cbn. lia.
  - inversion W as [|? ? Wt Wr]; subst. inversion N as [|? ? Nt Nr]; subst.
    rewrite spec_used_cons, spec_idle_cons. specialize (IH Wr Nr).
    unfold d_idle. destruct (t_status t) eqn:E; cbn [gpu radd rsub]; try lia.
    destruct (nh_pipelined t Wt Nt E) as [C _]. lia.
Qed.

Lemma spec_bounds g ts :
  TW ts -> NH ts ->
  0 <= spec_grel g ts /\ spec_grel g ts <= spec_gused g ts /\ spec_galloc g ts = spec_gused g ts.
Proof.
  induction ts as [|t ts IH]; intros W N.
  - unfold spec_grel, spec_gused, spec_galloc, group_mem. cbn. lia.
  - inversion W as [|? ? Wt Wr]; subst. inversion N as [|? ? Nt Nr]; subst.
    rewrite spec_gused_cons, spec_galloc_cons, spec_grel_cons. specialize (IH Wr Nr).
    fold (occm g t). pose proof (occm_nonneg g t Wt) as O.
    unfold gd_alloc, gd_rel. destruct (t_status t) eqn:E; try lia.
    rewrite (occm_pipelined g t Wt Nt E). lia.
Qed.

Lemma occ_pos_in' g gs : occ g gs <> 0 -> In g gs.
Proof.
  induction gs as [|x gs IH]; [unfold occ; cbn; lia|].
  rewrite occ_cons. destruct (Pos.eqb_spec g x) as [->|Ne]; [now left|]. intros H. right. apply IH. lia.
Qed.

Lemma all_groups_cons t ts :
  all_groups (t :: ts) = (if is_shared t then t_groups t else []) ++ all_groups ts.
Proof. reflexivity. Qed.

Lemma gused_nonzero_in g ts : spec_gused g ts <> 0 -> In g (all_groups ts).
Proof.
  induction ts as [|t ts IH].
  - unfold spec_gused, group_mem. cbn. lia.
  - rewrite spec_gused_cons, all_groups_cons. intros H. apply in_or_app.
    destruct (Z.eq_dec (occurrences g t * t_gmem t) 0) as [Z0|NZ].
    + right. apply IH. lia.
    + left. unfold occurrences in NZ. destruct (is_shared t); [|lia].
      apply occ_pos_in'. unfold occ. intros Z0. rewrite Z0 in NZ. lia.
Qed.

(** * 3. The map-level invariant *)

(** the releasing marks name exactly the devices all of whose used memory is releasing *)
Definition marks_ok (n : node) : Prop :=
  forall g, marked g (g_mark n) = true <-> (0 < zget g (g_used n) /\ zget g (g_rel n) = zget g (g_used n)).

(** [w]: whole GPUs of terminating minus nominated regular pods *)
Definition MInv (n : node) (w : Z) : Prop :=
  sorted_keys (g_used n) /\ sorted_keys (g_mark n)
  /\ gpu (n_idle n) + used_gpus n (g_used n) = n_ngpu n
  /\ gpu (n_rel n) = w + Z.of_nat (List.length (g_mark n))
  /\ marks_ok n.

(** releasing memory of a device is within its used memory *)
Definition Range (n : node) : Prop := forall g, 0 <= zget g (g_rel n) /\ zget g (g_rel n) <= zget g (g_used n).

(** the four branches of add_shared_group / remove_shared_group that can run
    when nominated pods hold no device *)
Definition asg_other (n : node) (m : Z) (g : positive) : node :=
  let u := zadd g m (g_used n) in
  let a := zadd g m (g_alloc n) in
  let idle1 := if (zget g u <=? m) && (n_ngpu n <? gpu (n_idle n) + used_gpus n u)
               then add_gpu (n_idle n) (-1) else n_idle n in
  let '(rel1, mk1) := if marked g (g_mark n) then (add_gpu (n_rel n) (-1), adel g (g_mark n))
                      else (n_rel n, g_mark n) in
  set_groups n idle1 rel1 u a (g_rel n) mk1.

Definition asg_rel (n : node) (m : Z) (g : positive) : node :=
  let u := zadd g m (g_used n) in
  let r := zadd g m (g_rel n) in
  let a := zadd g m (g_alloc n) in
  if zget g u =? zget g r then
    let '(rel1, mk1) := if marked g (g_mark n) then (n_rel n, g_mark n)
                        else (add_gpu (n_rel n) 1, aset g tt (g_mark n)) in
    let idle1 := if n_ngpu n <? gpu (n_idle n) + used_gpus n u then add_gpu (n_idle n) (-1) else n_idle n in
    set_groups n idle1 rel1 u a r mk1
  else set_groups n (n_idle n) (n_rel n) u a r (g_mark n).

Definition rsg_other (n : node) (m : Z) (g : positive) : node :=
  let u := zadd g (- m) (g_used n) in
  let a := zadd g (- m) (g_alloc n) in
  let idle1 := if (zget g u <=? 0) && (gpu (n_idle n) + used_gpus n u <=? n_ngpu n)
               then add_gpu (n_idle n) 1 else n_idle n in
  let '(rel1, mk1) := if gpu_releasing_from_shared u (g_rel n) g && negb (marked g (g_mark n))
                      then (add_gpu (n_rel n) 1, aset g tt (g_mark n))
                      else (n_rel n, g_mark n) in
  set_groups n idle1 rel1 u a (g_rel n) mk1.

Definition rsg_rel (n : node) (m : Z) (g : positive) : node :=
  let u := zadd g (- m) (g_used n) in
  let r := zadd g (- m) (g_rel n) in
  let a := zadd g (- m) (g_alloc n) in
  if zget g u <=? 0 then
    let idle1 := if gpu (n_idle n) + used_gpus n u <=? n_ngpu n then add_gpu (n_idle n) 1 else n_idle n in
    let '(rel1, mk1) := if marked g (g_mark n) then (add_gpu (n_rel n) (-1), adel g (g_mark n))
                        else (n_rel n, g_mark n) in
    set_groups n idle1 rel1 u a r mk1
  else set_groups n (n_idle n) (n_rel n) u a r (g_mark n).

Lemma asg_other_eq n t g :
  t_status t <> Pipelined -> t_status t <> Releasing -> add_shared_group n t g = asg_other n (t_gmem t) g.
Proof. unfold add_shared_group, asg_other. destruct (t_status t); try reflexivity; congruence. Qed.

Lemma asg_rel_eq n t g : t_status t = Releasing -> add_shared_group n t g = asg_rel n (t_gmem t) g.
Proof. unfold add_shared_group, asg_rel. intros ->. reflexivity. Qed.

Lemma rsg_other_eq n t g :
  t_status t <> Pipelined -> t_status t <> Releasing -> remove_shared_group n t g = rsg_other n (t_gmem t) g.
Proof. unfold remove_shared_group, rsg_other. destruct (t_status t); try reflexivity; congruence. Qed.

Lemma rsg_rel_eq n t g : t_status t = Releasing -> remove_shared_group n t g = rsg_rel n (t_gmem t) g.
Proof. unfold remove_shared_group, rsg_rel. intros ->. reflexivity. Qed.

Ltac node_fields :=
  cbn [g_used g_alloc g_rel g_mark n_idle n_used n_rel n_ngpu n_alloc n_gpumem n_pods
       set_groups set_core set_pods gpu add_gpu with_gpu].

Ltac destruct_ifs :=
  repeat match goal with |- context [if ?c then _ else _] => destruct c eqn:? end.

Lemma eqb_neq_false g' g : g' <> g -> Pos.eqb g' g = false.
Proof. intros N. apply Pos.eqb_neq. exact N. Qed.

(* marks of one group after a step, other groups untouched *)
Ltac marks_other Ng Sm :=
  rewrite ?zget_zadd, ?(eqb_neq_false _ _ Ng), ?(marked_adel_other _ _ _ Ng), ?(marked_aset_other _ _ _ Ng).

Lemma asg_other_step n m g w :
  MInv n w -> Range n -> 0 < m ->
  let n' := asg_other n m g in
  MInv n' w /\ Range n'
  /\ gpu (n_idle n') = gpu (n_idle n) - (if zget g (g_used n) =? 0 then 1 else 0)
  /\ g_used n' = zadd g m (g_used n).
Proof.
  intros (Su & Sm & T & Rq & MK) Rg M n'. subst n'.
  pose proof (Rg g) as [R0 R1]. pose proof (MK g) as MKg.
  unfold asg_other, MInv, Range, marks_ok, used_gpus in *.
  rewrite zget_zadd, Pos.eqb_refl.
  destruct (marked g (g_mark n)) eqn:Mk;
  match goal with |- context [if ?c then add_gpu _ _ else _] => destruct c eqn:G end;
  node_fields; rewrite ?(usg_zadd _ _ _ Su) in *; unfold posb in *.
  all: (split; [|split; [|split]]); [split; [|split; [|split; [|split]]]| | |reflexivity].
  all: try (apply sorted_zadd; exact Su).
  all: try (apply sorted_adel; exact Sm).
  all: try exact Sm.
  all: try (rewrite marks_len_adel by exact Mk).
  all: try (split_all_ifs; lia).
  all: try (intros g'; pose proof (Rg g'); rewrite zget_zadd; destruct (Pos.eqb g' g); lia).
  all: try (intros g'; destruct (Pos.eq_dec g' g) as [->|Ng];
            [ rewrite ?zget_zadd, ?Pos.eqb_refl, ?(marked_adel_same _ _ Sm), ?Mk; split; [discriminate|lia]
            | marks_other Ng Sm; first [apply MK | apply Rg] ]).
Qed.

Ltac marks_same Sm Mk :=
  rewrite ?zget_zadd, ?Pos.eqb_refl, ?marked_aset_same, ?(marked_adel_same _ _ Sm), ?Mk.

Lemma asg_rel_step n m g w :
  MInv n w -> Range n -> 0 < m ->
  let n' := asg_rel n m g in
  MInv n' w /\ Range n'
  /\ gpu (n_idle n') = gpu (n_idle n) - (if zget g (g_used n) =? 0 then 1 else 0)
  /\ g_used n' = zadd g m (g_used n).
Proof.
  intros (Su & Sm & T & Rq & MK) Rg M n'. subst n'.
  pose proof (Rg g) as [R0 R1]. pose proof (MK g) as MKg.
  unfold asg_rel, MInv, Range, marks_ok, used_gpus in *.
  rewrite !zget_zadd, Pos.eqb_refl.
  destruct (zget g (g_used n) + m =? zget g (g_rel n) + m) eqn:Q;
  destruct (marked g (g_mark n)) eqn:Mk;
  try match goal with |- context [if ?c then add_gpu _ _ else _] => destruct c eqn:G end;
  node_fields; rewrite ?(usg_zadd _ _ _ Su) in *; unfold posb in *.
  all: (split; [|split; [|split]]); [split; [|split; [|split; [|split]]]| | |reflexivity].
  all: try (apply sorted_zadd; exact Su).
  all: try (apply sorted_aset; exact Sm).
  all: try exact Sm.
  all: try (rewrite marks_len_aset by exact Mk).
  all: try (split_all_ifs; lia).
  all: try (intros g'; pose proof (Rg g'); rewrite !zget_zadd; destruct (Pos.eqb g' g); lia).
  all: try (intros g'; destruct (Pos.eq_dec g' g) as [->|Ng];
            [ marks_same Sm Mk; lia
            | marks_other Ng Sm; apply MK ]).
Qed.

Lemma rsg_other_step n m g w :
  MInv n w -> Range n -> 0 < m -> zget g (g_rel n) + m <= zget g (g_used n) ->
  let n' := rsg_other n m g in
  MInv n' w /\ Range n'
  /\ gpu (n_idle n) <= gpu (n_idle n')
  /\ g_used n' = zadd g (- m) (g_used n) /\ g_rel n' = g_rel n.
Proof.
  intros (Su & Sm & T & Rq & MK) Rg M Pre n'. subst n'.
  pose proof (Rg g) as [R0 R1]. pose proof (MK g) as MKg.
  unfold rsg_other, MInv, Range, marks_ok, used_gpus in *.
  rewrite grfs_zadd, !zget_zadd, Pos.eqb_refl.
  destruct (marked g (g_mark n)) eqn:Mk; [exfalso; lia|].
  match goal with |- context [if ?c then (add_gpu _ _, _) else _] => destruct c eqn:C end;
  match goal with |- context [if ?c then add_gpu _ _ else _] => destruct c eqn:G end;
  node_fields; rewrite ?(usg_zadd _ _ _ Su) in *; unfold posb in *.
  all: (split; [|split; [|split; [|split]]]); [split; [|split; [|split; [|split]]]| | |reflexivity|reflexivity].
  all: try (apply sorted_zadd; exact Su).
  all: try (apply sorted_aset; exact Sm).
  all: try exact Sm.
  all: try (rewrite marks_len_aset by exact Mk).
  all: try (split_all_ifs; lia).
  all: try (intros g'; pose proof (Rg g'); rewrite !zget_zadd; destruct (Pos.eqb_spec g' g); [subst|]; lia).
  all: try (intros g'; destruct (Pos.eq_dec g' g) as [->|Ng];
            [ marks_same Sm Mk; lia
            | marks_other Ng Sm; apply MK ]).
Qed.

Lemma rsg_rel_step n m g w :
  MInv n w -> Range n -> 0 < m -> m <= zget g (g_rel n) ->
  let n' := rsg_rel n m g in
  MInv n' w /\ Range n'
  /\ gpu (n_idle n) <= gpu (n_idle n')
  /\ g_used n' = zadd g (- m) (g_used n) /\ g_rel n' = zadd g (- m) (g_rel n).
Proof.
  intros (Su & Sm & T & Rq & MK) Rg M Pre n'. subst n'.
  pose proof (Rg g) as [R0 R1]. pose proof (MK g) as MKg.
  unfold rsg_rel, MInv, Range, marks_ok, used_gpus in *.
  rewrite !zget_zadd, Pos.eqb_refl.
  destruct (zget g (g_used n) + - m <=? 0) eqn:Q;
  destruct (marked g (g_mark n)) eqn:Mk;
  try match goal with |- context [if ?c then add_gpu _ _ else _] => destruct c eqn:G end;
  node_fields; rewrite ?(usg_zadd _ _ _ Su) in *; unfold posb in *.
  all: (split; [|split; [|split; [|split]]]); [split; [|split; [|split; [|split]]]| | |reflexivity|reflexivity].
  all: try (apply sorted_zadd; exact Su).
  all: try (apply sorted_adel; exact Sm).
  all: try exact Sm.
  all: try (rewrite marks_len_adel by exact Mk).
  all: try (split_all_ifs; lia).
  all: try (intros g'; pose proof (Rg g'); rewrite !zget_zadd; destruct (Pos.eqb_spec g' g); [subst|]; lia).
  all: try (intros g'; destruct (Pos.eq_dec g' g) as [->|Ng];
            [ marks_same Sm Mk; lia
            | marks_other Ng Sm; apply MK ]).
Qed.

(** * 4. Folds over a task's groups *)

Lemma status_eqb_eq a b : status_eqb a b = true <-> a = b.
Proof. destruct a, b; cbn; split; intros; try discriminate; reflexivity. Qed.

Lemma status_eqb_neq a b : status_eqb a b = false <-> a <> b.
Proof.
  split.
  - intros E H. apply status_eqb_eq in H. congruence.
  - intros H. destruct (status_eqb a b) eqn:E; [|reflexivity]. apply status_eqb_eq in E. contradiction.
Qed.

Lemma asg_step n t g w :
  t_status t <> Pipelined -> 0 < t_gmem t -> MInv n w -> Range n ->
  let n' := add_shared_group n t g in
  MInv n' w /\ Range n'
  /\ gpu (n_idle n') = gpu (n_idle n) - (if zget g (g_used n) =? 0 then 1 else 0)
  /\ g_used n' = zadd g (t_gmem t) (g_used n).
Proof.
  intros P M I R. destruct (status_eqb (t_status t) Releasing) eqn:E.
  - apply status_eqb_eq in E. cbv zeta. rewrite (asg_rel_eq _ _ _ E). apply asg_rel_step; assumption.
  - apply status_eqb_neq in E. cbv zeta. rewrite (asg_other_eq _ _ _ P E). apply asg_other_step; assumption.
Qed.

(** groups of [gs] that carry no memory yet *)
Definition fresh_in (n : node) (gs : list positive) : Z :=
  Z.of_nat (List.length (filter (fun g => zget g (g_used n) =? 0) gs)).

Lemma filter_length_mono {A} (P Q : A -> bool) l :
  (forall x, P x = true -> Q x = true) -> (List.length (filter P l) <= List.length (filter Q l))%nat.
Proof.
  intros H. induction l as [|x l IH]; cbn [filter]; [lia|].
  destruct (P x) eqn:Px.
  - rewrite (H x Px). cbn [List.length]. lia.
  - destruct (Q x); cbn [List.length]; lia.
Qed.

Lemma fold_asg t gs : forall n w,
  t_status t <> Pipelined -> 0 < t_gmem t -> MInv n w -> Range n ->
  let n' := fold_left (fun acc g => add_shared_group acc t g) gs n in
  MInv n' w /\ Range n' /\ gpu (n_idle n) - fresh_in n gs <= gpu (n_idle n').
Proof.
  induction gs as [|g0 gs IH]; intros n w P M I R; cbn [fold_left].
  - split; [exact I|]. split; [exact R|]. unfold fresh_in. cbn. lia.
  - destruct (asg_step n t g0 w P M I R) as (I1 & R1 & Id1 & U1).
    destruct (IH _ w P M I1 R1) as (I2 & R2 & Id2).
    split; [exact I2|]. split; [exact R2|].
    assert (Mono : fresh_in (add_shared_group n t g0) gs <= fresh_in n gs).
    { unfold fresh_in. apply inj_le. apply filter_length_mono. intros x Hx.
      rewrite U1, zget_zadd in Hx. pose proof (R x). destruct (Pos.eqb x g0); lia. }
    unfold fresh_in in *. cbn [filter]. rewrite Id1 in Id2.
    destruct (zget g0 (g_used n) =? 0); cbn [List.length]; lia.
Qed.

Lemma occ_nonneg g gs : 0 <= occ g gs.
Proof. unfold occ. lia. Qed.

Lemma fold_rsg_other t gs : forall n w,
  t_status t <> Pipelined -> t_status t <> Releasing -> 0 < t_gmem t -> MInv n w -> Range n ->
  (forall g, zget g (g_rel n) + occ g gs * t_gmem t <= zget g (g_used n)) ->
  let n' := fold_left (fun acc g => remove_shared_group acc t g) gs n in
  MInv n' w /\ Range n' /\ gpu (n_idle n) <= gpu (n_idle n').
Proof.
  induction gs as [|g0 gs IH]; intros n w P Q M I R Pre; cbn [fold_left].
  - split; [exact I|]. split; [exact R|]. lia.
  - rewrite (rsg_other_eq _ _ _ P Q).
    assert (Pre0 : zget g0 (g_rel n) + t_gmem t <= zget g0 (g_used n)).
    { specialize (Pre g0). rewrite occ_cons, Pos.eqb_refl in Pre. pose proof (occ_nonneg g0 gs). nia. }
    destruct (rsg_other_step n (t_gmem t) g0 w I R M Pre0) as (I1 & R1 & Id1 & U1 & Rl1).
    destruct (IH (rsg_other n (t_gmem t) g0) w P Q M I1 R1) as (I2 & R2 & Id2).
    { intros g. rewrite U1, Rl1, zget_zadd. specialize (Pre g). rewrite occ_cons in Pre.
      destruct (Pos.eqb g g0); lia. }
    split; [exact I2|]. split; [exact R2|]. lia.
Qed.

Lemma fold_rsg_rel t gs : forall n w,
  t_status t = Releasing -> 0 < t_gmem t -> MInv n w -> Range n ->
  (forall g, occ g gs * t_gmem t <= zget g (g_rel n)) ->
  let n' := fold_left (fun acc g => remove_shared_group acc t g) gs n in
  MInv n' w /\ Range n' /\ gpu (n_idle n) <= gpu (n_idle n').
Proof.
  induction gs as [|g0 gs IH]; intros n w P M I R Pre; cbn [fold_left].
  - split; [exact I|]. split; [exact R|]. lia.
  - rewrite (rsg_rel_eq _ _ _ P).
    assert (Pre0 : t_gmem t <= zget g0 (g_rel n)).
    { specialize (Pre g0). rewrite occ_cons, Pos.eqb_refl in Pre. pose proof (occ_nonneg g0 gs). nia. }
    destruct (rsg_rel_step n (t_gmem t) g0 w I R M Pre0) as (I1 & R1 & Id1 & U1 & Rl1).
    destruct (IH (rsg_rel n (t_gmem t) g0) w P M I1 R1) as (I2 & R2 & Id2).
    { intros g. rewrite Rl1, zget_zadd. specialize (Pre g). rewrite occ_cons in Pre.
      destruct (Pos.eqb g g0); lia. }
    split; [exact I2|]. split; [exact R2|]. lia.
Qed.

(** add_core / remove_core (the part before the fold) *)
Lemma MInv_add_core n t x :
  MInv n (gpu x) -> (t_status t = Pipelined -> gpu (charge t) = 0) ->
  MInv (add_core n t) (gpu (d_rel t x)).
Proof.
  intros (Su & Sm & T & Rq & MK) P. unfold MInv, add_core, marks_ok, used_gpus in *. node_fields.
  split; [exact Su|]. split; [exact Sm|]. split; [|split; [|exact MK]].
  - unfold d_idle. destruct (t_status t) eqn:E; cbn [gpu radd rsub]; try lia. specialize (P eq_refl). lia.
  - unfold d_rel. destruct (t_status t); cbn [gpu radd rsub]; lia.
Qed.

Lemma MInv_remove_core n t x :
  MInv n (gpu (d_rel t x)) -> (t_status t = Pipelined -> gpu (charge t) = 0) ->
  MInv (remove_core n t) (gpu x).
Proof.
  intros (Su & Sm & T & Rq & MK) P. unfold MInv, remove_core, marks_ok, used_gpus in *. node_fields.
  split; [exact Su|]. split; [exact Sm|]. split; [|split; [|exact MK]].
  - unfold u_idle. destruct (t_status t) eqn:E; cbn [gpu radd rsub]; try lia. specialize (P eq_refl). lia.
  - revert Rq. unfold u_rel, d_rel. destruct (t_status t); cbn [gpu radd rsub]; lia.
Qed.

Lemma gpu_d_idle_np t r : t_status t <> Pipelined -> gpu (d_idle t r) = gpu r - gpu (charge t).
Proof. unfold d_idle. destruct (t_status t); cbn [gpu rsub]; try reflexivity. congruence. Qed.

Lemma gpu_u_idle_ge t r : 0 <= gpu (charge t) -> gpu r <= gpu (u_idle t r).
Proof. unfold u_idle. destruct (t_status t); cbn [gpu radd]; lia. Qed.

Lemma shared_mem_pos t : task_wf t = true -> is_shared t = true -> 0 < t_gmem t.
Proof. unfold task_wf. intros W S. rewrite S in W. cbn [negb orb] in W. lia. Qed.

Lemma MInv_add_resources n t x :
  MInv n (gpu x) -> Range n -> task_wf t = true -> nominated_holder t = false ->
  let n' := add_resources n t in
  MInv n' (gpu (d_rel t x))
  /\ (t_status t <> Pipelined ->
      gpu (n_idle n) - gpu (charge t) - (if is_shared t then fresh_in n (t_groups t) else 0) <= gpu (n_idle n'))
  /\ (t_status t = Pipelined -> gpu (n_idle n') = gpu (n_idle n)).
Proof.
  intros I R W N. cbv zeta. rewrite add_resources_eq.
  assert (IdP : t_status t = Pipelined -> gpu (n_idle (add_core n t)) = gpu (n_idle n)).
  { intros P. unfold add_core, d_idle. node_fields. rewrite P. reflexivity. }
  assert (PC : t_status t = Pipelined -> gpu (charge t) = 0).
  { intros P. apply (nh_pipelined t W N P). }
  pose proof (MInv_add_core n t x I PC) as I1.
  assert (R1 : Range (add_core n t)) by exact R.
  assert (Id1 : t_status t <> Pipelined -> gpu (n_idle (add_core n t)) = gpu (n_idle n) - gpu (charge t)).
  { intros P. unfold add_core. node_fields. apply gpu_d_idle_np. exact P. }
  destruct (is_shared t) eqn:S.
  - destruct (status_eqb (t_status t) Pipelined) eqn:EP.
    + apply status_eqb_eq in EP. destruct (nh_pipelined t W N EP) as [_ G]. rewrite (G S).
      cbn [fold_left]. split; [exact I1|]. split; [intros C; contradiction|exact IdP].
    + apply status_eqb_neq in EP.
      destruct (fold_asg t (t_groups t) (add_core n t) _ EP (shared_mem_pos t W S) I1 R1) as (I2 & _ & Id2).
      split; [exact I2|]. split; [|intros C; contradiction]. intros _. rewrite (Id1 EP) in Id2.
      assert (F : fresh_in (add_core n t) (t_groups t) = fresh_in n (t_groups t)) by reflexivity.
      rewrite F in Id2. exact Id2.
  - split; [exact I1|]. split; [|exact IdP]. intros P. rewrite (Id1 P). lia.
Qed.

(** the node copy being removed accounts for its own memory on every device *)
Definition RemPre (n : node) (t : task) : Prop :=
  forall g,
    (t_status t = Releasing -> occ g (t_groups t) * t_gmem t <= zget g (g_rel n))
    /\ (t_status t <> Releasing ->
        zget g (g_rel n) + occ g (t_groups t) * t_gmem t <= zget g (g_used n)).

Lemma MInv_remove_resources n t x :
  MInv n (gpu (d_rel t x)) -> Range n -> task_wf t = true -> nominated_holder t = false ->
  (is_shared t = true -> RemPre n t) ->
  let n' := remove_resources n t in
  MInv n' (gpu x) /\ gpu (n_idle n) <= gpu (n_idle n').
Proof.
  intros I R W N Pre. cbv zeta. rewrite remove_resources_eq.
  assert (PC : t_status t = Pipelined -> gpu (charge t) = 0).
  { intros P. apply (nh_pipelined t W N P). }
  pose proof (MInv_remove_core n t x I PC) as I1.
  assert (R1 : Range (remove_core n t)) by exact R.
  assert (Id1 : gpu (n_idle n) <= gpu (n_idle (remove_core n t))).
  { unfold remove_core. node_fields. apply gpu_u_idle_ge, gpu_charge_nonneg, W. }
  destruct (is_shared t) eqn:S; [|split; assumption]. 
  specialize (Pre eq_refl). pose proof (shared_mem_pos t W S) as M.
  destruct (status_eqb (t_status t) Pipelined) eqn:EP.
  - apply status_eqb_eq in EP. destruct (nh_pipelined t W N EP) as [_ G]. rewrite (G S).
    cbn [fold_left]. split; assumption.
  - apply status_eqb_neq in EP. destruct (status_eqb (t_status t) Releasing) eqn:ER.
    + apply status_eqb_eq in ER.
      destruct (fold_rsg_rel t (t_groups t) (remove_core n t) _ ER M I1 R1) as (I2 & _ & Id2).
      { intros g. apply (Pre g). exact ER. }
      split; [exact I2|lia].
    + apply status_eqb_neq in ER.
      destruct (fold_rsg_other t (t_groups t) (remove_core n t) _ EP ER M I1 R1) as (I2 & _ & Id2).
      { intros g. apply (Pre g). exact ER. }
      split; [exact I2|lia].
Qed.

(** * 5. FullBooks *)

Definition FullBooks (n : node) : Prop :=
  Books n
  /\ gpu (n_idle n) = gpu (spec_idle (n_alloc n) (tasks_of n)) - occupied_groups (tasks_of n)
  /\ gpu (n_rel n) = gpu (spec_rel (tasks_of n)) + releasing_groups (tasks_of n)
  /\ marks_ok n /\ sorted_keys (g_used n) /\ sorted_keys (g_mark n)
  /\ n_ngpu n = gpu (n_alloc n).

Lemma usg_occupied n :
  Books n -> sorted_keys (g_used n) -> TW (tasks_of n) -> NH (tasks_of n) ->
  used_shared_gpus (g_used n) = occupied_groups (tasks_of n).
Proof.
  intros [(_ & _ & _ & G) _] Su W N. rewrite (usg_keys _ Su). unfold occupied_groups. f_equal.
  apply length_filter_perm; [apply sorted_NoDup; exact Su|apply nodup_pos_NoDup|].
  intros x. rewrite nodup_pos_In. destruct (G x) as (Gu & _ & _).
  destruct (spec_bounds x _ W N) as (_ & _ & Ea). rewrite Ea, Gu.
  split; intros [I P]; (split; [|exact P]).
  - apply gused_nonzero_in. lia.
  - apply zget_nonzero_In. rewrite Gu. lia.
Qed.

Lemma marks_releasing n :
  Books n -> sorted_keys (g_mark n) -> marks_ok n ->
  Z.of_nat (List.length (g_mark n)) = releasing_groups (tasks_of n).
Proof.
  intros [(_ & _ & _ & G) _] Sm MK. unfold releasing_groups. f_equal.
  rewrite <- (map_length fst (g_mark n)). fold (akeys (g_mark n)).
  apply length_perm_filter; [apply sorted_NoDup; exact Sm|apply nodup_pos_NoDup|].
  intros x. rewrite nodup_pos_In, <- marked_In, (MK x). destruct (G x) as (Gu & _ & Gr). rewrite Gu, Gr.
  split.
  - intros [P E]. split; [apply gused_nonzero_in; lia|lia].
  - intros [_ P]. lia.
Qed.

Definition FInv (n : node) : Prop :=
  Books n /\ MInv n (gpu (spec_rel (tasks_of n))) /\ n_ngpu n = gpu (n_alloc n).

Lemma FullBooks_FInv n : TW (tasks_of n) -> NH (tasks_of n) -> (FullBooks n <-> FInv n).
Proof.
  intros W N. unfold FullBooks, FInv, MInv, used_gpus. split.
  - intros (B & E1 & E2 & MK & Su & Sm & Ng). split; [exact B|]. split; [|exact Ng].
    split; [exact Su|]. split; [exact Sm|]. split; [|split; [|exact MK]].
    + rewrite (usg_occupied n B Su W N). destruct B as [(U & _) _]. rewrite U.
      rewrite (gpu_used_idle (n_alloc n) _ W N). lia.
    + rewrite (marks_releasing n B Sm MK). exact E2.
  - intros (B & (Su & Sm & T & Rq & MK) & Ng). split; [exact B|].
    rewrite (usg_occupied n B Su W N) in T. rewrite (marks_releasing n B Sm MK) in Rq.
    pose proof B as [(U & _) _]. rewrite U, (gpu_used_idle (n_alloc n) _ W N) in T.
    repeat split; try assumption; try apply MK; lia.
Qed.

Lemma Range_of_agrees n ts : agrees n ts -> TW ts -> NH ts -> Range n.
Proof.
  intros (_ & _ & _ & G) W N g. destruct (G g) as (Gu & _ & Gr). rewrite Gu, Gr.
  destruct (spec_bounds g ts W N) as (B1 & B2 & _). lia.
Qed.

Lemma RemPre_of_agrees n t ts :
  agrees n (t :: ts) -> TW ts -> NH ts -> task_wf t = true -> nominated_holder t = false ->
  is_shared t = true -> RemPre n t.
Proof.
  intros (_ & _ & _ & G) W N Wt Nt S g. destruct (G g) as (Gu & _ & Gr).
  rewrite spec_gused_cons in Gu. rewrite spec_grel_cons in Gr. rewrite Gu, Gr.
  destruct (spec_bounds g ts W N) as (B1 & B2 & _).
  pose proof (occm_nonneg g t Wt) as O. unfold occm in O.
  rewrite occurrences_occ, S in *. unfold gd_rel.
  split; intros E.
  - rewrite E. lia.
  - destruct (t_status t) eqn:E'; try lia; congruence.
Qed.

Lemma TW_perm ts ts' : Permutation ts ts' -> TW ts -> TW ts'.
Proof. intros P. apply Permutation_Forall. exact P. Qed.
Lemma NH_perm ts ts' : Permutation ts ts' -> NH ts -> NH ts'.
Proof. intros P. apply Permutation_Forall. exact P. Qed.

Lemma FInv_add n t n' :
  FInv n -> TW (tasks_of n) -> NH (tasks_of n) -> task_wf t = true -> nominated_holder t = false ->
  add_task n t = Ok n' ->
  FInv n'
  /\ (t_status t <> Pipelined ->
      gpu (n_idle n) - gpu (charge t) - (if is_shared t then fresh_in n (t_groups t) else 0) <= gpu (n_idle n'))
  /\ (t_status t = Pipelined -> gpu (n_idle n') = gpu (n_idle n)).
Proof.
  intros (B & I & Ng) W N Wt Nt H.
  pose proof (Books_add _ _ _ B H) as B'. pose proof (tasks_of_add _ _ _ H) as P.
  destruct (add_task_inv _ _ _ H) as [A E].
  set (n0 := set_pods n (aset (t_id t) t (n_pods n))) in *.
  assert (I0 : MInv n0 (gpu (spec_rel (tasks_of n)))) by exact I.
  assert (R0 : Range n0).
  { destruct B as [Ag _]. exact (Range_of_agrees n _ Ag W N). }
  destruct (MInv_add_resources n0 t _ I0 R0 Wt Nt) as (I1 & Id1 & Id2). rewrite <- E in I1, Id1, Id2.
  destruct (add_resources_spec n0 t) as [(Fa & _ & _ & Fn & _) _]. rewrite <- E in Fa, Fn.
  split; [|split; [exact Id1|exact Id2]].
  split; [exact B'|]. split.
  - rewrite (spec_rel_perm _ _ P), spec_rel_cons. exact I1.
  - rewrite Fn, Fa. exact Ng.
Qed.

Lemma FInv_remove n id n' :
  FInv n -> TW (tasks_of n) -> NH (tasks_of n) ->
  remove_task n id = Ok n' ->
  FInv n' /\ TW (tasks_of n') /\ NH (tasks_of n') /\ gpu (n_idle n) <= gpu (n_idle n').
Proof.
  intros (B & I & Ng) W N H.
  pose proof (Books_remove _ _ _ B H) as B'.
  destruct (tasks_of_remove _ _ _ H) as (t & A & P).
  destruct (remove_task_inv _ _ _ H) as (t' & A' & E). rewrite A in A'. injection A' as <-.
  pose proof (TW_perm _ _ P W) as W1. pose proof (NH_perm _ _ P N) as N1.
  pose proof (Forall_inv W1) as Wt. pose proof (Forall_inv_tail W1) as W'.
  pose proof (Forall_inv N1) as Nt. pose proof (Forall_inv_tail N1) as N'. cbv beta in Wt, Nt.
  set (n0 := set_pods n (adel id (n_pods n))) in *.
  assert (Ag : agrees n (t :: tasks_of n')).
  { destruct B as [Ag _]. eapply agrees_perm; [exact P|exact Ag]. }
  assert (I0 : MInv n0 (gpu (d_rel t (spec_rel (tasks_of n'))))).
  { rewrite <- spec_rel_cons, <- (spec_rel_perm _ _ P). exact I. }
  assert (R0 : Range n0).
  { destruct B as [Ag0 _]. exact (Range_of_agrees n _ Ag0 W N). }
  assert (Pre : is_shared t = true -> RemPre n0 t).
  { intros S. exact (RemPre_of_agrees n t _ Ag W' N' Wt Nt S). }
  destruct (MInv_remove_resources n0 t _ I0 R0 Wt Nt Pre) as [I1 Id1]. rewrite <- E in I1, Id1.
  destruct (remove_resources_spec n0 t) as [(Fa & _ & _ & Fn & _) _]. rewrite <- E in Fa, Fn.
  split; [|split; [exact W'|split; [exact N'|exact Id1]]].
  split; [exact B'|]. split; [exact I1|]. rewrite Fn, Fa. exact Ng.
Qed.

Lemma FInv_add' n t n' :
  FInv n -> TW (tasks_of n) -> NH (tasks_of n) -> task_wf t = true -> nominated_holder t = false ->
  add_task n t = Ok n' -> FInv n' /\ TW (tasks_of n') /\ NH (tasks_of n').
Proof.
  intros F W N Wt Nt H. pose proof (tasks_of_add _ _ _ H) as P.
  split; [apply (FInv_add n t n' F W N Wt Nt H)|]. split.
  - eapply TW_perm; [apply Permutation_sym; exact P|]. constructor; assumption.
  - eapply NH_perm; [apply Permutation_sym; exact P|]. constructor; assumption.
Qed.

Lemma NH_added n t n' : add_task n t = Ok n' -> NH (tasks_of n') -> nominated_holder t = false.
Proof.
  intros H N. pose proof (tasks_of_add _ _ _ H) as P. pose proof (NH_perm _ _ P N) as N1.
  exact (Forall_inv N1).
Qed.

Lemma FInv_apply n o n' :
  FInv n -> TW (tasks_of n) -> NH (tasks_of n) -> TW (op_tasks [o]) -> NH (tasks_of n') ->
  apply_op n o = Ok n' -> FInv n' /\ TW (tasks_of n').
Proof.
  intros F W N Wo N' H. destruct o as [t|id|t]; cbn [apply_op] in H.
  - pose proof (Forall_inv Wo) as Wt. cbv beta in Wt.
    destruct (FInv_add' n t n' F W N Wt (NH_added _ _ _ H N') H) as (F' & W' & _). split; assumption.
  - destruct (FInv_remove n id n' F W N H) as (F' & W' & _). split; assumption.
  - pose proof (Forall_inv Wo) as Wt. cbv beta in Wt.
    destruct (update_task_inv _ _ _ H) as (n1 & H1 & H2).
    destruct (FInv_remove n _ n1 F W N H1) as (F1 & W1 & N1 & _).
    destruct (FInv_add' n1 t n' F1 W1 N1 Wt (NH_added _ _ _ H2 N') H2) as (F' & W' & _). split; assumption.
Qed.

(** "no nominated GPU holder" evaluated in every state of the run *)
Fixpoint nn_run (n : node) (ops : list nop) : bool :=
  no_nominated_gpu (tasks_of n)
  && match ops with
     | [] => true
     | o :: r => nn_run (match apply_op n o with Ok n' => n' | Err => n end) r
     end.

Lemma nn_run_head n ops : nn_run n ops = true -> NH (tasks_of n).
Proof. destruct ops; cbn [nn_run]; intros H; apply andb_true_iff in H as [H _]; apply NH_bool; exact H. Qed.

Lemma TW_op_tasks_cons o ops : TW (op_tasks (o :: ops)) -> TW (op_tasks [o]) /\ TW (op_tasks ops).
Proof.
  unfold TW, op_tasks. cbn [flat_map]. rewrite app_nil_r. apply Forall_app.
Qed.

Lemma FInv_run ops : forall n0,
  FInv n0 -> TW (tasks_of n0) -> TW (op_tasks ops) -> nn_run n0 ops = true ->
  FInv (run n0 ops) /\ TW (tasks_of (run n0 ops)) /\ NH (tasks_of (run n0 ops)).
Proof.
  induction ops as [|o ops IH]; intros n0 F W Wo NN.
  - cbn [run]. split; [exact F|]. split; [exact W|]. exact (nn_run_head _ _ NN).
  - pose proof (nn_run_head _ _ NN) as N0. cbn [nn_run] in NN. apply andb_true_iff in NN as [_ NN].
    apply TW_op_tasks_cons in Wo as [Wo1 Wor]. cbn [run].
    destruct (apply_op n0 o) as [n'|] eqn:E.
    + destruct (FInv_apply n0 o n' F W N0 Wo1 (nn_run_head _ _ NN) E) as [F' W'].
      apply IH; assumption.
    + apply IH; assumption.
Qed.

Theorem node_full_books n0 ops :
  FullBooks n0 -> forallb task_wf (tasks_of n0) = true -> forallb task_wf (op_tasks ops) = true ->
  nn_run n0 ops = true -> FullBooks (run n0 ops).
Proof.
  intros F W Wo NN. apply TW_forallb in W, Wo. pose proof (nn_run_head _ _ NN) as N0.
  apply (FullBooks_FInv n0 W N0) in F.
  destruct (FInv_run ops n0 F W Wo NN) as (F' & W' & N').
  apply (FullBooks_FInv _ W' N'). exact F'.
Qed.

(** single operations *)
Theorem full_books_step n o n' :
  FullBooks n -> forallb task_wf (tasks_of n) = true -> forallb task_wf (op_tasks [o]) = true ->
  no_nominated_gpu (tasks_of n) = true -> no_nominated_gpu (tasks_of n') = true ->
  apply_op n o = Ok n' -> FullBooks n'.
Proof.
  intros F W Wo N N' H. apply TW_forallb in W, Wo. apply NH_bool in N, N'.
  apply (FullBooks_FInv n W N) in F.
  destruct (FInv_apply n o n' F W N Wo N' H) as [F' W'].
  apply (FullBooks_FInv _ W' N'). exact F'.
Qed.

Theorem full_books_init n :
  n_pods n = [] -> g_used n = [] -> g_alloc n = [] -> g_rel n = [] -> g_mark n = [] ->
  n_idle n = n_alloc n -> n_used n = rzero -> n_rel n = rzero -> n_ngpu n = gpu (n_alloc n) ->
  FullBooks n.
Proof.
  intros Hp Hu Ha Hr Hm Hi Hus Hre Hn.
  pose proof (node_books_init n Hp Hu Ha Hr Hi Hus Hre) as B.
  split; [exact B|].
  unfold marks_ok, tasks_of. rewrite Hp, Hu, Hm, Hr, Hi, Hre. cbn [map].
  split; [unfold spec_idle, occupied_groups; cbn; lia|].
  split; [reflexivity|].
  split; [intros g; cbn; split; [discriminate|lia]|].
  split; [exact I|]. split; [exact I|exact Hn].
Qed.
(** * 6. Devices in use *)

(** whole GPUs charged to the pods occupying the node (everything not merely
    nominated; shared and reservation pods are charged no whole GPU) plus the
    shared devices that hold allocated memory *)
Definition devices_in_use (ts : list task) : Z :=
  gpu (rsum (map charge (filter (fun t => negb (is_st Pipelined t)) ts))) + occupied_groups ts.

Lemma devices_in_use_eq n :
  FullBooks n -> devices_in_use (tasks_of n) = gpu (n_alloc n) - gpu (n_idle n).
Proof.
  intros (_ & E1 & _). unfold devices_in_use. unfold spec_idle in E1. cbn [gpu rsub] in E1. lia.
Qed.

Theorem devices_within_count n :
  FullBooks n -> 0 <= gpu (n_idle n) -> devices_in_use (tasks_of n) <= gpu (n_alloc n).
Proof. intros F I. rewrite (devices_in_use_eq n F). lia. Qed.

(** requests as the binder sees them: a best-effort request asks for no whole GPU *)
Definition bind_wf (t : task) : bool :=
  task_wf t && (negb (t_besteffort t) || (gpu (t_req t) =? 0)).

Lemma bind_wf_task_wf t : bind_wf t = true -> task_wf t = true.
Proof. unfold bind_wf. intros H. apply andb_true_iff in H as [H _]. exact H. Qed.

Lemma galloc_gused_maps n :
  Books n -> TW (tasks_of n) -> NH (tasks_of n) -> forall g, zget g (g_alloc n) = zget g (g_used n).
Proof.
  intros [(_ & _ & _ & G) _] W N g. destruct (G g) as (Gu & Ga & _).
  destruct (spec_bounds g _ W N) as (_ & _ & E). lia.
Qed.

(** what [bind_guard] (Run/Cycle.v) guarantees for the whole-GPU idle count *)
Lemma bind_guard_devices n t :
  FInv n -> TW (tasks_of n) -> NH (tasks_of n) -> bind_wf t = true -> 0 <= gpu (n_idle n) ->
  bind_guard n t (t_groups t) = true ->
  gpu (charge t) + (if is_shared t then fresh_in n (t_groups t) else 0) <= gpu (n_idle n).
Proof.
  intros (B & _) W N Wt I G. unfold bind_guard in G.
  unfold bind_wf, task_wf in Wt.
  destruct (is_shared t) eqn:S.
  - rewrite (charge_shared_gpu t S).
    apply andb_true_iff in G as [_ G]. apply Z.leb_le in G.
    assert (E : filter (fun g => zget g (g_alloc n) =? 0) (t_groups t)
                = filter (fun g => zget g (g_used n) =? 0) (t_groups t)).
    { apply filter_ext. intros g. rewrite (galloc_gused_maps n B W N g). reflexivity. }
    rewrite E in G. unfold fresh_in. lia.
  - pose proof (gpu_charge_cases t) as C.
    unfold is_task_allocatable in G. destruct (t_besteffort t) eqn:BE.
    + cbn [negb orb] in Wt. lia.
    + unfold allocatable_on in G. unfold is_shared in S.
      destruct (t_kind t); try discriminate; unfold rle in G; lia.
Qed.

Lemma ngpu_add n t n' : add_task n t = Ok n' -> n_ngpu n' = n_ngpu n /\ n_alloc n' = n_alloc n.
Proof.
  intros H. destruct (add_task_inv _ _ _ H) as [_ ->].
  destruct (add_resources_spec (set_pods n (aset (t_id t) t (n_pods n))) t) as [F _].
  destruct F as (Fa&_&_&Fn&_). rewrite Fn, Fa. split; reflexivity.
Qed.

Lemma ngpu_remove n id n' : remove_task n id = Ok n' -> n_ngpu n' = n_ngpu n /\ n_alloc n' = n_alloc n.
Proof.
  intros H. destruct (remove_task_inv _ _ _ H) as (t0 & _ & ->).
  destruct (remove_resources_spec (set_pods n (adel id (n_pods n))) t0) as [F _].
  destruct F as (Fa&_&_&Fn&_). rewrite Fn, Fa. split; reflexivity.
Qed.

(** two copies of a pod that hold the same devices *)
Definition same_footprint (t0 t : task) : bool :=
  Bool.eqb (is_shared t0) (is_shared t) && (gpu (charge t0) =? gpu (charge t))
  && (t_gmem t0 =? t_gmem t) && list_eqb Pos.eqb (t_groups t0) (t_groups t).

Lemma list_eqb_pos_eq a : forall b, list_eqb Pos.eqb a b = true -> a = b.
Proof.
  induction a as [|x a IH]; intros [|y b] H; try reflexivity; try discriminate.
  cbn in H. apply andb_true_iff in H as [E H]. apply Pos.eqb_eq in E. subst.
  f_equal. apply IH. exact H.
Qed.

Lemma same_footprint_spec t0 t :
  same_footprint t0 t = true ->
  gpu (charge t0) = gpu (charge t) /\ forall g, occurrences g t0 * t_gmem t0 = occurrences g t * t_gmem t.
Proof.
  unfold same_footprint. intros H.
  apply andb_true_iff in H as [H G]. apply andb_true_iff in H as [H M]. apply andb_true_iff in H as [S C].
  apply list_eqb_pos_eq in G. apply Bool.eqb_prop in S. split; [lia|].
  intros g. unfold occurrences. rewrite S, G. lia.
Qed.

Lemma update_same_footprint n t t0 n' :
  FInv n -> TW (tasks_of n) -> NH (tasks_of n) -> task_wf t = true -> nominated_holder t = false ->
  alookup (t_id t) (n_pods n) = Some t0 -> same_footprint t0 t = true ->
  update_task n t = Ok n' ->
  FInv n' /\ TW (tasks_of n') /\ NH (tasks_of n') /\ gpu (n_idle n') = gpu (n_idle n).
Proof.
  intros F W N Wt Nt A SF H.
  destruct (update_task_inv _ _ _ H) as (n1 & H1 & H2).
  destruct (FInv_remove n _ n1 F W N H1) as (F1 & W1 & N1 & _).
  destruct (FInv_add' n1 t n' F1 W1 N1 Wt Nt H2) as (F' & W' & N').
  split; [exact F'|]. split; [exact W'|]. split; [exact N'|].
  destruct (tasks_of_remove _ _ _ H1) as (t0' & A' & P1). rewrite A in A'. injection A' as <-.
  pose proof (tasks_of_add _ _ _ H2) as P2.
  destruct (same_footprint_spec _ _ SF) as [Ec Eo].
  destruct F as (B & (Su & _ & T & _) & Ng). destruct F' as (B' & (Su' & _ & T' & _) & Ng').
  destruct (ngpu_remove _ _ _ H1) as [Gn1 _]. destruct (ngpu_add _ _ _ H2) as [Gn2 _].
  unfold used_gpus in T, T'.
  destruct B as [(U & _ & _ & G) _]. destruct B' as [(U' & _ & _ & G') _].
  assert (EU : gpu (n_used n') = gpu (n_used n)).
  { rewrite U, U', (spec_used_perm _ _ P1), (spec_used_perm _ _ P2), !spec_used_cons. cbn [gpu radd]. lia. }
  assert (Eg : used_shared_gpus (g_used n') = used_shared_gpus (g_used n)).
  { apply usg_ext; [exact Su'|exact Su|]. intros g.
    destruct (G g) as (Gu & _). destruct (G' g) as (Gu' & _).
    rewrite Gu, Gu', (spec_gused_perm g _ _ P1), (spec_gused_perm g _ _ P2), !spec_gused_cons, (Eo g).
    reflexivity. }
  lia.
Qed.

(** the operations of a cycle that respect the device count: a placement
    (any status but Pipelined) passes [bind_guard]; a nomination holds no GPU;
    an update (eviction, un-eviction, status progress) keeps the pod's devices *)
Definition op_guard (n : node) (o : nop) : bool :=
  match o with
  | OAdd t => if is_st Pipelined t then negb (holds_gpu t) else bind_guard n t (t_groups t)
  | ORemove _ => true
  | OUpdate t =>
      negb (nominated_holder t)
      && match alookup (t_id t) (n_pods n) with
         | Some t0 => same_footprint t0 t
         | None => true
         end
  end.

Fixpoint guarded_run (n : node) (ops : list nop) : bool :=
  match ops with
  | [] => true
  | o :: r => op_guard n o && guarded_run (match apply_op n o with Ok n' => n' | Err => n end) r
  end.

Definition BW (ts : list task) : Prop := Forall (fun t => bind_wf t = true) ts.

Lemma guarded_step n o n' :
  FInv n -> TW (tasks_of n) -> NH (tasks_of n) -> 0 <= gpu (n_idle n) -> BW (op_tasks [o]) ->
  op_guard n o = true -> apply_op n o = Ok n' ->
  FInv n' /\ TW (tasks_of n') /\ NH (tasks_of n') /\ 0 <= gpu (n_idle n').
Proof.
  intros F W N I Wo G H. destruct o as [t|id|t]; cbn [apply_op op_guard] in H, G.
  - pose proof (Forall_inv Wo) as Bt. cbv beta in Bt. pose proof (bind_wf_task_wf t Bt) as Wt.
    destruct (is_st Pipelined t) eqn:EP.
    + assert (Nt : nominated_holder t = false).
      { unfold nominated_holder. rewrite EP. cbn [andb]. apply negb_true_iff. exact G. }
      apply status_is_st in EP.
      destruct (FInv_add n t n' F W N Wt Nt H) as (_ & _ & Id).
      destruct (FInv_add' n t n' F W N Wt Nt H) as (F' & W' & N').
      split; [exact F'|]. split; [exact W'|]. split; [exact N'|]. rewrite (Id EP). exact I.
    + assert (NP : t_status t <> Pipelined).
      { intros E. apply status_is_st in E. congruence. }
      pose proof (nh_not_pipelined t NP) as Nt.
      destruct (FInv_add n t n' F W N Wt Nt H) as (_ & Id & _).
      destruct (FInv_add' n t n' F W N Wt Nt H) as (F' & W' & N').
      split; [exact F'|]. split; [exact W'|]. split; [exact N'|].
      pose proof (bind_guard_devices n t F W N Bt I G). specialize (Id NP). lia.
  - destruct (FInv_remove n id n' F W N H) as (F' & W' & N' & Id).
    split; [exact F'|]. split; [exact W'|]. split; [exact N'|]. lia.
  - pose proof (Forall_inv Wo) as Bt. cbv beta in Bt. pose proof (bind_wf_task_wf t Bt) as Wt.
    apply andb_true_iff in G as [Nt G]. apply negb_true_iff in Nt.
    destruct (update_task_inv _ _ _ H) as (n1 & H1 & _).
    destruct (remove_task_inv _ _ _ H1) as (t0 & A & _). rewrite A in G.
    destruct (update_same_footprint n t t0 n' F W N Wt Nt A G H) as (F' & W' & N' & Id).
    split; [exact F'|]. split; [exact W'|]. split; [exact N'|]. lia.
Qed.

Lemma BW_op_tasks_cons o ops : BW (op_tasks (o :: ops)) -> BW (op_tasks [o]) /\ BW (op_tasks ops).
Proof. unfold BW, op_tasks. cbn [flat_map]. rewrite app_nil_r. apply Forall_app. Qed.

Lemma guarded_run_inv ops : forall n0,
  FInv n0 -> TW (tasks_of n0) -> NH (tasks_of n0) -> 0 <= gpu (n_idle n0) -> BW (op_tasks ops) ->
  guarded_run n0 ops = true ->
  FInv (run n0 ops) /\ TW (tasks_of (run n0 ops)) /\ NH (tasks_of (run n0 ops)) /\ 0 <= gpu (n_idle (run n0 ops)).
Proof.
  induction ops as [|o ops IH]; intros n0 F W N I Wo G; cbn [run].
  - split; [exact F|]. split; [exact W|]. split; [exact N|exact I].
  - cbn [guarded_run] in G. apply andb_true_iff in G as [Go Gr].
    apply BW_op_tasks_cons in Wo as [Wo1 Wor].
    destruct (apply_op n0 o) as [n'|] eqn:E.
    + destruct (guarded_step n0 o n' F W N I Wo1 Go E) as (F' & W' & N' & I').
      apply IH; assumption.
    + apply IH; assumption.
Qed.

Theorem guarded_devices_within_count n0 ops :
  FullBooks n0 -> forallb task_wf (tasks_of n0) = true -> no_nominated_gpu (tasks_of n0) = true ->
  0 <= gpu (n_idle n0) -> forallb bind_wf (op_tasks ops) = true -> guarded_run n0 ops = true ->
  let n := run n0 ops in
  FullBooks n /\ no_nominated_gpu (tasks_of n) = true /\ 0 <= gpu (n_idle n)
  /\ devices_in_use (tasks_of n) <= gpu (n_alloc n).
Proof.
  intros F W N I Wo G n. apply TW_forallb in W. apply NH_bool in N.
  assert (Wo' : BW (op_tasks ops)).
  { unfold BW. rewrite Forall_forall. rewrite forallb_forall in Wo. exact Wo. }
  apply (FullBooks_FInv n0 W N) in F.
  destruct (guarded_run_inv ops n0 F W N I Wo' G) as (F' & W' & N' & I'). fold n in F', W', N', I'.
  apply (FullBooks_FInv n W' N') in F'.
  split; [exact F'|]. split; [apply NH_bool; exact N'|]. split; [exact I'|].
  apply devices_within_count; assumption.
Qed.

(** the single guarded bind *)
Theorem guarded_bind_keeps_idle n t n' :
  FullBooks n -> forallb task_wf (tasks_of n) = true -> no_nominated_gpu (tasks_of n) = true ->
  0 <= gpu (n_idle n) -> bind_wf t = true -> is_st Pipelined t = false ->
  bind_guard n t (t_groups t) = true -> add_task n t = Ok n' ->
  FullBooks n' /\ no_nominated_gpu (tasks_of n') = true /\ 0 <= gpu (n_idle n')
  /\ devices_in_use (tasks_of n') <= gpu (n_alloc n').
Proof.
  intros F W N I Bt NP G H.
  assert (Wo : forallb bind_wf (op_tasks [OAdd t]) = true) by (cbn; rewrite Bt; reflexivity).
  assert (Gr : guarded_run n [OAdd t] = true) by (cbn [guarded_run op_guard]; rewrite NP, G; reflexivity).
  pose proof (guarded_devices_within_count n [OAdd t] F W N I Wo Gr) as R.
  cbn [run apply_op] in R. rewrite H in R. exact R.
Qed.

(** the GPU column of C01: the whole GPUs of the occupying pods alone *)
Theorem occupying_gpus_within_allocatable n :
  FullBooks n -> 0 <= gpu (n_idle n) ->
  gpu (rsum (map charge (filter (fun t => negb (is_st Pipelined t)) (tasks_of n)))) <= gpu (n_alloc n).
Proof.
  intros F I. pose proof (devices_within_count n F I) as D. unfold devices_in_use in D.
  assert (0 <= occupied_groups (tasks_of n)) by (unfold occupied_groups; lia). lia.
Qed.

(** * 7. Non-vacuity and necessity of the side conditions *)

Lemma x_node_full : FullBooks x_node.
Proof. apply full_books_init; reflexivity. Qed.

(** [nv_node] (Proofs/Node.v): a running sharer on device 1, a running
    whole-GPU pod, a terminating sharer on device 2 (marked releasing) *)
Lemma nv_node_full : FullBooks nv_node.
Proof.
  rewrite nv_node_reachable. apply node_full_books; [exact x_node_full| | |]; vm_compute; reflexivity.
Qed.

(** bind a sharer into device 1, bind a sharer onto a fresh device (the last
    idle GPU), evict the whole-GPU pod, the terminating sharer disappears
    (device 2 becomes idle), bind a whole-GPU pod onto it, nominate a pod that
    holds nothing *)
Definition fv_ops : list nop :=
  [OAdd (x_sh 5 Allocated 50 [1%positive]); OAdd (x_sh 6 Allocated 40 [3%positive]);
   OUpdate (x_wh 3 Releasing 1); ORemove 4; OAdd (x_wh 8 Allocated 1); OAdd (x_sh 9 Pipelined 20 [])].

Theorem full_books_nonvacuous :
  FullBooks nv_node
  /\ forallb task_wf (tasks_of nv_node) = true /\ forallb bind_wf (op_tasks fv_ops) = true
  /\ no_nominated_gpu (tasks_of nv_node) = true /\ 0 <= gpu (n_idle nv_node)
  /\ nn_run nv_node fv_ops = true /\ guarded_run nv_node fv_ops = true
  /\ occupied_groups (tasks_of nv_node) = 2 /\ releasing_groups (tasks_of nv_node) = 1
  /\ devices_in_use (tasks_of nv_node) = 3
  /\ map t_id (tasks_of (run nv_node fv_ops)) = [2; 3; 5; 6; 8; 9]%positive
  /\ gpu (n_idle (run nv_node fv_ops)) = 0
  /\ devices_in_use (tasks_of (run nv_node fv_ops)) = 4
  (* with the last idle GPU taken, a further sharer on a fresh device is refused *)
  /\ bind_guard (run nv_node (firstn 2 fv_ops)) (x_sh 7 Allocated 40 [4%positive]) [4%positive] = false.
Proof.
  split; [exact nv_node_full|]. repeat split; try (vm_compute; reflexivity). vm_compute. discriminate.
Qed.

(** The side condition "no nominated GPU holder in any state of the run"
    cannot be dropped, not even when the nominated pod is gone at the end:
    the history of C14_device_guard_refuted (Properties/C14.v) starts from a
    FullBooks node, uses well-formed tasks, ends on a node without nominated
    pods, and ends with one idle GPU less than the recomputation. *)
Definition ng_p0 st := mkTask 1 1 st KFraction (mkRes 100 100 0 1 0 0) 1 50 [1%positive] false false.
Definition ng_ops : list nop :=
  [OAdd (ng_p0 Binding); OAdd (x_wh 2 Releasing 1); OAdd (x_wh 3 Running 1); OAdd (x_wh 4 Pipelined 2);
   OUpdate (ng_p0 Releasing); OUpdate (ng_p0 Binding); ORemove 4].

Definition full_books_unconditional : Prop :=
  forall n0 ops,
    FullBooks n0 -> forallb task_wf (tasks_of n0) = true -> forallb task_wf (op_tasks ops) = true ->
    no_nominated_gpu (tasks_of n0) = true -> no_nominated_gpu (tasks_of (run n0 ops)) = true ->
    FullBooks (run n0 ops).

Theorem full_books_needs_no_nominated :
  FullBooks x_node /\ forallb task_wf (tasks_of x_node) = true /\ forallb task_wf (op_tasks ng_ops) = true
  /\ no_nominated_gpu (tasks_of x_node) = true /\ no_nominated_gpu (tasks_of (run x_node ng_ops)) = true
  /\ nn_run x_node ng_ops = false
  /\ gpu (n_idle (run x_node ng_ops)) = 0
  /\ gpu (spec_idle (n_alloc (run x_node ng_ops)) (tasks_of (run x_node ng_ops)))
     - occupied_groups (tasks_of (run x_node ng_ops)) = 1.
Proof. split; [exact x_node_full|]. repeat split; vm_compute; reflexivity. Qed.

Theorem full_books_unconditional_refuted : ~ full_books_unconditional.
Proof.
  intros H.
  destruct full_books_needs_no_nominated as (F & W & Wo & N & N' & _ & I & S).
  destruct (H x_node ng_ops F W Wo N N') as (_ & E1 & _). rewrite I, S in E1. discriminate.
Qed.

(** The two whole-GPU equations of [books_ok true] are not inductive on their
    own: the transitions read the releasing marks, which [books_ok] does not
    constrain.  An empty node with a stray mark satisfies Books and both
    equations; binding a sharer onto the marked device makes releasing -1. *)
Definition stray_node : node :=
  mkNode (mkRes 8000 8000 4 110 0 0) (mkRes 8000 8000 4 110 0 0) rzero rzero 4 100 [] [] [] [] [(1%positive, tt)].

Theorem books_equations_alone_not_inductive :
  exists n',
    books_ok true stray_node (tasks_of stray_node) = true
    /\ n_ngpu stray_node = gpu (n_alloc stray_node)
    /\ add_task stray_node (x_sh 1 Running 50 [1%positive]) = Ok n'
    /\ gpu (n_rel n') = -1
    /\ books_ok true n' (tasks_of n') = false.
Proof. eexists. split; [vm_compute; reflexivity|]. repeat split; vm_compute; reflexivity. Qed.

(** The device count of the node must equal its allocatable GPUs: the guards
    compare against [n_ngpu]. *)
Definition odd_node : node :=
  mkNode (mkRes 8000 8000 4 110 0 0) (mkRes 8000 8000 4 110 0 0) rzero rzero 8 100 [] [] [] [] [].

Theorem device_count_must_match :
  exists n',
    books_ok true odd_node (tasks_of odd_node) = true
    /\ add_task odd_node (x_sh 1 Running 50 [1%positive]) = Ok n'
    /\ gpu (n_idle n') = 4
    /\ gpu (spec_idle (n_alloc n') (tasks_of n')) - occupied_groups (tasks_of n') = 3.
Proof. eexists. split; [vm_compute; reflexivity|]. repeat split; vm_compute; reflexivity. Qed.

(** The guards without the clause "a nomination holds no GPU" do not keep the
    devices within the count.  1-GPU node: a sharer is allocated on a fresh
    device 1 and then turned into a nomination (the device is idle again, its
    key stays in the allocated-memory map with value 0); a second sharer is
    bound into device 1 — EnoughIdleResourcesOnGpu and IsTaskAllocatable say
    yes, the first-user test of the bookkeeping (used memory <= own memory)
    says no, so no idle GPU is taken; a whole-GPU pod is then bound onto the
    GPU that still counts as idle.  Two devices in use on a 1-GPU node.
    (Replayed on the Go code: the real NodeInfo and GetNodePreferableGpuForSharing
    behave exactly so; the real allocate action, however, also filters nodes by
    IsTaskAllocatableOnReleasingOrIdle, and the nominated device stands as
    releasing = -1, so idle + releasing = 0 and the last bind is refused there.
    [bind_guard] does not include that filter.) *)
Definition op_guard_lax (n : node) (o : nop) : bool :=
  match o with
  | OAdd t => is_st Pipelined t || bind_guard n t (t_groups t)
  | ORemove _ => true
  | OUpdate t => match alookup (t_id t) (n_pods n) with Some t0 => same_footprint t0 t | None => true end
  end.
Fixpoint guarded_run_lax (n : node) (ops : list nop) : bool :=
  match ops with
  | [] => true
  | o :: r => op_guard_lax n o && guarded_run_lax (match apply_op n o with Ok n' => n' | Err => n end) r
  end.

Definition ov_node : node :=
  mkNode (mkRes 8000 8000 1 110 0 0) (mkRes 8000 8000 1 110 0 0) rzero rzero 1 100 [] [] [] [] [].
Definition ov_ops : list nop :=
  [OAdd (x_sh 1 Allocated 50 [1%positive]); OUpdate (x_sh 1 Pipelined 50 [1%positive]);
   OAdd (x_sh 3 Allocated 50 [1%positive]); OAdd (x_wh 5 Allocated 1)].

Theorem devices_within_count_needs_no_nominated :
  FullBooks ov_node /\ forallb bind_wf (op_tasks ov_ops) = true /\ 0 <= gpu (n_idle ov_node)
  /\ guarded_run_lax ov_node ov_ops = true /\ guarded_run ov_node ov_ops = false
  /\ (let n := run ov_node (firstn 2 ov_ops) in
      enough_idle_on_gpu n 50 1 = true /\ is_task_allocatable n (x_sh 3 Allocated 50 [1%positive]) = true)
  /\ is_task_allocatable (run ov_node (firstn 3 ov_ops)) (x_wh 5 Allocated 1) = true
  /\ is_task_allocatable_on_releasing_or_idle (run ov_node (firstn 3 ov_ops)) (x_wh 5 Allocated 1) = false
  /\ gpu (n_rel (run ov_node (firstn 3 ov_ops))) = -1
  /\ gpu (n_idle (run ov_node ov_ops)) = 0
  /\ gpu (n_alloc (run ov_node ov_ops)) = 1
  /\ devices_in_use (tasks_of (run ov_node ov_ops)) = 2.
Proof. split; [apply full_books_init; reflexivity|]. repeat split; try (vm_compute; reflexivity). vm_compute. discriminate. Qed.

(** what [FullBooks] says, spelled out *)
Theorem full_books_unfold n :
  FullBooks n <->
  (Books n
   /\ gpu (n_idle n) = gpu (spec_idle (n_alloc n) (tasks_of n)) - occupied_groups (tasks_of n)
   /\ gpu (n_rel n) = gpu (spec_rel (tasks_of n)) + releasing_groups (tasks_of n)
   /\ (forall g, marked g (g_mark n) = true <->
                 (0 < zget g (g_used n) /\ zget g (g_rel n) = zget g (g_used n)))
   /\ sorted_keys (g_used n) /\ sorted_keys (g_mark n)
   /\ n_ngpu n = gpu (n_alloc n)).
Proof. reflexivity. Qed.

(** FullBooks implies the executable monitor [books_ok true] of Model/NodeSpec.v *)
Theorem books_ok_true_of_FullBooks n : FullBooks n -> books_ok true n (tasks_of n) = true.
Proof.
  intros (B & E1 & E2 & _). pose proof (books_ok_of_Books n B) as H.
  unfold books_ok in *. rewrite andb_true_r in H. rewrite H. cbn [andb].
  apply andb_true_iff. split; apply Z.eqb_eq; assumption.
Qed.

(** the run-level statement without the guards (for C14) *)
Theorem full_books_run_nonvacuous :
  FullBooks nv_node
  /\ forallb task_wf (tasks_of nv_node) = true /\ forallb task_wf (op_tasks fv_ops) = true
  /\ nn_run nv_node fv_ops = true
  /\ occupied_groups (tasks_of nv_node) = 2 /\ releasing_groups (tasks_of nv_node) = 1
  /\ gpu (n_idle nv_node) = 1 /\ gpu (n_rel nv_node) = 1
  /\ map t_id (tasks_of (run nv_node fv_ops)) = [2; 3; 5; 6; 8; 9]%positive
  /\ occupied_groups (tasks_of (run nv_node fv_ops)) = 2
  /\ gpu (n_idle (run nv_node fv_ops)) = 0 /\ gpu (n_rel (run nv_node fv_ops)) = 1
  /\ books_ok true (run nv_node fv_ops) (tasks_of (run nv_node fv_ops)) = true.
Proof. split; [exact nv_node_full|]. repeat split; vm_compute; reflexivity. Qed.

Theorem devices_within_count_state n :
  FullBooks n -> 0 <= gpu (n_idle n) ->
  devices_in_use (tasks_of n) <= gpu (n_alloc n) /\ gpu (n_alloc n) = n_ngpu n.
Proof.
  intros F I. split; [apply devices_within_count; assumption|].
  destruct F as (_ & _ & _ & _ & _ & _ & Ng). symmetry. exact Ng.
Qed.

Theorem op_guard_unfold n o :
  op_guard n o =
  match o with
  | OAdd t => if is_st Pipelined t then negb (holds_gpu t) else bind_guard n t (t_groups t)
  | ORemove _ => true
  | OUpdate t =>
      negb (is_st Pipelined t && holds_gpu t)
      && match alookup (t_id t) (n_pods n) with
         | Some t0 => Bool.eqb (is_shared t0) (is_shared t) && (gpu (charge t0) =? gpu (charge t))
                      && (t_gmem t0 =? t_gmem t) && list_eqb Pos.eqb (t_groups t0) (t_groups t)
         | None => true
         end
  end.
Proof. reflexivity. Qed.

(** * 8. The same for the replay of a cycle (Run/Cycle.v)

    [replay] applies the Cache calls of a real cycle (Bind / Evict /
    TaskPipelined) to the model nodes and reports whether every call was
    admissible.  If it was, no nomination of the cycle holds a GPU, and every
    node starts with full books, no nominated GPU holder and a non-negative
    idle GPU count, then every node ends so: the devices in use on every node
    are within its GPU count. *)

Definition op_wf (o : nop) : Prop :=
  match o with
  | OAdd t => bind_wf t = true
  | OUpdate t => task_wf t = true
  | ORemove _ => True
  end.

Definition NodeOK (n : node) : Prop :=
  FullBooks n /\ TW (tasks_of n) /\ NH (tasks_of n) /\ 0 <= gpu (n_idle n).

Lemma guarded_step_gen n o n' :
  FInv n -> TW (tasks_of n) -> NH (tasks_of n) -> 0 <= gpu (n_idle n) -> op_wf o ->
  op_guard n o = true -> apply_op n o = Ok n' ->
  FInv n' /\ TW (tasks_of n') /\ NH (tasks_of n') /\ 0 <= gpu (n_idle n').
Proof.
  intros F W N I Wo G H. destruct o as [t|id|t]; cbn [apply_op op_guard op_wf] in H, G, Wo.
  - apply (guarded_step n (OAdd t) n' F W N I); [constructor; [exact Wo|constructor]|exact G|exact H].
  - apply (guarded_step n (ORemove id) n' F W N I); [constructor|exact G|exact H].
  - apply andb_true_iff in G as [Nt G]. apply negb_true_iff in Nt.
    destruct (update_task_inv _ _ _ H) as (n1 & H1 & _).
    destruct (remove_task_inv _ _ _ H1) as (t0 & A & _). rewrite A in G.
    destruct (update_same_footprint n t t0 n' F W N Wo Nt A G H) as (F' & W' & N' & Id).
    split; [exact F'|]. split; [exact W'|]. split; [exact N'|]. lia.
Qed.

Lemma NodeOK_step n o n' :
  NodeOK n -> op_wf o -> op_guard n o = true -> apply_op n o = Ok n' -> NodeOK n'.
Proof.
  intros (F & W & N & I) Wo G H. apply (FullBooks_FInv n W N) in F.
  destruct (guarded_step_gen n o n' F W N I Wo G H) as (F' & W' & N' & I').
  split; [apply (FullBooks_FInv n' W' N'); exact F'|]. split; [exact W'|]. split; [exact N'|exact I'].
Qed.

Theorem NodeOK_devices n : NodeOK n -> devices_in_use (tasks_of n) <= gpu (n_alloc n).
Proof. intros (F & _ & _ & I). apply devices_within_count; assumption. Qed.

Definition NodesOK (ns : amap node) : Prop := Forall (fun kn => NodeOK (snd kn)) ns.
Definition TasksBW (ts : list tinfo) : Prop := Forall (fun ti => bind_wf (ti_task ti) = true) ts.

(** a nomination of the cycle holds no GPU and is a fresh placement *)
Definition pipe_holds_nothing (ts : list tinfo) (ns : amap node) (c : call) : bool :=
  match c with
  | CPipe p nid gs =>
      match find_ti ts p, alookup nid ns with
      | Some ti, Some n => negb (holds_gpu (with_status (ti_task ti) Pipelined gs)) && negb (amem p (n_pods n))
      | _, _ => true
      end
  | _ => true
  end.

Fixpoint nominations_hold_nothing (ts : list tinfo) (ns : amap node) (cs : list call) : bool :=
  match cs with
  | [] => true
  | c :: r => pipe_holds_nothing ts ns c
              && match apply_call ts ns c with
                 | Some (ns1, _) => nominations_hold_nothing ts ns1 r
                 | None => true
                 end
  end.

Lemma NodesOK_get ns nid n : NodesOK ns -> alookup nid ns = Some n -> NodeOK n.
Proof. intros F A. exact (alookup_Forall _ _ _ _ F A). Qed.

Lemma NodesOK_set ns nid n : NodesOK ns -> NodeOK n -> NodesOK (aset nid n ns).
Proof. intros F N. apply Forall_aset; assumption. Qed.

Lemma find_ti_bw ts p ti : TasksBW ts -> find_ti ts p = Some ti -> bind_wf (ti_task ti) = true.
Proof.
  unfold find_ti. intros W F. apply find_some in F as [I _].
  unfold TasksBW in W. rewrite Forall_forall in W. exact (W _ I).
Qed.

Lemma bind_wf_with_status t s gs : bind_wf (with_status t s gs) = bind_wf t.
Proof. reflexivity. Qed.
Lemma task_wf_with_status t s gs : task_wf (with_status t s gs) = task_wf t.
Proof. reflexivity. Qed.

Lemma list_eqb_pos_refl a : list_eqb Pos.eqb a a = true.
Proof. induction a as [|x a IH]; [reflexivity|]. cbn. rewrite Pos.eqb_refl, IH. reflexivity. Qed.

Lemma same_footprint_with_status t s : same_footprint t (with_status t s (t_groups t)) = true.
Proof.
  unfold same_footprint.
  replace (is_shared (with_status t s (t_groups t))) with (is_shared t) by reflexivity.
  replace (charge (with_status t s (t_groups t))) with (charge t) by reflexivity.
  cbn [with_status t_gmem t_groups].
  rewrite Bool.eqb_reflx, !Z.eqb_refl, list_eqb_pos_refl. reflexivity.
Qed.

Lemma TW_lookup n id t0 : TW (tasks_of n) -> alookup id (n_pods n) = Some t0 -> task_wf t0 = true.
Proof.
  unfold TW, tasks_of. intros W A. rewrite Forall_forall in W. apply W.
  clear W. induction (n_pods n) as [|[k v] m IH]; cbn [alookup] in A; [discriminate|].
  cbn [map snd]. destruct (Pos.eqb id k); [inversion A; subst; now left | right; now apply IH].
Qed.

Lemma apply_call_ok ts ns c ns' :
  TasksBW ts -> NodesOK ns -> pipe_holds_nothing ts ns c = true ->
  apply_call ts ns c = Some (ns', true) -> NodesOK ns'.
Proof.
  intros BWt OK PH H. destruct c as [p nid gs|p act pre|p nid gs]; cbn [apply_call pipe_holds_nothing] in H, PH.
  - destruct (find_ti ts p) as [ti|] eqn:F; [|discriminate].
    destruct (alookup nid ns) as [n|] eqn:A; [|discriminate].
    destruct (add_task n (with_status (ti_task ti) Allocated gs)) as [n1|] eqn:E; [|discriminate].
    injection H as <- G. apply NodesOK_set; [exact OK|].
    apply (NodeOK_step n (OAdd (with_status (ti_task ti) Allocated gs)) n1 (NodesOK_get _ _ _ OK A)).
    + cbn [op_wf]. rewrite bind_wf_with_status. exact (find_ti_bw _ _ _ BWt F).
    + cbn [op_guard]. exact G.
    + exact E.
  - destruct (holder ns p) as [nid|] eqn:Ho; [|discriminate].
    destruct (alookup nid ns) as [n|] eqn:A; [|discriminate].
    destruct (alookup p (n_pods n)) as [t0|] eqn:A0; [|discriminate].
    destruct (update_task n (with_status t0 Releasing (t_groups t0))) as [n1|] eqn:E; [|discriminate].
    injection H as <- _. apply NodesOK_set; [exact OK|].
    pose proof (NodesOK_get _ _ _ OK A) as On.
    apply (NodeOK_step n (OUpdate (with_status t0 Releasing (t_groups t0))) n1 On).
    + cbn [op_wf]. rewrite task_wf_with_status. destruct On as (_ & W & _). exact (TW_lookup n p t0 W A0).
    + cbn [op_guard].
      assert (Hid : t_id t0 = p).
      { destruct On as (FB & _). destruct FB as (B & _). destruct B as [_ [_ Fid]].
        exact (alookup_Forall _ _ _ _ Fid A0). }
      cbn [with_status t_id]. rewrite Hid, A0, same_footprint_with_status. reflexivity.
    + exact E.
  - destruct (find_ti ts p) as [ti|] eqn:F; [|discriminate].
    destruct (alookup nid ns) as [n|] eqn:A; [|discriminate].
    apply andb_true_iff in PH as [PH1 PH2]. apply negb_true_iff in PH2.
    unfold amem in PH2. destruct (alookup p (n_pods n)) as [t0|] eqn:A0; [discriminate|].
    destruct (add_task n (with_status (ti_task ti) Pipelined gs)) as [n1|] eqn:E; [|discriminate].
    injection H as <-. apply NodesOK_set; [exact OK|].
    apply (NodeOK_step n (OAdd (with_status (ti_task ti) Pipelined gs)) n1 (NodesOK_get _ _ _ OK A)).
    + cbn [op_wf]. rewrite bind_wf_with_status. exact (find_ti_bw _ _ _ BWt F).
    + cbn [op_guard]. exact PH1.
    + exact E.
Qed.

Theorem cycle_devices_within_count ts cs : forall ns ns',
  TasksBW ts -> NodesOK ns -> nominations_hold_nothing ts ns cs = true ->
  replay ts ns cs = Some (ns', true) ->
  NodesOK ns'
  /\ forall nid n, alookup nid ns' = Some n -> devices_in_use (tasks_of n) <= gpu (n_alloc n).
Proof.
  assert (Main : forall ns ns', TasksBW ts -> NodesOK ns -> nominations_hold_nothing ts ns cs = true ->
                                replay ts ns cs = Some (ns', true) -> NodesOK ns').
  { induction cs as [|c cs IH]; intros ns ns' BWt OK NHn H; cbn [replay] in H.
    - injection H as <-. exact OK.
    - cbn [nominations_hold_nothing] in NHn. apply andb_true_iff in NHn as [PH NHr].
      destruct (apply_call ts ns c) as [[ns1 ok]|] eqn:E; [|discriminate].
      destruct (replay ts ns1 cs) as [[ns2 ok2]|] eqn:R; [|discriminate].
      injection H as <- Hok. apply andb_true_iff in Hok as [-> ->].
      apply (IH ns1 ns2 BWt); [|exact NHr|exact R].
      exact (apply_call_ok ts ns c ns1 BWt OK PH E). }
  intros ns ns' BWt OK NHn H. pose proof (Main ns ns' BWt OK NHn H) as OK'.
  split; [exact OK'|]. intros nid n A. apply NodeOK_devices. exact (NodesOK_get _ _ _ OK' A).
Qed.

(** non-vacuity of the cycle statement: on [nv_node] the cycle binds a sharer
    into device 1, evicts the whole-GPU pod, binds a whole-GPU pod onto the
    last idle GPU and nominates a CPU-only pod *)
Definition cy_tasks : list tinfo :=
  [mkTI (x_sh 5 Pending 50 []) 1 None; mkTI (x_wh 3 Running 1) 1 (Some 1%positive);
   mkTI (x_wh 8 Pending 1) 1 None; mkTI (x_wh 9 Pending 0) 1 None].
Definition cy_nodes : amap node := [(1%positive, nv_node)].
Definition cy_calls : list call :=
  [CBind 5 1 [1%positive]; CEvict 3 1%nat None; CBind 8 1 []; CPipe 9 1 []].

Lemma nv_node_ok : NodeOK nv_node.
Proof.
  split; [exact nv_node_full|]. split; [apply TW_forallb; vm_compute; reflexivity|].
  split; [apply NH_bool; vm_compute; reflexivity|]. vm_compute. discriminate.
Qed.

Theorem cycle_devices_nonvacuous :
  TasksBW cy_tasks /\ NodesOK cy_nodes /\ nominations_hold_nothing cy_tasks cy_nodes cy_calls = true
  /\ exists ns', replay cy_tasks cy_nodes cy_calls = Some (ns', true)
       /\ exists n, alookup 1%positive ns' = Some n
            /\ map t_id (tasks_of n) = [2; 3; 4; 5; 8; 9]%positive
            /\ gpu (n_idle n) = 0 /\ devices_in_use (tasks_of n) = 4 /\ gpu (n_alloc n) = 4.
Proof.
  split; [repeat constructor|]. split; [constructor; [exact nv_node_ok|constructor]|].
  split; [vm_compute; reflexivity|].
  eexists. split; [vm_compute; reflexivity|]. eexists. split; [vm_compute; reflexivity|].
  repeat split; vm_compute; reflexivity.
Qed.

Theorem cycle_hypotheses_unfold :
  (forall n, NodeOK n <->
     (FullBooks n /\ Forall (fun t => task_wf t = true) (tasks_of n)
      /\ Forall (fun t => (is_st Pipelined t && holds_gpu t) = false) (tasks_of n) /\ 0 <= gpu (n_idle n)))
  /\ (forall ns, NodesOK ns <-> Forall (fun kn => NodeOK (snd kn)) ns)
  /\ (forall ts, TasksBW ts <-> Forall (fun ti => bind_wf (ti_task ti) = true) ts).
Proof. split; [|split]; intros x; split; intros Hx; exact Hx. Qed.
